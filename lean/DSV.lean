import DSV.Model.Filter
import DSV.Proofs.Filter
