import DSV.Proofs.Filter
import DSV.Model.Codec
/-!
C13 — file pruning never changes a query's answer.
-/
namespace DSV.Filter

/-- **prune_sound** (full strength, after fix 6a270b4) — for every column content (NULLs and NaN included),
every operator and every literal / value set, a file skipped by its computed bounds contains no row on which
the predicate is SQL-TRUE. -/
theorem prune_sound (xs : List V) (e : Expr)
    (hp : mayMatch1 (bounds xs) e = false) : ∀ x ∈ xs, evalSqlV e x ≠ Tri.t := by
  intro x hx
  cases hb : bounds xs with
  | none => simp [mayMatch1, hb] at hp
  | nanB => exact absurd hb (bounds_ne_nanB xs)
  | range lo hi =>
    obtain ⟨hn, hr⟩ := bounds_range hb
    rw [hb] at hp
    cases x with
    | nan => exact absurd hx hn
    | null =>
      unfold mayMatch1 at hp
      unfold evalSqlV; cases hop : e.op <;> simp [Tri.ofBool, hop] at hp ⊢
    | val a =>
      obtain ⟨h1, h2⟩ := hr a hx
      unfold evalSqlV
      unfold mayMatch1 at hp
      cases hop : e.op <;> simp only [hop] at hp ⊢ <;> try (simp at hp; done)
      case isIn =>
        simp only [Bool.or_eq_false_iff, List.any_eq_false] at hp
        have : memSql (V.val a) (dropNull e.set) = false := by
          unfold memSql
          rw [List.any_eq_false]
          intro s hs
          have hs' := (mem_dropNull.mp hs).1
          have h3 := hp.2 s hs'
          cases s with
          | null => simp [inRangeOrNull] at h3
          | nan => simp [eqSql]
          | val b =>
            simp only [inRangeOrNull, Bool.and_eq_true, decide_eq_true_eq, not_and] at h3
            simp only [eqSql, beq_iff_eq]
            intro hab; subst hab; exact absurd h2 (h3 h1)
        simp [Tri.ofBool, this]
      all_goals
        cases hl : e.lit <;> simp only [hl] at hp ⊢ <;> try (simp at hp; done)
        all_goals
          simp [Tri.ofBool, cmpNN] at hp ⊢
          omega

/-- Regression witness of the repaired defect: with bounds computed over the non-NaN values only
(the pre-fix behaviour, `[1,1]` for the column `[1, NaN]`), `x != 1` prunes a file whose NaN row matches. -/
theorem prefix_bounds_unsound :
    mayMatch1 (.range 1 1) { col := 0, op := .ne, lit := .val 1, set := [] } = false ∧
    evalSqlV { col := 0, op := .ne, lit := .val 1, set := [] } .nan = Tri.t := by decide

/-- Non-vacuity: files that ARE pruned (so the implication is exercised), one of them holding NULLs. -/
example : mayMatch1 (bounds [.val 1, .null, .val 3]) { col := 0, op := .gt, lit := .val 3, set := [] } = false := by
  decide
example : bounds [.val 1, .nan] = .none := by decide

/-- Lazy `any(...)` (order-sensitive in Python because of the TypeError on NULL) equals the
order-insensitive formulation used in `mayMatch1`. -/
theorem inWalk_eq (lo hi : Int) (vs : List V) :
    inWalk lo hi vs = vs.any (inRangeOrNull lo hi) := by
  induction vs with
  | nil => rfl
  | cons s rest ih =>
    cases s with
    | null => simp [inWalk, inRangeOrNull]
    | nan => simp [inWalk, ih, inRangeOrNull]
    | val v =>
      simp only [inWalk, List.any_cons, ih, inRangeOrNull]
      split
      · rename_i h; simp [h]
      · rename_i h
        have : (decide (lo ≤ v) && decide (v ≤ hi)) = false := by simpa using h
        simp [this]

end DSV.Filter

namespace DSV.Codec

/-- **codec_roundtrip** — every bound value of a supported class survives the manifest round trip with its
class (type) and payload intact; in particular `bool` does not come back as `int` and `datetime` not as `date`. -/
theorem codec_roundtrip (v : PyVal) (h : v.cls ≠ Cls.other) : decode (encode v) = v := by
  obtain ⟨c, p⟩ := v
  cases c <;> simp_all [encode, decode, isInstance]

/-- Values of unsupported classes degrade to their `str()` — type is NOT preserved (outside the property's list). -/
theorem codec_other_degrades (p : String) : decode (encode ⟨.other, p⟩) = ⟨.str, p⟩ := by
  simp [encode, decode, isInstance]

example : decode (encode ⟨.bool, "True"⟩) = ⟨.bool, "True"⟩ := by decide

end DSV.Codec
