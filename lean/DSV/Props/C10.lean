import DSV.Proofs.Skeleton
import DSV.Generated.Skeleton
import DSV.Model.Hint
/-!
C10 — the version pointer is only a hint.
-/
namespace DSV.Hint

/-- Full statement: whatever the bytes of the pointer file, parsing never lets an exception escape. -/
def ParseTotal (guardInt : Bool) : Prop := ∀ c, parseHintWith guardInt c ≠ Res.raise

/-- **parse_total_refuted** (regression witness) — the code as found: a character that `str.isdigit()` accepts but `int()` rejects
(e.g. U+00B2) reaches `int()` unguarded and the ValueError escapes `refresh()`. -/
theorem parse_total_refuted : ¬ ParseTotal false := by
  intro h
  exact h (some [.dx]) (by decide)

/-- **parse_total** (full strength, after fix 88f5723) — no pointer content makes the parser raise. -/
theorem parse_total : ParseTotal true := by
  intro c
  unfold parseHintWith
  cases c with
  | none => simp
  | some raw =>
    simp only []
    split
    · simp
    · split
      · split <;> simp
      · split
        · split <;> simp
        · simp

/-- **parse_total_partial** — even unguarded, contents made of ASCII / decimal digits within the int-conversion
limit (and everything that is not all-digits and not a metadata file name) never raise. -/
theorem parse_total_partial (raw : List Cp) (h : ∀ c ∈ raw, c ≠ Cp.dx) (hl : raw.length ≤ maxStrDigits) :
    parseHintWith false (some raw) ≠ Res.raise := by
  have hstrip_sub : ∀ c ∈ strip raw, c ∈ raw := by
    intro c hc
    unfold strip at hc
    rw [List.mem_reverse] at hc
    have h1 := (List.dropWhile_sublist _).subset hc
    rw [List.mem_reverse] at h1
    exact (List.dropWhile_sublist _).subset h1
  have hstrip_len : (strip raw).length ≤ raw.length := by
    unfold strip
    rw [List.length_reverse]
    calc _ ≤ (List.dropWhile isWs raw).reverse.length := (List.dropWhile_sublist _).length_le
      _ = (List.dropWhile isWs raw).length := List.length_reverse
      _ ≤ raw.length := (List.dropWhile_sublist _).length_le
  unfold parseHintWith
  simp only []
  split
  · simp
  · split
    · rename_i hall
      have hdec : (strip raw).all isDecimalChar = true := by
        rw [List.all_eq_true] at hall ⊢
        intro c hc
        have h1 := hall c hc
        have h2 := h c (hstrip_sub c hc)
        cases c <;> simp_all [isDigitChar, isDecimalChar]
      have : pyInt (strip raw) = some (decimalValue (strip raw)) := by
        unfold pyInt
        have hl2 : (strip raw).length ≤ maxStrDigits := Nat.le_trans hstrip_len hl
        simp [hdec, hl2]
      rw [this]; simp
    · split
      · rename_i ds hm
        -- the digit group of a matched name is a takeWhile of decimal characters, shorter than the text
        have hds : ds.all isDecimalChar = true ∧ ds.length ≤ (strip raw).length := by
          unfold matchMetaName at hm
          split at hm
          · rename_i rest heq0
            simp only [] at hm
            have heq := heq0
            have htw : (rest.takeWhile isDecimalChar).all isDecimalChar = true := List.all_takeWhile
            have hlen : (rest.takeWhile isDecimalChar).length ≤ (strip raw).length := by
              have := (List.takeWhile_sublist (p := isDecimalChar) (l := rest)).length_le
              rw [heq]; simp only [List.length_cons]; omega
            split at hm
            · cases hm
            · split at hm
              · cases hm; exact ⟨htw, hlen⟩
              · split at hm
                · split at hm
                  · cases hm; exact ⟨htw, hlen⟩
                  · cases hm
                · cases hm
          · cases hm
        have : pyInt ds = some (decimalValue ds) := by
          unfold pyInt
          have : ds.length ≤ maxStrDigits := Nat.le_trans hds.2 (Nat.le_trans hstrip_len hl)
          simp [hds.1, this]
        rw [this]; simp
      · simp

/-- Non-vacuity of the partial theorem and behaviour on the documented forms. -/
def sampleName : List Cp :=
  [.ch 'v', .ad 3, .ch '-', .ad 1, .ch 'a', .ad 2, .ch 'b', .ad 3, .ch 'c', .ad 4, .ch 'd'] ++ lit ".metadata.json"
example : parseHintWith false (some (sampleName ++ [.ws])) = .ok (3, sampleName) := by decide +kernel
example : parseHintWith false (some [.ws, .ad 1, .ad 2, .ws]) = .ok (12, lit "v" ++ [.ad 1, .ad 2] ++ lit ".metadata.json") := by
  decide +kernel
example : parseHintWith true (some [.dx]) = .none := by decide
example : parseHintWith false (some ([.ch 'v', .ad 3, .ch '-', .ad 1, .ch 'A', .ad 2, .ch 'b', .ad 3, .ch 'c', .ad 4, .ch 'd']
    ++ lit ".metadata.json")) = .none := by decide +kernel

/-! ### recovery -/

theorem recoverStep_inv (es : List Entry) :
    ∀ (best : Option (Nat × Nat × Int)) (seen : List Entry),
      (∀ v n m, best = some (v, n, m) → (∃ e ∈ seen, e.version = some v ∧ e.name = n ∧ mt e = m) ∧
          (∀ e ∈ seen, ∀ v', e.version = some v' → v' ≤ v) ∧
          (∀ e ∈ seen, e.version = some v → mt e ≤ m)) →
      (best = none → ∀ e ∈ seen, e.version = none) →
      (∀ v n m, es.foldl recoverStep best = some (v, n, m) →
          (∃ e ∈ seen ++ es, e.version = some v ∧ e.name = n ∧ mt e = m) ∧
          (∀ e ∈ seen ++ es, ∀ v', e.version = some v' → v' ≤ v) ∧
          (∀ e ∈ seen ++ es, e.version = some v → mt e ≤ m)) ∧
      (es.foldl recoverStep best = none → ∀ e ∈ seen ++ es, e.version = none) := by
  induction es with
  | nil => intro best seen h1 h2; simpa using ⟨h1, h2⟩
  | cons e rest ih =>
    intro best seen h1 h2
    have key := ih (recoverStep best e) (seen ++ [e])
    simp only [List.foldl_cons]
    have happ : seen ++ [e] ++ rest = seen ++ e :: rest := by simp
    rw [happ] at key
    apply key
    · -- invariant for the new best
      intro v n m hb
      unfold recoverStep at hb
      cases hv : e.version with
      | none =>
        simp only [hv] at hb
        obtain ⟨⟨x, hx, hx2⟩, hmax, hmt⟩ := h1 v n m hb
        refine ⟨⟨x, by simp [hx], hx2⟩, ?_, ?_⟩
        · intro y hy v' hy2
          rcases List.mem_append.mp hy with hy | hy
          · exact hmax y hy v' hy2
          · simp only [List.mem_singleton] at hy; subst hy; rw [hv] at hy2; cases hy2
        · intro y hy hy2
          rcases List.mem_append.mp hy with hy | hy
          · exact hmt y hy hy2
          · simp only [List.mem_singleton] at hy; subst hy; rw [hv] at hy2; cases hy2
      | some ev =>
        simp only [hv] at hb
        cases hbest : best with
        | none =>
          simp only [hbest, Option.some.injEq, Prod.mk.injEq] at hb
          obtain ⟨rfl, rfl, rfl⟩ := hb
          have hnone := h2 hbest
          refine ⟨⟨e, by simp, hv, rfl, rfl⟩, ?_, ?_⟩
          · intro y hy v' hy2
            rcases List.mem_append.mp hy with hy | hy
            · rw [hnone y hy] at hy2; cases hy2
            · simp only [List.mem_singleton] at hy; subst hy; rw [hv] at hy2; cases hy2; exact Nat.le_refl _
          · intro y hy hy2
            rcases List.mem_append.mp hy with hy | hy
            · rw [hnone y hy] at hy2; cases hy2
            · simp only [List.mem_singleton] at hy; subst hy; exact Int.le_refl _
        | some b =>
          obtain ⟨bv, bn, bm⟩ := b
          obtain ⟨⟨x, hx, hx2⟩, hmax, hmt⟩ := h1 bv bn bm hbest
          simp only [hbest] at hb
          split at hb
          · rename_i hgt
            simp only [Option.some.injEq, Prod.mk.injEq] at hb
            obtain ⟨rfl, rfl, rfl⟩ := hb
            refine ⟨⟨e, by simp, hv, rfl, rfl⟩, ?_, ?_⟩
            · intro y hy v' hy2
              rcases List.mem_append.mp hy with hy | hy
              · have := hmax y hy v' hy2; omega
              · simp only [List.mem_singleton] at hy; subst hy; rw [hv] at hy2; cases hy2; exact Nat.le_refl _
            · intro y hy hy2
              rcases List.mem_append.mp hy with hy | hy
              · have := hmax y hy _ hy2; omega
              · simp only [List.mem_singleton] at hy; subst hy; exact Int.le_refl _
          · rename_i hngt
            split at hb
            · rename_i heq
              have heq' : ev = bv := by simpa using heq
              subst heq'
              split at hb
              · rename_i hm
                simp only [Option.some.injEq, Prod.mk.injEq] at hb
                obtain ⟨rfl, rfl, rfl⟩ := hb
                refine ⟨⟨e, by simp, hv, rfl, rfl⟩, ?_, ?_⟩
                · intro y hy v' hy2
                  rcases List.mem_append.mp hy with hy | hy
                  · exact hmax y hy v' hy2
                  · simp only [List.mem_singleton] at hy; subst hy; rw [hv] at hy2; cases hy2; exact Nat.le_refl _
                · intro y hy hy2
                  rcases List.mem_append.mp hy with hy | hy
                  · have := hmt y hy hy2; omega
                  · simp only [List.mem_singleton] at hy; subst hy; exact Int.le_refl _
              · rename_i hm
                simp only [Option.some.injEq, Prod.mk.injEq] at hb
                obtain ⟨rfl, rfl, rfl⟩ := hb
                refine ⟨⟨x, by simp [hx], hx2⟩, ?_, ?_⟩
                · intro y hy v' hy2
                  rcases List.mem_append.mp hy with hy | hy
                  · exact hmax y hy v' hy2
                  · simp only [List.mem_singleton] at hy; subst hy; rw [hv] at hy2; cases hy2; exact Nat.le_refl _
                · intro y hy hy2
                  rcases List.mem_append.mp hy with hy | hy
                  · exact hmt y hy hy2
                  · simp only [List.mem_singleton] at hy; subst hy; omega
            · rename_i hne
              simp only [Option.some.injEq, Prod.mk.injEq] at hb
              obtain ⟨rfl, rfl, rfl⟩ := hb
              have hlt : ev < bv := by
                have : ¬ ev = bv := by simpa using hne
                omega
              refine ⟨⟨x, by simp [hx], hx2⟩, ?_, ?_⟩
              · intro y hy v' hy2
                rcases List.mem_append.mp hy with hy | hy
                · exact hmax y hy v' hy2
                · simp only [List.mem_singleton] at hy; subst hy; rw [hv] at hy2; cases hy2; omega
              · intro y hy hy2
                rcases List.mem_append.mp hy with hy | hy
                · exact hmt y hy hy2
                · simp only [List.mem_singleton] at hy; subst hy; rw [hv] at hy2; cases hy2; omega
    · -- none stays none only if nothing seen has a version
      intro hb y hy
      unfold recoverStep at hb
      cases hv : e.version with
      | none =>
        simp only [hv] at hb
        rcases List.mem_append.mp hy with hy | hy
        · exact h2 hb y hy
        · simp only [List.mem_singleton] at hy; subst hy; exact hv
      | some ev =>
        simp only [hv] at hb
        cases hbest : best with
        | none => simp [hbest] at hb
        | some b =>
          obtain ⟨bv, bn, bm⟩ := b
          simp only [hbest] at hb
          split at hb
          · cases hb
          · split at hb
            · split at hb <;> cases hb
            · cases hb

/-- **recover_highest_newest** — scanning picks an existing metadata file with the highest version, and among
files of that version one with the greatest modification time; it finds one whenever any file matches. -/
theorem recover_highest_newest (es : List Entry) :
    (∀ v n, recover (some es) = some (v, n) →
        (∃ e ∈ es, e.version = some v ∧ e.name = n ∧
          (∀ e' ∈ es, ∀ v', e'.version = some v' → v' ≤ v) ∧
          (∀ e' ∈ es, e'.version = some v → mt e' ≤ mt e))) ∧
    (recover (some es) = none → ∀ e ∈ es, e.version = none) := by
  have h := recoverStep_inv es none [] (by intro v n m h; cases h) (by intro _ e he; cases he)
  simp only [List.nil_append] at h
  constructor
  · intro v n hr
    unfold recover at hr
    simp only [Option.map_eq_some_iff] at hr
    obtain ⟨⟨v', n', m⟩, hf, heq⟩ := hr
    simp only [Prod.mk.injEq] at heq
    obtain ⟨rfl, rfl⟩ := heq
    obtain ⟨⟨e, he, h1, h2, h3⟩, hmax, hmt⟩ := h.1 v' n' m hf
    exact ⟨e, he, h1, h2, hmax, fun e' he' hv' => by rw [h3]; exact hmt e' he' hv'⟩
  · intro hr
    unfold recover at hr
    simp only [Option.map_eq_none_iff] at hr
    exact h.2 hr

/-! ### resolution -/

/-- **open_resolves_latest_partial** — if the latest committed version `L` (file `n`) is on storage, no other
metadata file carries a version ≥ `L`, and the pointer is missing / unparseable / dangling / names `L`,
then opening resolves to `L`. -/
theorem open_resolves_latest_partial (es : List Entry) (L n : Nat) (m : Option Nat)
    (hL : (⟨n, some L, m⟩ : Entry) ∈ es)
    (hmax : ∀ e ∈ es, ∀ v, e.version = some v → v ≤ L)
    (huniq : ∀ e ∈ es, e.version = some L → e.name = n)
    (hint : Res (Nat × Nat)) (ex : Bool)
    (hh : hint = .none ∨ (∃ v x, hint = .ok (v, x) ∧ ex = false) ∨ (hint = .ok (L, n) ∧ ex = true)) :
    currentVersionInfo hint ex (some es) = .ok (L, n) := by
  have hrec : recover (some es) = some (L, n) := by
    have h := recover_highest_newest es
    cases hr : recover (some es) with
    | none =>
      have := h.2 hr _ hL
      simp at this
    | some r =>
      obtain ⟨v, x⟩ := r
      obtain ⟨e, he, hv, hn, hmx, _⟩ := h.1 v x hr
      have h1 : v ≤ L := hmax e he v hv
      have h2 : L ≤ v := hmx _ hL L rfl
      have : v = L := by omega
      subst this
      rw [← hn, huniq e he hv]
  rcases hh with h | ⟨v, x, h, hex⟩ | ⟨h, hex⟩
  · subst h; simp [currentVersionInfo, currentVersionInfoWith, scan, hrec]
  · subst h; subst hex; simp [currentVersionInfo, currentVersionInfoWith, scan, hrec]
  · subst h; subst hex; simp [currentVersionInfo, currentVersionInfoWith]

/-- Full statement of "opening resolves to the latest committed version" over pointer contents and leftovers. -/
def OpenResolvesLatest : Prop :=
  ∀ (es : List Entry) (L n : Nat) (m : Option Nat), (⟨n, some L, m⟩ : Entry) ∈ es →
    ∀ (hint : Res (Nat × Nat)) (ex : Bool), hint ≠ .raise → currentVersionInfo hint ex (some es) = .ok (L, n)

/-- **open_resolves_latest_refuted** — two ways the unrestricted statement fails: (a) pointer lost while an
uncommitted file of a higher version (left by a failed commit) is on storage: the scan surfaces it;
(b) a stale pointer naming an existing older version is believed. -/
theorem open_resolves_latest_refuted : ¬ OpenResolvesLatest := by
  intro h
  have := h [⟨0, some 3, some 10⟩, ⟨1, some 4, some 11⟩] 3 0 (some 10) (by simp) .none false (by simp)
  revert this
  decide

theorem stale_pointer_believed :
    currentVersionInfo (.ok (2, 7)) true (some [⟨7, some 2, some 5⟩, ⟨0, some 3, some 10⟩]) = .ok (2, 7) := by decide

/-- **never_reinit** (full strength, after fix be2333b) — `_current_version_info()` answers "no table" only when
the metadata listing SUCCEEDED and contains no metadata version at all; in every other case (a recoverable version,
a failing listing, a raising parser) `initialize_table` refuses or an error escapes — it never re-initialises. -/
theorem never_reinit (listing : Option (List Entry)) (hint : Res (Nat × Nat)) (ex : Bool)
    (h : currentVersionInfo hint ex listing = .none) :
    ∃ es, listing = some es ∧ ∀ e ∈ es, e.version = none := by
  have key : scan false listing = .none → ∃ es, listing = some es ∧ ∀ e ∈ es, e.version = none := by
    intro hs
    cases listing with
    | none => simp [scan] at hs
    | some es =>
      refine ⟨es, rfl, ?_⟩
      simp only [scan] at hs
      cases hr : recover (some es) with
      | none => exact (recover_highest_newest es).2 hr
      | some r => simp [hr] at hs
  unfold currentVersionInfo currentVersionInfoWith at h
  cases hint with
  | raise => simp at h
  | none => exact key h
  | ok p =>
    obtain ⟨v, n⟩ := p
    cases ex
    · exact key h
    · simp at h

/-- **never_reinit_refuted** (regression witness) — with the listing error swallowed (code as found), pointer lost +
scan failing reads as "no table" although one exists, and initialisation proceeds. -/
theorem never_reinit_refuted : currentVersionInfoWith true .none false none = .none := by decide

end DSV.Hint

/-! ## Tie to the current source -/
namespace DSV.Src.C10
open DSV.Skel DSV.Generated.Skel

/-- **source_pointer_then_scan** — the CURRENT `_current_version_info` reads the pointer first, checks that the file it names
exists, and falls back to the recovery scan only then; `refresh` resolves the version through it ONCE and reads one metadata
file. -/
theorem source_pointer_then_scan :
    project [("_read_version_hint", "hint"), ("storage.exists", "exists"), ("_recover_version_from_files", "scan")] mmCurrentVersionInfo
      = ["hint", "exists", "scan"] ∧
    project [("_current_version_info", "resolve"), ("_read_metadata_file", "read"), ("_read_version_hint", "hint"),
             ("_recover_version_from_files", "scan")] mmRefresh = ["resolve", "read"] := by decide

end DSV.Src.C10
