import DSV.Proofs.TxOps
import DSV.Model.Append
/-!
# C11 — accepted appends are exact; rejected ones leave no trace; scans keep working

Theorems over `DSV.Model.Append`.
* `schema_arg_sound`     : an accepted schema argument is the table's schema, field by field, ids and order included
* `append_keeps_scans`   : every history of appends (any schema arguments, any batches) keeps every file in the table's column
                           layout with its bounds under the table's field ids — scans and pruning keep working
* `append_exact`         : an accepted append adds exactly the supplied records (absent optional columns as None), nothing else
* `append_reject_frame`  : a rejected append returns no new table (the model has no partial state; the on-disk side is the oracle's)
* `guard_covers_lossy`   : for EVERY value attributes, if pyarrow's conversion would alter the value the validator refuses it
* `grid_lossy_spec`      : on the measured grid pyarrow is lossy exactly where `lossySpec` says
* `coerce_faithful`      : on the measured grid every accepted (type, value class) is converted exactly
* refutations of the as-found code: `old_accepts_reordered`, `old_accepts_renumbered`, `old_history_breaks_scan`,
  `old_fits_lossy`
-/
namespace DSV.Props.C11
open DSV.Append

theorem sig_injective : ∀ a b : Schema, sig a = sig b → a = b := by
  intro a
  induction a with
  | nil => intro b h; cases b with
    | nil => rfl
    | cons y ys => simp [sig] at h
  | cons x xs ih =>
    intro b h
    cases b with
    | nil => simp [sig] at h
    | cons y ys =>
      simp only [sig, List.map_cons, List.cons.injEq, Prod.mk.injEq] at h
      obtain ⟨⟨h1, h2, h3, h4⟩, ht⟩ := h
      have : x = y := by cases x; cases y; simp_all
      rw [this, ih ys (by simpa [sig] using ht)]

/-- an accepted schema argument IS the table's schema -/
theorem schema_arg_sound (t a : Schema) (h : acceptsArg t a = true) : a = t := by
  unfold acceptsArg at h
  exact sig_injective a t (by simpa using h)

theorem schema_arg_complete (t : Schema) : acceptsArg t t = true := by simp [acceptsArg]

/-- the resolved schema of an append that got past the schema check is the table's schema -/
theorem resolved_schema (t : Table) (arg : Option Schema)
    (h : (arg.isSome && !acceptsArg t.schema (arg.getD t.schema)) = false) : arg.getD t.schema = t.schema := by
  cases arg with
  | none => rfl
  | some a =>
    simp only [Option.isSome_some, Option.getD_some, Bool.true_and, Bool.not_eq_false'] at h
    simpa using schema_arg_sound _ _ h

/-- characterisation of an accepted append -/
theorem append_ok (t : Table) (arg : Option Schema) (rs : List Record) (t' : Table) (h : append t arg rs = .ok t') :
    (arg = none ∨ arg = some t.schema) ∧ rs.all (recordOk t.schema) = true ∧
    t' = { t with files := t.files ++ [{ layout := layout t.schema, boundKeys := boundKeys t.schema, rows := rs.map (stored t.schema) }] } := by
  unfold append appendWith at h
  by_cases h1 : (arg.isSome && !acceptsArg t.schema (arg.getD t.schema)) = true
  · rw [if_pos h1] at h; cases h
  · rw [if_neg h1] at h
    have hs := resolved_schema t arg (by simpa using h1)
    rw [hs] at h
    by_cases h2 : (!rs.all (recordOk t.schema)) = true
    · rw [if_pos h2] at h; cases h
    · rw [if_neg h2] at h
      refine ⟨?_, by simpa using h2, ?_⟩
      · cases arg with
        | none => exact Or.inl rfl
        | some a => right; simp only [Option.getD_some] at hs; rw [hs]
      · injection h with h; exact h.symm

/-- the schema an accepted append writes with is the table's schema -/
theorem append_writes_table_schema (t : Table) (arg : Option Schema) (rs : List Record) (t' : Table)
    (h : append t arg rs = .ok t') :
    t'.schema = t.schema ∧ ∃ f, t'.files = t.files ++ [f] ∧ f.layout = layout t.schema ∧ f.boundKeys = boundKeys t.schema
      ∧ f.rows = rs.map (stored t.schema) := by
  obtain ⟨_, _, rfl⟩ := append_ok t arg rs t' h
  exact ⟨rfl, _, rfl, rfl, rfl, rfl⟩

/-- C11, exactness: an accepted append adds exactly the supplied records and nothing else -/
theorem append_exact (t : Table) (arg : Option Schema) (rs : List Record) (t' : Table)
    (h : append t arg rs = .ok t') : scanRows t' = scanRows t ++ rs.map (stored t.schema) := by
  obtain ⟨_, f, hf, _, _, hr⟩ := append_writes_table_schema t arg rs t' h
  simp [scanRows, hf, hr]

/-- every record of an accepted batch passed validation against the table's schema -/
theorem append_validated (t : Table) (arg : Option Schema) (rs : List Record) (t' : Table)
    (h : append t arg rs = .ok t') : ∀ r ∈ rs, recordOk t.schema r = true := by
  have := (append_ok t arg rs t' h).2.1
  simpa using this

/-- a rejected append yields no table at all (the step function has no partial state), and it is rejected for a reason:
the schema argument differs from the table's schema, or some record of the batch fails validation -/
theorem append_reject_frame (t : Table) (arg : Option Schema) (rs : List Record) (e : Err)
    (h : append t arg rs = .error e) :
    (e = .schemaMismatch ∧ ∃ a, arg = some a ∧ a ≠ t.schema) ∨ (e = .badRecord ∧ ∃ r ∈ rs, recordOk t.schema r = false) := by
  unfold append appendWith at h
  by_cases h1 : (arg.isSome && !acceptsArg t.schema (arg.getD t.schema)) = true
  · rw [if_pos h1] at h
    injection h with h
    left
    refine ⟨h.symm, ?_⟩
    cases arg with
    | none => simp at h1
    | some a =>
      refine ⟨a, rfl, ?_⟩
      intro ha
      subst ha
      simp [schema_arg_complete] at h1
  · rw [if_neg h1] at h
    have hs := resolved_schema t arg (by simpa using h1)
    rw [hs] at h
    by_cases h2 : (!rs.all (recordOk t.schema)) = true
    · rw [if_pos h2] at h
      injection h with h
      right
      refine ⟨h.symm, ?_⟩
      simpa using h2
    · rw [if_neg h2] at h; cases h

def Good (t : Table) : Prop := scanWorks t = true ∧ pruneSound t = true

theorem append_good (t : Table) (arg : Option Schema) (rs : List Record) (t' : Table)
    (hg : Good t) (h : append t arg rs = .ok t') : Good t' := by
  obtain ⟨hs, f, hf, hl, hb, _⟩ := append_writes_table_schema t arg rs t' h
  obtain ⟨g1, g2⟩ := hg
  unfold Good scanWorks pruneSound at *
  rw [hs, hf]
  simp only [List.all_append, List.all_cons, List.all_nil, Bool.and_true, Bool.and_eq_true]
  exact ⟨⟨g1, by simp [hl]⟩, ⟨g2, by simp [hb]⟩⟩

/-- C11, scans keep working: after ANY history of appends — accepted or rejected, with any schema arguments and batches —
every file has the table's column layout (full scans concatenate) and its bounds under the table's ids (pruning is sound) -/
theorem append_keeps_scans (t : Table) (ops : List Op) (hg : Good t) : Good (run t ops) := by
  induction ops generalizing t with
  | nil => exact hg
  | cons o os ih =>
    simp only [run, List.foldl_cons]
    cases hap : append t o.arg o.rows with
    | error e => exact ih t hg
    | ok t' => exact ih t' (append_good t o.arg o.rows t' hg hap)

theorem run_schema (t : Table) (ops : List Op) : (run t ops).schema = t.schema := by
  induction ops generalizing t with
  | nil => rfl
  | cons o os ih =>
    simp only [run, List.foldl_cons]
    cases hap : append t o.arg o.rows with
    | error e => exact ih t
    | ok t' =>
      have := (append_writes_table_schema t o.arg o.rows t' hap).1
      rw [← this]; exact ih t'

/-! ### coercion -/

/-- for EVERY value: whatever pyarrow would silently alter, the validator refuses (no table involved) -/
theorem guard_covers_lossy (ty : String) (a : Attrs) (h : lossySpec ty a = true) : guardRefuses ty a = true := by
  unfold lossySpec at h
  unfold guardRefuses
  cases hp : a.py <;> simp_all <;> grind

/-- on the measured grid, pyarrow alters a value exactly where the specification says it is not representable -/
theorem grid_lossy_spec : ∀ p ∈ grid, ∃ a, attrs p.1 p.2 = some a ∧ (arrow p.1 p.2 = .lossy ↔ lossySpec p.1 a = true) := by
  decide +kernel

/-- C11, faithfulness on the measured grid: every accepted (column type, value class) is converted exactly -/
theorem coerce_faithful : ∀ p ∈ grid, fits p.1 p.2 = true → arrow p.1 p.2 = .exact := by
  decide +kernel

/-- …and derived rather than enumerated: whenever the class is known, pyarrow's verdict follows the specification and the
value is accepted, the conversion is exact -/
theorem fits_exact_of_spec (ty cls : String) (a : Attrs) (ha : attrs ty cls = some a)
    (hs : arrow ty cls = .lossy → lossySpec ty a = true) (hf : fits ty cls = true) : arrow ty cls = .exact := by
  unfold fits at hf
  rw [ha] at hf
  simp only [Bool.and_eq_true, Bool.not_eq_eq_eq_not, Bool.not_true, bne_iff_ne, ne_eq] at hf
  obtain ⟨hg, hr⟩ := hf
  cases har : arrow ty cls with
  | exact => rfl
  | reject => exact absurd har hr
  | lossy =>
    have := guard_covers_lossy ty a (hs har)
    rw [this] at hg
    cases hg

/-- every value of an accepted batch was converted exactly (grid classes) -/
theorem append_values_exact (t : Table) (arg : Option Schema) (rs : List Record) (t' : Table)
    (h : append t arg rs = .ok t') :
    ∀ r ∈ rs, ∀ kv ∈ r, ∃ ty, tyOf t.schema kv.1 = some ty ∧ fits ty kv.2 = true := by
  intro r hr kv hkv
  have hv := append_validated t arg rs t' h r hr
  unfold recordOk at hv
  simp only [Bool.and_eq_true, List.all_eq_true] at hv
  have := hv.2 kv hkv
  split at this
  · rename_i ty hty
    exact ⟨ty, hty, this⟩
  · cases this

/-! ### the as-found code, refuted -/

def base : Schema := [⟨1, "a", "long", true⟩, ⟨2, "b", "long", false⟩, ⟨3, "c", "string", false⟩]
def reordered : Schema := [⟨2, "b", "long", false⟩, ⟨1, "a", "long", true⟩, ⟨3, "c", "string", false⟩]
def renumbered : Schema := [⟨2, "a", "long", true⟩, ⟨1, "b", "long", false⟩, ⟨3, "c", "string", false⟩]
def t0 : Table := { schema := base, files := [{ layout := layout base, boundKeys := boundKeys base, rows := [] }] }
def rec1 : Record := [("a", "max"), ("b", "min"), ("c", "ascii")]

/-- as found: a reordered schema argument was accepted although the file it writes has another column layout -/
theorem old_accepts_reordered : acceptsArgOld base reordered = true ∧ layout reordered ≠ layout base
    ∧ acceptsArg base reordered = false := by decide +kernel

/-- as found: re-numbered field ids were accepted although the bounds then sit under another column's id -/
theorem old_accepts_renumbered : acceptsArgOld base renumbered = true ∧ boundKeys renumbered ≠ boundKeys base
    ∧ acceptsArg base renumbered = false := by decide +kernel

/-- as found: one accepted append breaks every later scan (and pruning) -/
theorem old_history_breaks_scan :
    (∃ t', appendOld t0 (some reordered) [rec1] = .ok t' ∧ scanWorks t' = false) ∧
    (∃ t', appendOld t0 (some renumbered) [rec1] = .ok t' ∧ pruneSound t' = false) := by
  refine ⟨⟨_, rfl, ?_⟩, ⟨_, rfl, ?_⟩⟩ <;> decide +kernel

/-- as found (pyarrow alone decides): values are accepted and altered -/
theorem old_fits_lossy : ∃ p ∈ grid, fitsOld p.1 p.2 = true ∧ arrow p.1 p.2 = .lossy ∧ fits p.1 p.2 = false :=
  ⟨("long", "float-fractional"), by decide +kernel, by decide +kernel, by decide +kernel, by decide +kernel⟩


/-! ### pre-built files -/

/-- an accepted pre-built file has exactly the table's Arrow schema; a table whose files all concatenate keeps doing so -/
theorem file_keeps_scans (t : PTable) (ft : Footer) (t' : PTable) (hg : concatWorks t = true)
    (h : appendFileWith fileAccepts t ft = some t') : ft = arrowSchema t.schema ∧ concatWorks t' = true := by
  unfold appendFileWith at h
  split at h
  · rename_i hacc
    cases h
    have hft : ft = arrowSchema t.schema := by simpa [fileAccepts] using hacc
    refine ⟨hft, ?_⟩
    unfold concatWorks at *
    simp only [List.all_append, List.all_cons, List.all_nil, Bool.and_true, Bool.and_eq_true]
    exact ⟨hg, by simp [hft]⟩
  · cases h

/-- any history of file-level appends (accepted or rejected) keeps the table scannable -/
theorem files_keep_scans (t : PTable) (fts : List Footer) (hg : concatWorks t = true) :
    concatWorks (fts.foldl (fun t ft => (appendFileWith fileAccepts t ft).getD t) t) = true := by
  induction fts generalizing t with
  | nil => exact hg
  | cons ft rest ih =>
    simp only [List.foldl_cons]
    cases hap : appendFileWith fileAccepts t ft with
    | none => exact ih t hg
    | some t' => exact ih t' (file_keeps_scans t ft t' hg hap).2

def fbase : Schema := [⟨1, "a", "long", true⟩, ⟨2, "b", "string", false⟩]
def pt0 : PTable := { schema := fbase, footers := [arrowSchema fbase] }
def allNullable : Footer := [("a", "pa.int64()", true), ("b", "pa.string()", true)]

/-- a check that ignores nullability accepts a file after which the table no longer concatenates -/
theorem nullability_ignored_breaks_scan :
    (∃ t', appendFileWith fileAcceptsNoNull pt0 allNullable = some t' ∧ concatWorks t' = false) ∧
    appendFileWith fileAccepts pt0 allNullable = none := by
  refine ⟨⟨_, rfl, ?_⟩, ?_⟩ <;> decide +kernel

example : concatWorks pt0 = true ∧ (appendFileWith fileAccepts pt0 (arrowSchema fbase)).isSome = true := by decide +kernel

/-! ### non-vacuity -/
example : Good t0 := by unfold Good; decide +kernel
example : ∃ t', append t0 (some base) [rec1] = .ok t' ∧ scanRows t' = [rec1] := ⟨_, rfl, by decide +kernel⟩
example : append t0 (some reordered) [rec1] = .error .schemaMismatch := by decide +kernel
example : append t0 none [[("b", "min")]] = .error .badRecord := by decide +kernel
example : fits "int" "float-integral" = true ∧ fits "int" "float-fractional" = false := by decide +kernel

end DSV.Props.C11

/-! ### several operations queued in one transaction -/
namespace DSV.Props.C11
open DSV.TxOps

/-- **all_queued_appends_committed** — every file of EVERY append queued in a transaction reaches the commit (queue order kept) -/
theorem all_queued_appends_committed (ops : List Op) (fs : List Nat) (h : Op.appendFiles fs ∈ ops) :
    ∀ f ∈ fs, f ∈ (partition ops).appends := mem_appends ops fs h

theorem queued_appends_exact (ops : List Op) :
    (partition ops).appends = ops.flatMap fun o => match o with | .appendFiles fs => fs | _ => [] := partition_appends ops

/-- what the property excludes: keeping only the last queued append -/
theorem last_append_only_loses_rows :
    ([Op.appendFiles [1, 2], .appendFiles [3], .deleteFiles [9], .appendFiles [4]].foldl stepPartLastAppendOnly ⟨[], [], none⟩).appends = [4] ∧
    (partition [Op.appendFiles [1, 2], .appendFiles [3], .deleteFiles [9], .appendFiles [4]]).appends = [1, 2, 3, 4] := by decide

end DSV.Props.C11
