import DSV.Proofs.Skeleton
import DSV.Generated.Skeleton
import DSV.Model.CommitFault
/-!
C04 — a failed, interrupted or ambiguous commit never damages committed data.
The quantifier here is finite by nature (backend × call style × phase of the fault × kind of fault × has-written-files),
so the theorems are proved by exhaustive kernel evaluation of the outcome model — the whole table, not a sample.
-/
namespace DSV.CommitFault

/-- **referenced_present** — whatever fails or interrupts, wherever: the transaction's files are never deleted once the
pointer names the version that references them. -/
theorem referenced_present (b : Backend) (st : Style) (pt : Point) (k : Kind) (w : Bool) :
    ¬ ((outcome true b st pt k w).flipped = true ∧ (outcome true b st pt k w).deleted = true) := by
  cases b <;> cases st <;> cases pt <;> cases k <;> cases w <;> decide

/-- **outcome_sound** — success is reported only in the post-state; a raise leaves pre or post. -/
theorem outcome_sound (b : Backend) (st : Style) (pt : Point) (k : Kind) (w : Bool) :
    ((outcome true b st pt k w).outcome = .ok → (outcome true b st pt k w).flipped = true) := by
  cases b <;> cases st <;> cases pt <;> cases k <;> cases w <;> decide

/-- **storage_error_is_pre** — a raise reported as a storage error leaves the pre-state. -/
theorem storage_error_is_pre (b : Backend) (st : Style) (pt : Point) (k : Kind) (w : Bool) :
    (outcome true b st pt k w).outcome = .storageError → (outcome true b st pt k w).flipped = false := by
  cases b <;> cases st <;> cases pt <;> cases k <;> cases w <;> decide

/-- **ambiguous_keeps_files** — when the outcome of the pointer write is unknowable the error is reported as ambiguous
and no file of the transaction is deleted; on the local backend a pointer-write failure is never ambiguous. -/
theorem ambiguous_keeps_files (b : Backend) (st : Style) (pt : Point) (k : Kind) (w : Bool)
    (hobj : k = .excAfter → b ≠ .localFs) :          -- "exception after effect" exists on object storage only
    ((outcome true b st pt k w).outcome = .ambiguous → (outcome true b st pt k w).deleted = false ∧ pt = .flip ∧ b ≠ .localFs) ∧
    (pt = .flip ∧ k = .excAfter → (outcome true b st pt k w).outcome = .ambiguous) := by
  cases b <;> cases st <;> cases pt <;> cases k <;> cases w <;> simp_all [outcome]

/-- **post_commit_faults_are_silent** — after the commit point a failing lock release or marker cleanup never turns a
durable commit into a reported failure. -/
theorem post_commit_faults_are_silent (b : Backend) (st : Style) (pt : Point) (k : Kind) (w : Bool)
    (hp : pt = .release ∨ pt = .finish) (hk : k ≠ .kbd) : (outcome true b st pt k w) = ⟨.ok, true, false⟩ := by
  cases b <;> cases st <;> cases pt <;> cases k <;> cases w <;> simp_all [outcome]

/-- Full statement for the code as found. -/
def ReferencedPresent (catchBase : Bool) : Prop :=
  ∀ b st pt k w, ¬ ((outcome catchBase b st pt k w).flipped = true ∧ (outcome catchBase b st pt k w).deleted = true)

/-- **referenced_present_refuted** (regression witness; the code as found) — a KeyboardInterrupt delivered after the pointer
write and before the transaction is marked committed (e.g. while the lock is released) inside a `with` block: `__exit__`
rolls back and deletes the data file the committed snapshot references. -/
theorem referenced_present_refuted : ¬ ReferencedPresent false := by
  intro h
  exact h .localFs .ctx .release .kbd true (by decide)

theorem referenced_present_fixed : ReferencedPresent true := fun b st pt k w => referenced_present b st pt k w

/-! ### the with-block and transaction reuse -/

/-- **body_failure_never_commits** — however the body of a with-block fails (an `Exception` or an interrupt), `__exit__` never
commits the operations queued so far -/
theorem body_failure_never_commits (e : BodyEnd) (active : Bool) (h : e ≠ .normal) : exitAction e active ≠ .commit := by
  cases e <;> cases active <;> simp_all [exitAction]

/-- what the property excludes: testing for `Exception` only commits a partial transaction on an interrupt -/
theorem exception_only_exit_commits_on_interrupt : exitActionExceptionOnly .interrupt true = .commit := by decide

/-- **reuse_deletes_only_own_attempt** — with the memory reset by `begin()`, a cleanly failing attempt deletes exactly the
files of THAT attempt, whatever earlier attempts of the same object ended with -/
theorem reuse_deletes_only_own_attempt (m : TxMem) (newFiles : List Nat) :
    (attempt true m newFiles .cleanFailure).2 = newFiles := by
  simp [attempt]

/-- what the property excludes: without the reset, the files of an earlier ambiguous (possibly durable) attempt are deleted by a
later clean failure -/
theorem reuse_without_reset_deletes_earlier_files :
    let (m1, _) := attempt false ⟨[]⟩ [1] .ambiguous
    (attempt false m1 [2] .cleanFailure).2 = [1, 2] := by decide

end DSV.CommitFault

/-! ## Tie to the current source: which handler of `Transaction.commit` keeps and which deletes the written files -/
namespace DSV.Src.C04
open DSV.Skel DSV.Generated.Skel

/-- **source_commit_handlers** — in the CURRENT source: a conflict (retries exhausted) and a known-pre-commit error roll back
deleting the written files; an ambiguous pointer write and an interrupt (BaseException) deactivate the transaction KEEPING
them; nothing fallible follows the commit call but `_finish_committed`. -/
theorem source_commit_handlers :
    project txVoc txCommit = ["finish", "commit", "commit", "finish",
                              "onConflict", "rollbackDelete", "onAmbiguous", "rollbackKeep",
                              "onError", "rollbackDelete", "onInterrupt", "rollbackKeep", "rollbackDelete"] := by decide

/-- **source_finish_swallows** — `_finish_committed` (after the commit point) removes markers inside a catch-all handler. -/
theorem source_finish_swallows :
    txFinishCommitted = ["try", "file_manager.storage.delete_file", "except:Exception", "end-try"] := by decide

/-- **source_flip_failure_classes** — the commit-point routine maps a CAS conflict to a retryable conflict and every other
failure of a conditional or non-atomic write to AmbiguousCommitError. -/
theorem source_flip_failure_classes :
    project [("except:CASConflictError", "onCas"), ("raise:ConcurrentModificationException", "conflict"),
             ("except:Exception", "onOther"), ("raise:AmbiguousCommitError", "ambiguous"), ("raise", "reraise")] mmWriteHint
      = ["onCas", "conflict", "onOther", "ambiguous", "onOther", "reraise", "ambiguous"] := by decide

/-- **source_rollback_is_best_effort** — the CURRENT `_rollback` deletes written files and markers each inside a catch-all:
a failing cleanup never turns into a second exception that masks the commit's outcome. -/
theorem source_rollback_is_best_effort :
    project [("file_manager.storage.exists", "exists"), ("file_manager.storage.delete_file", "delete"),
             ("except:Exception", "swallow"), ("raise", "reraise")] txRollback
      = ["exists", "delete", "swallow", "delete", "swallow"] := by decide

end DSV.Src.C04
