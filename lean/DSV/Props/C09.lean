import DSV.Proofs.History
import DSV.Proofs.Leave
/-!
# C09 — retained snapshots are immutable and time travel is stable

Theorems over `DSV.History` (the metadata algebra of C15 composed with a write-once file plane), for EVERY history of
{commit (append / delete / both, optional expiry), expire, delete snapshot, failed commit (cleaned or not), collection with any
candidate set}, of any length:
* `snapshot_content_stable` — every retained snapshot reads back exactly what was recorded at its commit;
* `committed_frozen`        — that record is never changed by anything later;
* `time_travel_stable`      — a snapshot retained at two points of a history reads the same at both;
* `commit_spec`             — a commit records the base snapshot's files minus exactly the deleted ones plus exactly the new ones;
* `gc_keeps_retained`       — a collection with ANY candidate set leaves every retained snapshot's content unchanged;
* `lookup_by_id_content`, `lookup_by_timestamp_hist`, `delete_current_repoints_hist` — the C15 lookup theorems on every reachable state;
* `inplace_rewrite_breaks`, `curonly_gc_breaks` — what the property excludes, witnessed on the two wrong variants.
-/
namespace DSV.Props.C09
open DSV.History DSV.Meta

theorem snapshot_content_stable (ops : List DSV.History.Op) (h : DSV.History.OpsOk init ops) :
    ∀ i ∈ (DSV.History.run ops).md.ids, ∃ c, (DSV.History.run ops).committed.lookup i = some c ∧ content (DSV.History.run ops) i = some c :=
  content_stable' ops h

theorem committed_frozen (ops1 ops2 : List DSV.History.Op) (h : DSV.History.OpsOk init (ops1 ++ ops2)) (i : Nat) (c : List Nat)
    (hc : (DSV.History.run ops1).committed.lookup i = some c) : (DSV.History.run (ops1 ++ ops2)).committed.lookup i = some c :=
  committed_frozen' ops1 ops2 h i c hc

theorem time_travel_stable (ops1 ops2 : List DSV.History.Op) (h : DSV.History.OpsOk init (ops1 ++ ops2)) (i : Nat)
    (h1 : i ∈ (DSV.History.run ops1).md.ids) (h2 : i ∈ (DSV.History.run (ops1 ++ ops2)).md.ids) :
    content (DSV.History.run (ops1 ++ ops2)) i = content (DSV.History.run ops1) i ∧ (content (DSV.History.run ops1) i).isSome = true :=
  time_travel_stable' ops1 ops2 h i h1 h2

theorem commit_spec (ops : List DSV.History.Op) (now id : Nat) (cutoff : Option Nat) (nApp : Nat) (deleted : List Nat)
    (h : DSV.History.OpsOk init (ops ++ [.commit now id cutoff nApp deleted])) (c : List Nat)
    (hc : (DSV.History.run (ops ++ [.commit now id cutoff nApp deleted])).committed.lookup id = some c) :
    c = ((match (DSV.History.run ops).md.cur with | P.id cur => (content (DSV.History.run ops) cur).getD [] | _ => []).filter fun d => !deleted.contains d)
        ++ (List.range nApp).map (· + (DSV.History.run ops).nextD) :=
  commit_spec' ops now id cutoff nApp deleted h c hc

theorem gc_keeps_retained (ops : List DSV.History.Op) (h : DSV.History.OpsOk init ops) (cands : Files) :
    ∀ i ∈ (DSV.History.run ops).md.ids, content (collect (DSV.History.run ops) cands) i = content (DSV.History.run ops) i :=
  gc_keeps' ops h cands

theorem md_wf (ops : List DSV.History.Op) (h : DSV.History.OpsOk init ops) : WF (DSV.History.run ops).md := md_wf' ops h

/-- lookup by id returns the snapshot unchanged, and reading it gives what its commit recorded -/
theorem lookup_by_id_content (ops : List DSV.History.Op) (h : DSV.History.OpsOk init ops) (s : Snap) (hs : s ∈ (DSV.History.run ops).md.snaps) :
    byId s.id (DSV.History.run ops).md = some s ∧
    ∃ c, (DSV.History.run ops).committed.lookup s.id = some c ∧ content (DSV.History.run ops) s.id = some c :=
  ⟨lookup_by_id'' _ (md_wf' ops h) s hs, content_stable' ops h s.id (List.mem_map.mpr ⟨s, hs, rfl⟩)⟩

/-- lookup by timestamp on every reachable state of a history with a non-decreasing clock (equal timestamps allowed):
the most recently committed retained snapshot not newer than `t` -/
theorem lookup_by_timestamp_hist (ops : List DSV.History.Op) (h : DSV.History.OpsOk init ops) (hm : DSV.History.OpsMono init ops) (t : Nat) :
    (∀ r, byTime t (DSV.History.run ops).md = some r →
        r ∈ (DSV.History.run ops).md.snaps ∧ r.ts ≤ t ∧ ∀ s ∈ (DSV.History.run ops).md.snaps, s.ts ≤ t → s.born ≤ r.born) ∧
    (byTime t (DSV.History.run ops).md = none → ∀ s ∈ (DSV.History.run ops).md.snaps, ¬ s.ts ≤ t) :=
  lookup_by_timestamp'' _ (md_wf' ops h) (md_mono' ops h hm).1 (md_mono' ops h hm).2 t

/-- deleting the current snapshot repoints the table to its most recently committed survivor -/
theorem delete_current_repoints_hist (ops : List DSV.History.Op) (h : DSV.History.OpsOk init ops) (i : Nat)
    (hc : (DSV.History.run ops).md.cur = P.id i) (m' : Meta) (hd : delSnap i (DSV.History.run ops).md = some m') :
    (m'.snaps = [] ∧ m'.cur = P.none) ∨ (∃ r ∈ m'.snaps, m'.cur = P.id r.id ∧ ∀ s ∈ m'.snaps, s.born ≤ r.born) :=
  delete_current_repoints'' _ m' (md_wf' ops h) i hc hd

/-! ### how a snapshot can leave the table -/

/-- **commit_keeps_snapshots** — with no retention count configured, a commit without an expiry (append, delete, both) keeps every
retained snapshot retained, whatever it writes -/
theorem commit_keeps_snapshots (s : St) (now id nApp : Nat) (deleted : List Nat) (h : s.md.retention = Option.none) :
    ∀ x ∈ s.md.ids, x ∈ (DSV.History.step s (.commit now id Option.none nApp deleted)).md.ids :=
  commit_keeps_snapshots' s now id nApp deleted h

/-- **failed_and_gc_keep_metadata** — a failed commit and a collection do not touch the metadata at all -/
theorem failed_and_gc_keep_metadata (s : St) (nApp : Nat) (deleted : List Nat) (cleaned : Bool) (cands : Files) :
    (DSV.History.step s (.failed nApp deleted cleaned)).md = s.md ∧ (DSV.History.step s (.gc cands)).md = s.md :=
  ⟨failed_keeps_md' s nApp deleted cleaned, gc_keeps_md' s cands⟩

/-- **expiry_exact** — an expiry keeps every snapshot that is not older than the cutoff and the current one, and everything it
keeps is such a snapshot: exactly the older non-current ones leave -/
theorem expiry_exact (c : Nat) (m : Meta) :
    (∀ s ∈ m.snaps, (s.ts ≥ c ∨ P.id s.id = m.cur) → s.id ∈ (expire c m).ids) ∧
    (∀ x ∈ (expire c m).ids, ∃ s ∈ m.snaps, s.id = x ∧ (s.ts ≥ c ∨ P.id s.id = m.cur)) :=
  ⟨fun s hs h => expire_keeps_young_and_current' c m s hs h, expire_drops_only_old' c m⟩

/-- **metadata_log_bound_is_not_a_snapshot_bound** — `write.metadata.previous-versions-max` bounds the metadata LOG only -/
theorem metadata_log_bound_is_not_a_snapshot_bound (r : Option Int) (m : Meta) :
    (setPrevMax r m).snaps = m.snaps ∧ (setPrevMax r m).cur = m.cur ∧ (setPrevMax r m).retention = m.retention := ⟨rfl, rfl, rfl⟩

/-! ### what the property excludes (the two mutations its rationale names) -/

def h3 : List DSV.History.Op := [.commit 10 1 none 2 [], .commit 20 2 none 1 []]

/-- in-place manifest mutation: a delete that overwrites a manifest changes what the OLDER snapshots read -/
theorem inplace_rewrite_breaks :
    content (DSV.History.run h3) 1 = some [0, 1] ∧ content (deleteInPlace (DSV.History.run h3) 30 3 [0]) 1 = some [1] := by
  decide +kernel

/-- over-eager collection: protecting only the current snapshot's files makes an older retained snapshot unreadable -/
theorem curonly_gc_breaks :
    let s := DSV.History.run (h3 ++ [.commit 30 3 none 0 [0]])
    1 ∈ s.md.ids ∧ content s 1 = some [0, 1] ∧ content (collectCurOnly s s.files) 1 = none ∧ content (collect s s.files) 1 = some [0, 1] := by
  decide +kernel

/-! ### non-vacuity -/
def hx : List DSV.History.Op :=
  [.commit 10 1 none 2 [], .commit 20 2 none 1 [], .commit 30 3 none 0 [0], .failed 1 [] false, .expire 15, .delSnap 3]

example : DSV.History.OpsOk init hx := by decide +kernel
example : (DSV.History.run hx).md.ids = [2] ∧ content (DSV.History.run hx) 2 = some [0, 1, 2] ∧ (DSV.History.run hx).md.cur = P.id 2 := by
  decide +kernel

/-! ### the monotone-clock hypothesis of `lookup_by_timestamp_hist` is needed (open finding) -/

/-- **lookup_by_timestamp_stepback_refuted** — the model (and the library: replayed by the check, listed in known_findings.json)
when the wall clock steps BACK between two commits: snapshot 1 is committed at t = 105, snapshot 2 — the current one — at t = 100.
Both are "not newer than" 200 and 2 is the most recently committed, yet the lookup returns 1: the lookup orders by timestamp, and
nothing forces a snapshot's timestamp above its predecessors' (unlike `last_updated_ms`, repaired for C01). -/
theorem lookup_by_timestamp_stepback_refuted :
    DSV.History.OpsOk init [.commit 105 1 none 1 [], .commit 100 2 none 1 []] ∧
    (DSV.History.run [.commit 105 1 none 1 [], .commit 100 2 none 1 []]).md.cur = P.id 2 ∧
    ((DSV.History.run [.commit 105 1 none 1 [], .commit 100 2 none 1 []]).md.snaps.map (fun x => (x.id, x.ts, x.born))) = [(1, 105, 0), (2, 100, 1)] ∧
    (byTime 200 (DSV.History.run [.commit 105 1 none 1 [], .commit 100 2 none 1 []]).md).map (·.id) = some 1 := by
  refine ⟨by decide +kernel, by decide +kernel, by decide +kernel, ?_⟩
  have h : (DSV.History.run [.commit 105 1 none 1 [], .commit 100 2 none 1 []]).md.snaps =
      [⟨1, 105, 1, P.root, 0, P.root⟩, ⟨2, 100, 2, P.id 1, 1, P.id 1⟩] := by decide +kernel
  unfold byTime sortByTs
  rw [h]
  simp [List.mergeSort, List.MergeSort.Internal.splitInTwo]

end DSV.Props.C09
