import DSV.Model.Path
/-!
C17 — no operation escapes the table root (lexical core; symlinks are exercised on a real filesystem by the check).
-/
namespace DSV.Path

/-- **resolve_inside** — whatever the input string (`..`, `.`, empty components, doubled slashes, absolute-looking paths),
a path the resolver accepts has the root as a COMPONENT-WISE prefix. -/
theorem resolve_inside (base : List Comp) (p : List Char) (q : List Comp) (h : resolveLex base p = some q) : base <+: q := by
  unfold resolveLex at h
  simp only [] at h
  split at h
  · rename_i hp
    cases h
    exact List.isPrefixOf_iff_prefix.mp hp
  · cases h

theorem norm_clean (cs : List Comp) : ∀ acc : List Comp, Clean acc → Clean (norm acc cs) := by
  induction cs with
  | nil => intro acc h c hc; exact h c (List.mem_reverse.mp hc)
  | cons c rest ih =>
    intro acc h
    unfold norm
    split
    · exact ih acc h
    · rename_i h1
      split
      · exact ih acc.tail (fun x hx => h x (List.mem_of_mem_tail hx))
      · rename_i h2
        apply ih
        intro x hx
        rcases List.mem_cons.mp hx with rfl | hx
        · exact ⟨fun e => h1 (Or.inl e), fun e => h1 (Or.inr e), h2⟩
        · exact h x hx

/-- **resolve_clean** — the accepted path is canonical: no empty, `.` or `..` component is left, so what is opened is
exactly the path that was checked. -/
theorem resolve_clean (base : List Comp) (hb : Clean base) (p : List Char) (q : List Comp)
    (h : resolveLex base p = some q) : Clean q := by
  unfold resolveLex at h
  simp only [] at h
  split at h
  · cases h
    exact norm_clean _ _ (fun c hc => hb c (List.mem_reverse.mp hc))
  · cases h

/-- **abs_is_relative** — an absolute-looking argument (`/etc/passwd`, `//x`) is not honoured as a system path: it is
resolved relative to the root exactly like the same path without its leading slashes. -/
theorem abs_is_relative (base : List Comp) (p : List Char) : resolveLex base ('/' :: p) = resolveLex base p := by
  unfold resolveLex lstripSlash
  simp [List.dropWhile]

/-- **string_prefix_is_wrong** — why containment must be component-wise: for the root `/wh` the sibling `/wh2/x` passes a
string-prefix test although it is outside. -/
theorem string_prefix_is_wrong :
    stringPrefixInside [['w', 'h']] [['w', 'h', '2'], ['x']] = true ∧ ¬ ([['w', 'h']] <+: [['w', 'h', '2'], ['x']]) := by
  constructor
  · decide
  · intro h
    have := List.isPrefixOf_iff_prefix.mpr h
    revert this
    decide

/-- **arrow_inside** — the read path: table-relative spellings go through the resolver, a true absolute path is honoured
only when its canonical form lies inside the root; in both branches an accepted path is inside. -/
theorem arrow_inside (base : List Comp) (p : List Char) (q : List Comp) (h : arrowPath base p = some q) : base <+: q := by
  unfold arrowPath at h
  cases hc : tableRelative p
  · rw [hc] at h
    simp only [Bool.false_eq_true, if_false] at h
    by_cases hp : base.isPrefixOf (norm [] (splitSlash p)) = true
    · rw [if_pos hp] at h
      cases h
      exact List.isPrefixOf_iff_prefix.mp hp
    · rw [if_neg hp] at h
      cases h
  · rw [hc] at h
    simp only [if_true] at h
    exact resolve_inside base p q h

/-- **s3_key_under_prefix** — object storage: for EVERY path string the key requested lies under the table's prefix (the prefix, a
slash, then the path with its leading slashes stripped — byte for byte). -/
theorem s3_key_under_prefix (pref p : List Char) (h : pref ≠ []) : (pref ++ ['/']) <+: s3Key pref p := by
  unfold s3Key
  rw [if_neg h]
  exact ⟨lstripSlash p, by simp⟩

/-- **s3_key_literal** — nothing in the path is interpreted: two paths give the same key only when they are the same string after
the leading slashes -/
theorem s3_key_literal (pref p q : List Char) (h : s3Key pref p = s3Key pref q) : lstripSlash p = lstripSlash q := by
  unfold s3Key at h
  split at h
  · exact h
  · simpa using h

/-- what the property excludes: normalising the joined key lets `..` climb out of the prefix into a neighbouring table -/
theorem normalised_key_escapes :
    s3KeyNormalised "wh/orders".toList "../customers/x".toList = "wh/customers/x".toList ∧
    ¬ ("wh/orders/".toList <+: s3KeyNormalised "wh/orders".toList "../customers/x".toList) ∧
    "wh/orders/".toList <+: s3Key "wh/orders".toList "../customers/x".toList := by
  refine ⟨by decide +kernel, ?_, by decide +kernel⟩
  intro h
  have := List.isPrefixOf_iff_prefix.mpr h
  revert this
  decide +kernel

/-- escaping spellings are rejected, not silently mapped to some other file (non-vacuity of the `none` branch) -/
example : resolveLex [['s'], ['r']] "../r2/x".toList = none := by decide +kernel
example : resolveLex [['s'], ['r']] "data/../../../etc".toList = none := by decide +kernel
example : resolveLex [['s'], ['r']] "/data//./x".toList = some [['s'], ['r'], "data".toList, ['x']] := by decide +kernel
example : arrowPath [['s'], ['r']] "/s/r2/f".toList = none := by decide +kernel
example : arrowPath [['s'], ['r']] "/s/r/data/f".toList = some [['s'], ['r'], "data".toList, ['f']] := by decide +kernel

end DSV.Path
