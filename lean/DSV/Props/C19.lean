import DSV.Proofs.Skeleton
import DSV.Generated.Skeleton
import DSV.Proofs.Lock
/-!
C19 — locks exclude, time out, and never report a lock that is not held.
Models: `DSV/Model/Lock.lean`.  Proofs: `DSV/Proofs/Lock.lean`.
-/
namespace DSV.Lock

/-! ### local lock (flock on a persistent inode) -/

/-- **flock_mutex** — for any number of FileLock instances (threads, processes), any interleaving of attempts, releases,
deaths and clock ticks: at most one instance believes it holds the lock, and whoever believes so is backed by a kernel
flock on the inode the lock path names. -/
theorem flock_mutex (s : FSys) (h : FReach s) :
    (∀ a b, (s.inst a).locked = true → (s.inst b).locked = true → a = b) ∧ (∀ a, KernelBacked s a) := flock_mutex' s h

/-- **death_releases** — a holder's death releases the lock (the kernel closes its descriptors). -/
theorem death_releases (s s' : FSys) (h : FReach s) (a : Nat) (hs : fstep s a .die = some s') :
    (s'.inst a).locked = false ∧ ∀ ofd ∈ s'.k.holders, ofd.owner ≠ a := death_releases' s s' h a hs

/-- **timeout_bound** — an attempt succeeds only through a successful flock; with the lock busy it raises TimeoutError
exactly once the deadline has passed (no further waiting), and keeps waiting before that. -/
theorem timeout_bound (s s' : FSys) (a : Nat) (dl : Nat) (hd : (s.inst a).deadline = some dl)
    (hs : fstep s a .attempt = some s') :
    let busy := s.k.holders.any (fun h => h.inode == s.k.pathInode)
    ((s'.inst a).locked = true ∧ (s.inst a).locked = false → busy = false) ∧
    (busy = true ∧ s.now ≥ dl → (s'.inst a).timedOut = true ∧ (s'.inst a).deadline = none ∧ (s'.inst a).locked = (s.inst a).locked) ∧
    (busy = true ∧ s.now < dl → s'.inst a = s.inst a) ∧
    (busy = false → (s'.inst a).locked = true) := attempt_outcome' s s' a dl hd hs

/-- **no_success_while_held** — a blocked acquirer never reports success while another holder is live. -/
theorem no_success_while_held (s s' : FSys) (h : FReach s) (a b : Nat) (hab : a ≠ b)
    (hs : fstep s a .attempt = some s') (hb : (s.inst b).locked = true) : (s'.inst a).locked = (s.inst a).locked :=
  no_success_while_held' s s' h a b hab hs hb

/-- **unlink_breaks_mutex** — why the lock file must never be unlinked: if a release also unlinked it, the path would name
a fresh inode and a second instance would lock THAT one while the first still holds the old one. -/
theorem unlink_breaks_mutex :
    (((frun finit [(1, .begin 5), (1, .attempt)]).map unlinkStep).bind fun s => frun s [(2, .begin 5), (2, .attempt)]).map
      (fun s' => ((s'.inst 1).locked, (s'.inst 2).locked)) = some (true, true) := by decide

/-- Non-vacuity: a reachable state in which one instance holds the lock and a second one has timed out. -/
example : (frun finit [(1, .begin 5), (1, .attempt), (2, .begin 5), (2, .attempt), (0, .tick 6), (2, .attempt)]).map
    (fun s => ((s.inst 1).locked, (s.inst 2).locked, (s.inst 2).timedOut)) = some (true, false, true) := by decide

/-! ### S3 lock (conditional writes) -/

/-- **takeover_only_after_lease** — every successful acquisition (create or takeover) happens when there is no lock
object, or when the object's lease has lapsed: a lock is taken over only after its lease lapsed. -/
theorem takeover_only_after_lease (lease : Nat) (cd : Bool) (s s' : SSys) (h : SReach lease cd s) (a : Nat) (act : SAct)
    (hs : sstep s a act = some s') (hacq : Acquired s s' a) : s.obj = none ∨ Lapsed s :=
  acq_excludes' lease cd s s' h a act hs hacq

/-- **superseded_observes_loss** — a holder whose lock object now names someone else is told so: `is_held()` answers
False (and clears its flag), and its next renewal fails without touching the object. -/
theorem superseded_observes_loss (lease : Nat) (cd : Bool) (s : SSys) (h : SReach lease cd s) (a : Nat)
    (hl : (s.cl a).isLocked = true) (ho : ∃ o, s.obj = some o ∧ o.owner ≠ a) :
    heldAnswer s a = false ∧
    (∀ s', sstep s a .isHeld = some s' → (s'.cl a).isLocked = false) ∧
    (∀ s', sstep s a .renew = some s' → (s'.cl a).isLocked = false ∧ s'.obj = s.obj) :=
  superseded_observes_loss' lease cd s h a hl ho

/-- **held_answer_sound** — `is_held()` never reports a lock that is not held: a True answer means the object carries our id. -/
theorem held_answer_sound (lease : Nat) (cd : Bool) (s : SSys) (h : SReach lease cd s) (a : Nat)
    (hh : heldAnswer s a = true) : ∃ o, s.obj = some o ∧ o.owner = a := held_answer_sound' lease cd s h a hh

/-- **owned_object_persists_partial** — holds when release deletes conditionally (If-Match on the releaser's own ETag). -/
theorem owned_object_persists_partial : OwnedObjectPersists true :=
  fun lease s s' h a b hab act hs ho => owned_object_persists' lease s s' h a b hab act hs ho

/-- **owned_object_persists_refuted** (the code as found: get-then-unconditional-delete) — a release paused across a
takeover deletes the NEW owner's lock while its lease is fresh; the next creator then succeeds while that holder is live. -/
theorem owned_object_persists_refuted : ¬ OwnedObjectPersists false := owned_object_persists_refuted'

/-- what the refutation trace looks like: after 1's late DELETE the object is gone although 2 is locked, and 3 creates -/
example : (srun (sinit 60 false) (releaseSpansTakeover ++ [(3, .create)])).map
    (fun s => ((s.cl 2).isLocked, (s.cl 3).isLocked, s.obj.map (·.owner))) = some (true, true, some 3) := by decide

/-! ### S3 lock: time to `TimeoutError` -/

theorem pollLoop_bound (timeout pollMax : Nat) : ∀ (sleeps : List Nat) (el0 : Nat), (∀ d ∈ sleeps, d ≤ pollMax) →
    el0 ≤ timeout + pollMax → ∀ el, pollLoop timeout el0 sleeps = some el → timeout ≤ el ∧ el ≤ timeout + pollMax := by
  intro sleeps
  induction sleeps with
  | nil =>
    intro el0 _ h0 el h
    unfold pollLoop at h
    split at h
    · cases h; exact ⟨by assumption, h0⟩
    · cases h
  | cons d rest ih =>
    intro el0 hs h0 el h
    unfold pollLoop at h
    split at h
    · cases h; exact ⟨by assumption, h0⟩
    · rename_i hlt
      have hd : d ≤ pollMax := hs d List.mem_cons_self
      exact ih (el0 + d) (fun x hx => hs x (List.mem_cons_of_mem _ hx)) (by omega) el h

/-- **s3_timeout_bound** — a contender blocked for its whole timeout gets `TimeoutError` no earlier than the timeout and no
later than the timeout plus ONE poll interval, whatever the jitter draws (any number of polls) -/
theorem s3_timeout_bound (timeout pollMax : Nat) (sleeps : List Nat) (h : ∀ d ∈ sleeps, d ≤ pollMax) (el : Nat)
    (he : pollLoop timeout 0 sleeps = some el) : timeout ≤ el ∧ el ≤ timeout + pollMax :=
  pollLoop_bound timeout pollMax sleeps 0 h (by omega) el he

/-- what the bound excludes: a back-off that grows without being clamped to the remaining time overshoots by far more than a poll -/
theorem unclamped_backoff_overshoots : pollLoop 30000 0 [1000, 2000, 4000, 8000, 16000, 20000] = some 31000 ∧
    pollLoop 30000 0 [500, 1000, 2000, 4000, 8000, 16000, 20000] = some 31500 ∧
    pollLoop 5000 0 [300, 600, 1200, 2400, 4800] = some 9300 := by decide

example : pollLoop 5000 0 [900, 900, 900, 900, 900, 900, 900] = some 5400 := by decide

/-! ### a dead holder's lock does not wedge the table (C03 / C19: takeover is part of the protocol) -/

/-- one pass of `_try_acquire`: conditional create, then the two-request takeover attempt -/
def tryAcquire (a : Nat) : List (Nat × SAct) := [(a, .create), (a, .head), (a, .takeover)]

/-- **dead_holder_taken_over** — in ANY state in which the lock object is older than the lease (its holder died: nobody renewed,
nobody released) a contender's single acquisition pass, undisturbed, ends with the contender owning the lock -/
theorem dead_holder_taken_over (s : SSys) (a : Nat) (o : Obj) (ho : s.obj = some o) (hl : (s.cl a).isLocked = false)
    (hage : s.now - o.mtime > s.lease) :
    ∃ s', srun s (tryAcquire a) = some s' ∧ (s'.cl a).isLocked = true ∧ (∃ o', s'.obj = some o' ∧ o'.owner = a ∧ o'.mtime = s.now) := by
  simp only [tryAcquire, srun, sstep, hl, ho, Bool.false_eq_true, if_false, hage, if_true, setCl]
  simp

/-- **live_holder_not_taken_over** — while the object is within its lease the same pass leaves the object alone and the contender unlocked -/
theorem live_holder_not_taken_over (s : SSys) (a : Nat) (o : Obj) (ho : s.obj = some o) (hl : (s.cl a).isLocked = false)
    (hage : ¬ s.now - o.mtime > s.lease) :
    ∃ s', srun s [(a, .create), (a, .head)] = some s' ∧ (s'.cl a).isLocked = false ∧ s'.obj = some o ∧ (s'.cl a).seen = none ∧
      sstep s' a .takeover = none := by
  simp only [srun, sstep, hl, ho, Bool.false_eq_true, if_false, hage, setCl]
  simp

end DSV.Lock

/-! ## Tie to the current source: the requests of the S3 lock -/
namespace DSV.Src.C19
open DSV.Skel DSV.Generated.Skel

/-- **source_lock_requests** — in the CURRENT source: acquisition is a create-if-absent PUT; a takeover is HEAD then a PUT
conditional on the ETag seen; `is_held` is one GET; release is a GET followed by an UNCONDITIONAL delete. -/
theorem source_lock_requests :
    project s3Voc s3LockTryAcquire = ["createIfAbsent"] ∧
    project s3Voc s3LockTakeover = ["head", "replaceIfMatch"] ∧
    project s3Voc s3LockIsHeld = ["get"] ∧
    project s3Voc s3LockRelease = ["get", "delete"] := by decide

/-- **source_release_is_unconditional** — the model switch `conditionalDelete` READ OFF the current source is `false`: the open
finding `release-spans-takeover` (witness `owned_object_persists_refuted`) is a statement about the code as it is now. -/
theorem source_release_is_unconditional : conditionalDeleteOf s3LockRelease = false := by decide

/-- **owned_object_persists_source_refuted** — the refutation instantiated at the switch computed from the current source. -/
theorem owned_object_persists_source_refuted : ¬ DSV.Lock.OwnedObjectPersists (conditionalDeleteOf s3LockRelease) := by
  rw [source_release_is_unconditional]; exact DSV.Lock.owned_object_persists_refuted

end DSV.Src.C19
