import DSV.Proofs.Skeleton
import DSV.Generated.Skeleton
import DSV.Proofs.Create
/-!
C18 — creating a table is idempotent and race-safe.
Model: `DSV/Model/Create.lean` (any number of creators / openers, every interleaving of their steps).
-/
namespace DSV.Create

/-- **identity_preserved** — for ANY initial storage content on which a table is resolvable (healthy; pointer lost but
metadata files present; a first version written but the pointer missing; stale or dangling pointer with files) and any
number of concurrent create / open calls, with or without a working lock, on either backend: nothing is initialised, no
file is written, the pointer is untouched, and every caller ends up on that very table. -/
theorem identity_preserved (cfg : Cfg) (files : List MFile) (hint : Option Nat) (creator : Nat → Bool) (t : MFile)
    (h0 : resolve (init files hint creator) = some t) (s : Sys) (hr : Reach cfg files hint creator s) :
    s.inits = [] ∧ resolve s = some t ∧ AllOn s t.uuid ∧ s.files = files ∧ s.hint = hint :=
  identity_preserved' cfg files hint creator t h0 s hr

/-- **one_init** — from an absent table, with a lock that excludes (local flock, or the S3 lock while its lease holds):
exactly at most one initialisation takes effect, at most one initial version is written, every caller that finished is
on that one table, and nobody finishes on a table while none is resolvable. -/
theorem one_init (cfg : Cfg) (hx : cfg.exclusive = true) (creator : Nat → Bool) (s : Sys)
    (hr : Reach cfg [] none creator s) :
    s.inits.length ≤ 1 ∧ s.files.length ≤ 1 ∧
    (∀ m, resolve s = some m → AllOn s m.uuid) ∧ (resolve s = none → ∀ a v, s.pc a ≠ .done (some v)) :=
  one_init_exclusive' cfg hx creator s hr

/-- **one_init_cas** — on a CAS backend, even if the lock gives no exclusion at all, the create-if-absent pointer write
lets at most one initialisation take effect and the pointer is never replaced by another initialisation. -/
theorem one_init_cas (cfg : Cfg) (hc : cfg.cas = true) (creator : Nat → Bool) (s s' : Sys) (a : Nat) (act : Act)
    (hr : Reach cfg [] none creator s) (hs : step cfg s a act = some s') :
    s.inits.length ≤ 1 ∧ (s.inits.length = 1 ↔ s.hint.isSome) ∧ (s.hint.isSome → s'.hint = s.hint) :=
  one_init_cas' cfg hc creator s s' a act hr hs

/-- without exclusion AND without CAS two initialisations take effect (the assumption of `one_init` is needed) -/
theorem two_inits_without_exclusion_or_cas :
    (run ⟨false, false⟩ (init [] none fun _ => true)
      [(1, .open_), (2, .open_), (1, .acquire), (2, .acquire), (1, .check), (2, .check), (1, .writeV0), (2, .writeV0),
       (1, .flip), (2, .flip)]).map (fun s => s.inits) = some [2, 1] := by decide

/-- with CAS but no exclusion an OPENER can briefly see the loser's uncommitted initial version through the recovery
scan before the winner's pointer appears (the window the lock closes) -/
theorem opener_window_without_exclusion :
    (run ⟨true, false⟩ (init [] none fun a => a != 3)
      [(1, .open_), (2, .open_), (1, .acquire), (2, .acquire), (1, .check), (2, .check), (1, .writeV0), (2, .writeV0),
       (3, .open_), (1, .flip), (2, .flip), (2, .release), (1, .release)]).map
      (fun s => (s.pc 3, s.pc 1, s.pc 2, s.inits)) = some (.done (some 2), .done (some 1), .done (some 1), [1]) := by decide

/-- Non-vacuity of `identity_preserved`: pointer lost, two metadata versions on storage, three callers. -/
example : resolve (init [⟨0, 7, 0⟩, ⟨1, 7, 1⟩] none fun _ => true) = some ⟨1, 7, 1⟩ := by decide

end DSV.Create

/-! ## Tie to the current source: the step order of `MetadataManager.initialize_table` -/
namespace DSV.Src.C18
open DSV.Skel DSV.Generated.Skel

/-- **source_initialize_order** — in the CURRENT source: lock, existence check (refusing an existing table), initial
metadata file, create-if-absent pointer write on CAS backends (a lost race discards the file and refuses), plain pointer
write otherwise, release. -/
theorem source_initialize_order :
    project createVoc mmInitialize = ["acquire", "check", "exists", "writeMeta", "flipIfAbsent", "discard", "exists",
                                      "flip", "release"] := by decide

end DSV.Src.C18
