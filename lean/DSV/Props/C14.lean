import DSV.Model.Read
/-!
C14 — reads fail closed. The quantifier (file kind × damage class × touches × checksum option) is finite: the theorems are
proved over the whole table.
-/
namespace DSV.Read

/-- **damaged_touched_raises** — a manifest list, manifest or data file that is missing, unparseable or failing transiently,
or a metadata file that is unparseable or failing transiently, makes every read API that touches it raise. -/
theorem damaged_touched_raises (k : Kind) (st : Status) (c : Bool)
    (hs : st = .missing ∨ st = .unparseable ∨ st = .transient) (hm : ¬ (k = .metadata ∧ st = .missing)) :
    readOutcome k st true c = .raise := by
  cases k <;> cases st <;> cases c <;> simp_all [readOutcome]

/-- **never_subset** — a read never answers with something other than the undamaged result except in the two cases named:
the current metadata file missing (known finding), or a data file altered while checksum verification is switched off
(and altered-but-parseable metadata-plane files, which carry no checksum and are outside the property). -/
theorem never_subset (k : Kind) (st : Status) (t c : Bool) (h : readOutcome k st t c = .different) :
    (k = .metadata ∧ st = .missing) ∨ (st = .altered ∧ (k ≠ .data ∨ c = false)) := by
  cases k <;> cases st <;> cases t <;> cases c <;> simp_all [readOutcome]

/-- **checksum_detects** — with verification on, any change to a data file's bytes raises instead of yielding altered rows. -/
theorem checksum_detects (st : Status) (hs : st ≠ .ok) : readOutcome .data st true true = .raise := by
  cases st <;> simp_all [readOutcome]

/-- an API that does not touch the damaged kind answers exactly as before -/
theorem untouched_same (k : Kind) (st : Status) (c : Bool) : readOutcome k st false c = .same := by
  cases k <;> cases st <;> cases c <;> rfl

/-- Full statement incl. the metadata file. -/
def DamagedTouchedRaises : Prop :=
  ∀ k st c, (st = Status.missing ∨ st = .unparseable ∨ st = .transient) → readOutcome k st true c = .raise

/-- **damaged_touched_raises_refuted** — the current metadata file missing does not raise: recovery serves an older version. -/
theorem damaged_touched_raises_refuted : ¬ DamagedTouchedRaises := by
  intro h
  have := h .metadata .missing true (Or.inl rfl)
  revert this; decide

end DSV.Read
