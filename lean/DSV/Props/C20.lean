import DSV.Model.Backend
import DSV.Proofs.Backend
/-!
C20 — both storage backends implement the same contract.
-/
namespace DSV.Backend

/-- one step of the range reader observes exactly what the reference file observes, and moves to the same position -/
theorem step_refines (f : RF) (o : Op) :
    (stepRF f o).2.1 = (stepSpec f.size f.pos o).2 ∧
    (stepRF f o).1.pos = (stepSpec f.size f.pos o).1 ∧ (stepRF f o).1.size = f.size := by
  cases o with
  | tell => simp [stepRF, stepSpec]
  | seek off w =>
    simp only [stepRF, stepSpec, RF.seek]
    cases ht : seekTarget f.size f.pos off w with
    | none => simp
    | some n =>
      by_cases hn : n < 0
      · simp [hn]
      · simp [hn]
  | read want =>
    simp only [stepRF, stepSpec, RF.readinto, specRead]
    split
    · rename_i h
      rcases h with h | h
      · subst h; simp
      · have : f.size - f.pos = 0 := by omega
        simp [this]
    · rename_i h
      have h1 : want ≠ 0 := fun e => h (Or.inl e)
      have h2 : f.pos < f.size := by omega
      refine ⟨?_, ?_, ?_⟩
      · show Obs.data _ _ _ = Obs.data _ _ _
        congr 1 <;> simp only [] <;> omega
      · show f.pos + _ = f.pos + _
        omega
      · rfl
  | readall =>
    simp only [stepRF, stepSpec, RF.readall]
    split
    · rename_i h
      have : f.size - f.pos = 0 := by omega
      simp [this]
    · rename_i h
      refine ⟨?_, ?_, ?_⟩
      · show Obs.data _ _ _ = Obs.data _ _ _
        congr 1 <;> simp only [] <;> omega
      · show f.pos + _ = f.pos + _
        omega
      · rfl

/-- **range_reader_refines_file** — for every seek/read program (any length), every object size and every start
position, the seekable S3 reader reports the same positions, the same delivered byte ranges and the same errors
as an ordinary file over the same content (negative positions and invalid whence are errors in both). -/
theorem range_reader_refines_file (prog : List Op) :
    ∀ f : RF, (runRF f prog).map (·.1) = runSpec f.size f.pos prog := by
  induction prog with
  | nil => intro f; rfl
  | cons o os ih =>
    intro f
    obtain ⟨h1, h2, h3⟩ := step_refines f o
    simp only [runRF, runSpec, List.map_cons]
    rw [ih, h1, h2, h3]

/-- a ranged GET is issued only for a non-empty range inside the object, and it is exactly the range delivered -/
theorem step_range_in_bounds (f : RF) (o : Op) (a b : Nat) (h : (stepRF f o).2.2 = some (a, b)) :
    a ≤ b ∧ b < f.size ∧ ∃ n newPos, (stepRF f o).2.1 = .data a n newPos ∧ n = b - a + 1 := by
  cases o with
  | tell => simp [stepRF] at h
  | seek off w => simp only [stepRF] at h; split at h <;> simp at h
  | read want =>
    simp only [stepRF, RF.readinto] at h ⊢
    split at h
    · simp at h
    · rename_i hc
      simp only [Option.some.injEq, Prod.mk.injEq] at h
      obtain ⟨rfl, rfl⟩ := h
      simp only [hc, if_false]
      refine ⟨by omega, by omega, _, _, rfl, rfl⟩
  | readall =>
    simp only [stepRF, RF.readall] at h ⊢
    split at h
    · simp at h
    · rename_i hc
      simp only [Option.some.injEq, Prod.mk.injEq] at h
      obtain ⟨rfl, rfl⟩ := h
      simp only [hc, if_false]
      refine ⟨by omega, by omega, _, _, rfl, rfl⟩

/-- **ranges_in_bounds** — along every program, each requested range is non-empty and lies in `[0, size-1]`. -/
theorem ranges_in_bounds (prog : List Op) :
    ∀ (f : RF) (ob : Obs) (a b : Nat), (ob, some (a, b)) ∈ runRF f prog → a ≤ b ∧ b < f.size := by
  induction prog with
  | nil => intro f ob a b h; simp [runRF] at h
  | cons o os ih =>
    intro f ob a b h
    simp only [runRF, List.mem_cons] at h
    rcases h with h | h
    · have h2 : (stepRF f o).2.2 = some (a, b) := by
        have := congrArg Prod.snd h; simpa using this.symm
      exact ⟨(step_range_in_bounds f o a b h2).1, (step_range_in_bounds f o a b h2).2.1⟩
    · have := ih _ ob a b h
      rw [(step_refines f o).2.2] at this
      exact this

example : runRF ⟨10, 0⟩ [.seek 8 .set, .read 5, .seek (-20) .fromEnd, .read 1] =
    [(.pos 8, none), (.data 8 2 10, some (8, 9)), (.err, none), (.data 10 0 10, none)] := by decide

/-! ### retry -/

theorem retryLoop_used (b : Nat) : ∀ (used : Nat) (as : List Attempt),
    used ≤ (retryLoop b used as).2 ∧ (retryLoop b used as).2 ≤ used + b := by
  induction b with
  | zero => intro used as; simp [retryLoop]
  | succ k ih =>
    intro used as
    cases as with
    | nil => simp [retryLoop]
    | cons a rest =>
      cases a <;> simp only [retryLoop] <;> (try split) <;> (try (constructor <;> omega))
      have := ih (used + 1) rest
      constructor <;> omega

/-- **attempts_bounded** — never more than `max_retries + 1` attempts, whatever the sequence of failures. -/
theorem attempts_bounded (m : Nat) (as : List Attempt) : (retry m as).2 ≤ m + 1 := by
  have := (retryLoop_used (m + 1) 0 as).2
  simpa [retry] using this

theorem retryLoop_transients (k : Nat) : ∀ (b used : Nat) (rest : List Attempt), k < b →
    retryLoop b used (List.replicate k .transient ++ rest) = retryLoop (b - k) (used + k) rest := by
  induction k with
  | zero => intro b used rest _; simp
  | succ j ih =>
    intro b used rest hb
    cases b with
    | zero => omega
    | succ b' =>
      have hb' : b' ≠ 0 := by omega
      simp only [List.replicate_succ, List.cons_append, retryLoop, hb', if_false]
      rw [ih b' (used + 1) rest (by omega)]
      congr 1 <;> omega

/-- **retry_masks_transient** — up to `max_retries` transient failures before a success are invisible:
the caller gets exactly the value the successful attempt produced. -/
theorem retry_masks_transient (m k v : Nat) (rest : List Attempt) (hk : k ≤ m) :
    retry m (List.replicate k .transient ++ .success v :: rest) = (.ok v, k + 1) := by
  unfold retry
  rw [retryLoop_transients k (m + 1) 0 _ (by omega)]
  have : m + 1 - k = (m - k) + 1 := by omega
  rw [this]; simp [retryLoop]

/-- **permanent_fast_fail** — a permanent error surfaces at the attempt where it occurs: it is not retried
(attempt count = failures so far + 1) and not swallowed. -/
theorem permanent_fast_fail (m k : Nat) (rest : List Attempt) (hk : k ≤ m) :
    retry m (List.replicate k .transient ++ .permanent :: rest) = (.raisePermanent, k + 1) := by
  unfold retry
  rw [retryLoop_transients k (m + 1) 0 _ (by omega)]
  have : m + 1 - k = (m - k) + 1 := by omega
  rw [this]; simp [retryLoop]

/-- other exception types are not retried either -/
theorem nonretryable_fast_fail (m k : Nat) (rest : List Attempt) (hk : k ≤ m) :
    retry m (List.replicate k .transient ++ .nonRetryable :: rest) = (.raiseOther, k + 1) := by
  unfold retry
  rw [retryLoop_transients k (m + 1) 0 _ (by omega)]
  have : m + 1 - k = (m - k) + 1 := by omega
  rw [this]; simp [retryLoop]

/-- **retry_exhausted** — `max_retries + 1` transient failures in a row surface as an error after exactly that many attempts. -/
theorem retry_exhausted (m : Nat) (rest : List Attempt) :
    retry m (List.replicate (m + 1) .transient ++ rest) = (.raiseTransient, m + 1) := by
  unfold retry
  have : List.replicate (m + 1) Attempt.transient ++ rest = List.replicate m .transient ++ (.transient :: rest) := by
    rw [List.replicate_succ', List.append_assoc]; rfl
  rw [this, retryLoop_transients m (m + 1) 0 _ (by omega)]
  have : m + 1 - m = 1 := by omega
  rw [this]; simp [retryLoop]

example : retry 5 [.transient, .transient, .permanent] = (.raisePermanent, 3) := by decide

/-! ### listing -/

/-- Full statement: for every set of files and every directory, the S3 listing equals the local listing. -/
def ListingAgrees (listS3 : List Path → Path → List Path) : Prop :=
  ∀ (files : List Path) (dir : Path), listS3 files dir = listLocal files dir

/-- **listing_agrees** (after fix e5ac46d) — for every set of files and every directory (well-formed names:
non-empty, no '/'), the S3 listing under `key(dir) + "/"` is exactly the local directory listing:
confined to the named directory, siblings sharing the name as a string prefix excluded. -/
theorem listing_agrees (files : List Path) (dir : Path)
    (hf : ∀ f ∈ files, WfPath f ∧ f ≠ []) (hd : WfPath dir) :
    listS3Dir files dir = listLocal files dir := by
  unfold listS3Dir listLocal
  cases dir with
  | nil =>
    simp only [List.isEmpty_nil, if_true]
    symm
    rw [List.filter_eq_self]
    intro f hfm
    have := (hf f hfm).2
    cases f with
    | nil => exact absurd rfl this
    | cons a b => simp [List.isPrefixOf]
  | cons n dr =>
    simp only [List.isEmpty_cons, Bool.false_eq_true, if_false]
    apply List.filter_congr
    intro f hfm
    have h := dir_prefix_iff (n :: dr) f (by simp) hd (hf f hfm).1
    rw [Bool.eq_iff_iff]
    simp only [List.isPrefixOf_iff_prefix, Bool.and_eq_true, decide_eq_true_eq]
    exact h

/-- Non-vacuity + the sibling case: `data2/…` and `database.txt` are not listed under `data`. -/
example : listS3Dir [["data".toList, "x".toList], ["data2".toList, "y".toList], ["database.txt".toList]] ["data".toList]
    = [["data".toList, "x".toList]] := by decide

/-- **listing_raw_refuted** (regression witness of the repaired defect) — string-prefix matching on the key (`list_files("data")` also returns `data2/x`). -/
theorem listing_raw_refuted : ¬ ListingAgrees listS3Raw := by
  intro h
  have := h [["data".toList, "x".toList], ["data2".toList, "y".toList]] ["data".toList]
  revert this
  decide

end DSV.Backend
