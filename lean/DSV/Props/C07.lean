import DSV.Proofs.Skeleton
import DSV.Generated.Skeleton
import DSV.Proofs.GcRun
/-!
C07 — garbage collection fails closed.
Model: `DSV/Model/GcRun.lean` — `collect` as a function of what every storage call of a run returns
(any number of snapshots / manifests / markers / listed files; any combination of failures).
-/
namespace DSV.GcRun

/-- **abort_deletes_nothing** — whatever the storage calls return, a collection that raises has deleted nothing. -/
theorem abort_deletes_nothing (i : Input) (d : List FileKey) (h : collect fixed i = .raised d) : d = [] :=
  abort_deletes_nothing' i d h

/-- **untrusted_never_deletes** — if anything needed to decide reachability cannot be trusted (the metadata read fails, the
hint names a missing file, a manifest list or manifest cannot be read, the marker listing fails, a prefix listing fails
or returns a path outside the table) the collection raises, having deleted nothing. -/
theorem untrusted_never_deletes (i : Input)
    (h : i.metaOk = false ∨ i.hintDangling = true ∨ (∃ r ∈ i.reachReads, r = false) ∨ i.markers = none ∨
         i.dataListing = none ∨ i.manListing = none ∨
         (∃ l, (i.dataListing = some l ∨ i.manListing = some l) ∧ ∃ f ∈ l, f.escapes = true)) :
    collect fixed i = .raised [] := untrusted_never_deletes' i h

/-- **fault_never_deletes_live / marker_fault_keeps_protection** — a collection that completes has deleted no reachable file
and no file protected by a marker that is fresh, could not be stat'ed, could not be removed, or whose payload could not
be read (then the file of the marker's name in either directory stays protected). -/
theorem fault_never_deletes_live (i : Input) (d : List FileKey) (h : collect fixed i = .returned d) :
    ∀ f ∈ d, f ∉ i.reachable ∧ ¬ TrulyProtected i f := fault_never_deletes_live' i d h

/-- **collects_orphans** — liveness: a listed file that is neither reachable nor protected, older than the grace period,
stat-able and deletable is in fact deleted by a run that completes. -/
theorem collects_orphans (i : Input) (d : List FileKey) (h : collect fixed i = .returned d) (ms : List Marker)
    (hm : i.markers = some ms) (l : List Listed) (hl : i.dataListing = some l ∨ i.manListing = some l) (f : Listed) (hf : f ∈ l)
    (hk : f.key ∉ i.reachable ++ protectedSet fixed ms) (h1 : f.statOk = true) (h2 : f.old = true) (h3 : f.delOk = true) :
    f.key ∈ d := collects_orphans' i d h ms hm l hl f hf hk h1 h2 h3

/-! ### the four repaired behaviours, as theorems about the code as found (regression witnesses) -/

def liveTx : Input :=
  { metaOk := true, hintDangling := false, reachReads := [true], reachable := [(true, 1)],
    markers := none,                                                  -- listing metadata/inflight raised
    dataListing := some [⟨(true, 1), false, true, true, true⟩, ⟨(true, 7), false, true, true, true⟩],   -- 7 = in-flight data file, old
    manListing := some [] }

/-- a failing marker listing was read as "no markers": the old in-flight file 7 is deleted -/
theorem swallowed_marker_listing_deletes_inflight :
    collect { fixed with swallowMarkerListing := true } liveTx = .returned [(true, 7)] ∧
    collect fixed liveTx = .raised [] := by decide

def unreadableManifestMarker : Input :=
  { metaOk := true, hintDangling := false, reachReads := [true], reachable := [],
    markers := some [⟨5, (false, 5), some true, false, true⟩],       -- marker of in-flight MANIFEST 5, payload unreadable
    dataListing := some [], manListing := some [⟨(false, 5), false, true, true, true⟩] }

/-- an unreadable marker payload fell back to data/<name>: the in-flight manifest 5 is deleted -/
theorem data_only_fallback_deletes_inflight_manifest :
    collect { fixed with fallbackDataOnly := true } unreadableManifestMarker = .returned [(false, 5)] ∧
    collect fixed unreadableManifestMarker = .returned [] := by decide

def secondListingFails : Input :=
  { metaOk := true, hintDangling := false, reachReads := [true], reachable := [], markers := some [],
    dataListing := some [⟨(true, 9), false, true, true, true⟩], manListing := none }

/-- the data prefix was swept before the manifests prefix was listed: the run raises AFTER deleting orphan 9 -/
theorem sweep_before_listing_raises_after_delete :
    collect { fixed with sweepBeforeListing := true } secondListingFails = .raised [(true, 9)] ∧
    collect fixed secondListingFails = .raised [] := by decide

def danglingHint : Input :=
  { metaOk := true, hintDangling := true, reachReads := [true], reachable := [], markers := some [],
    dataListing := some [], manListing := some [⟨(false, 3), false, true, true, true⟩] }   -- 3 = manifest list of the LOST version

/-- a dangling hint silently served an older version: the lost version's manifest list is deleted instead of aborting -/
theorem dangling_hint_collected_against_older_version :
    collect { fixed with trustDanglingHint := true } danglingHint = .returned [(false, 3)] ∧
    collect fixed danglingHint = .raised [] := by decide

end DSV.GcRun

/-! ## Tie to the current source: every read, listing and abort precedes the first delete -/
namespace DSV.Src.C07
open DSV.Skel DSV.Generated.Skel

/-- **source_sweep_last** — in the CURRENT source of `GarbageCollector.collect` nothing but sweeping follows the first sweep:
markers, metadata, the dangling-pointer check, every manifest-list and manifest read, BOTH listings and every abort come
first, and `collect` itself deletes nothing outside `_gc_prefix`. -/
theorem source_sweep_last : sweepLast gcCollect = true := by decide

/-- **source_collect_order** — the exact step order of `collect`. -/
theorem source_collect_order :
    project gcVoc gcCollect = ["markers", "meta", "hintCheck", "abort", "readList", "abort", "readManifest", "abort",
                               "list", "list", "sweep", "sweep"] := by decide

/-- **source_sweep_cannot_abort** — `_gc_prefix` raises nothing of its own: it (re)lists only as a fallback, and deletes. -/
theorem source_sweep_cannot_abort :
    project gcVoc gcPrefix = ["list", "delete"] ∧ gcPrefix.contains "raise" = false := by decide

/-- **source_marker_listing_failure_aborts** — in the CURRENT `_load_inflight_protection` a failing listing of the marker
directory aborts the collection (the defect repaired by 5868c83 read it as "no markers"); an unreadable marker age and a failed
removal of an abandoned marker do not abort, and a marker whose removal failed keeps protecting. -/
theorem source_marker_listing_failure_aborts :
    project [("storage.list_files", "list"), ("except:Exception", "onError"), ("raise:GarbageCollectionAborted", "abort"),
             ("storage.get_modified_time", "age"), ("_marker_targets", "targets"), ("protected.update", "protect"),
             ("storage.delete_file", "dropMarker")] gcLoadInflight
      = ["list", "onError", "abort", "age", "onError", "targets", "protect", "dropMarker", "onError", "protect"] := by decide

end DSV.Src.C07
