import DSV.Proofs.Skeleton
import DSV.Generated.Skeleton
import DSV.Proofs.GcRace
/-!
C06 — garbage collection is safe against concurrently committing transactions.
Model: `DSV/Model/GcRace.lean` — one collection run × any number of transactions, every interleaving; transaction files
may already be older than the grace period when they commit; files written during the run are young.
-/
namespace DSV.GcRace

/-- **gc_concurrent_safe** — with the collector loading the in-flight markers BEFORE it reads the metadata: in every
reachable state of every interleaving, every file referenced by a committed snapshot (committed before, during or after
the run) exists and was never deleted by the collector. -/
theorem gc_concurrent_safe (u : List Nat) (files : Nat → Option FileSt) (committed : List Nat)
    (h0 : InitOk files committed u) (s : Sys) (hr : Reach true u files committed s) :
    ∀ f ∈ s.committed, f ∉ s.deleted ∧ ∃ st, s.files f = some st ∧ st.exists_ = true :=
  gc_concurrent_safe' u files committed h0 s hr

/-- **inflight_protected** — a file of a live transaction is never deleted by the collector either. -/
theorem inflight_protected (u : List Nat) (files : Nat → Option FileSt) (committed : List Nat)
    (h0 : InitOk files committed u) (s : Sys) (hr : Reach true u files committed s) (f : Nat) (st : FileSt)
    (hf : s.files f = some st) (ho : st.owner ≥ 1) : f ∉ s.deleted := inflight_protected' u files committed h0 s hr f st hf ho

/-- the schedule of the defect found: the collector reads the metadata, THEN the transaction (whose data file is already
older than the grace period) commits and removes its marker, THEN the collector loads the markers -/
def metadataFirstRace : List (Nat × Act) :=
  [(1, .txMarker 5 true), (1, .txWrite 5), (9, .gcReadMeta), (1, .txFlip), (1, .txUnmark 5), (1, .txFinish),
   (9, .gcReadMarkers), (9, .gcDelete 5), (9, .gcFinish)]

/-- **metadata_first_refuted** (regression witness; the code as found) — reading the metadata before the markers lets a
commit fall between the two reads: file 5 is committed and deleted. -/
theorem metadata_first_refuted :
    (run false [5] (init (fun _ => none) []) metadataFirstRace).map (fun s => (s.committed, s.deleted)) = some ([5], [5]) := by
  decide

/-- Non-vacuity: with markers first the same transaction and collector steps (in the order that order allows) delete nothing,
while a genuine old orphan (file 6) is still collected. -/
example : (run true [5, 6]
    (init (fun f => if f = 6 then some ⟨true, false, 0, true, false⟩ else none) [])
    [(1, .txMarker 5 true), (1, .txWrite 5), (9, .gcReadMarkers), (1, .txFlip), (1, .txUnmark 5), (1, .txFinish),
     (9, .gcReadMeta), (9, .gcDelete 5), (9, .gcDelete 6), (9, .gcFinish)]).map (fun s => (s.committed, s.deleted)) = some ([5], [6]) := by
  decide

/-- a pre-built file queued by `append_files` as found: it exists, is old, belongs to open transaction 1 — and has NO marker -/
def prebuiltUnmarked : Nat → Option FileSt := fun f => if f = 7 then some ⟨true, false, 1, true, false⟩ else none

/-- **prebuilt_unmarked_refuted** (regression witness; `append_files` as found, repaired by c834a8f) — with the repaired
read order: the collector protects nothing for file 7, deletes it, and transaction 1 then commits it. -/
theorem prebuilt_unmarked_refuted :
    (run true [7] (init prebuiltUnmarked [])
      [(9, .gcReadMarkers), (9, .gcReadMeta), (9, .gcDelete 7), (1, .txFlip), (1, .txFinish), (9, .gcFinish)]).map
      (fun s => (s.deleted, s.tx 1)) = some ([7], .finished) := by
  decide

/-- the same file WITH its marker (what `append_files` registers now) survives the same run -/
example : (run true [7] (init (fun f => if f = 7 then some ⟨true, true, 1, true, false⟩ else none) [])
      [(9, .gcReadMarkers), (9, .gcReadMeta), (9, .gcDelete 7), (1, .txFlip), (1, .txUnmark 7), (1, .txFinish), (9, .gcFinish)]).map
      (fun s => (s.committed, s.deleted)) = some ([7], []) := by
  decide

/-! ### a transaction that STARTS during the run and adopts an old pre-built file (open finding) -/

/-- an old pre-built file nobody owns yet -/
def prebuiltOrphan : Nat → Option FileSt := fun f => if f = 7 then some ⟨true, false, 0, true, false⟩ else none

/-- **late_adoption_refuted** (open finding, the code as it is) — the collector reads the markers and the metadata; THEN transaction 1
queues the old pre-built file 7 (marker registered now) and commits; the collector's sweep finds 7 neither protected nor reachable
in what it read, and old: the file of a snapshot committed during the run is deleted. The hypothesis of `gc_concurrent_safe` that
excludes this is that transactions register FRESH files (`txMarker` on a name not yet on storage). -/
theorem late_adoption_refuted :
    ((run true [7] (init prebuiltOrphan []) [(9, .gcReadMarkers), (9, .gcReadMeta)]).bind fun s =>
      (adopt s 1 7).bind fun s => run true [7] s [(1, .txFlip), (9, .gcDelete 7), (1, .txFinish), (9, .gcFinish)]).map
      (fun s => (s.committed, s.deleted)) = some ([7], [7]) := by
  decide

/-- the same adoption BEFORE the collector reads the markers is safe: the marker protects the file until the commit makes it reachable -/
example :
    ((adopt (init prebuiltOrphan []) 1 7).bind fun s =>
      run true [7] s [(9, .gcReadMarkers), (9, .gcReadMeta), (1, .txFlip), (9, .gcDelete 7), (1, .txUnmark 7), (1, .txFinish), (9, .gcFinish)]).map
      (fun s => (s.committed, s.deleted)) = some ([7], []) := by
  decide

end DSV.GcRace

/-! ## Tie to the current source: the order of the collector's reads and of the transaction's marker protocol -/
namespace DSV.Src.C06
open DSV.Skel DSV.Generated.Skel DSV.GcRace

/-- **source_markers_first** — in the CURRENT source of `GarbageCollector.collect` the in-flight markers are loaded before
the metadata is read (the model's `markersFirst`). -/
theorem source_markers_first : markersFirstOf gcCollect = true := by decide

/-- **gc_concurrent_safe_source** — `gc_concurrent_safe` with the read order READ OFF the current source. -/
theorem gc_concurrent_safe_source (u : List Nat) (files : Nat → Option FileSt) (committed : List Nat)
    (h0 : InitOk files committed u) (s : Sys) (hr : Reach (markersFirstOf gcCollect) u files committed s) :
    ∀ f ∈ s.committed, f ∉ s.deleted ∧ ∃ st, s.files f = some st ∧ st.exists_ = true := by
  rw [source_markers_first] at hr
  exact gc_concurrent_safe u files committed h0 s hr

/-- **source_marker_before_file** — `append_data` registers the marker before it writes the data file and queues the file
only afterwards; `append_files` registers the marker before it looks at / persists the pre-built file. -/
theorem source_marker_before_file :
    project txVoc txAppendData = ["marker", "write", "queue"] ∧
    project txVoc txAppendFiles = ["marker", "exists", "persist", "schema", "queue"] := by decide

/-- **source_unmark_after_commit** — `Transaction.commit` calls the marker-removing `_finish_committed` only after the commit
call returned (or for an empty transaction, before any), never in a failure handler. -/
theorem source_unmark_after_commit :
    dedupAdj ((project txVoc txCommit).filter (fun x => x == "commit" || x == "finish")) = ["finish", "commit", "finish"] ∧
    ((project txVoc txCommit).dropWhile (· != "onConflict")).contains "finish" = false := by decide

end DSV.Src.C06
