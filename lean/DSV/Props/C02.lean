import DSV.Proofs.Skeleton
import DSV.Generated.Skeleton
import DSV.Model.Reader
import DSV.Proofs.Occ
/-!
C02 — readers observe only whole committed snapshots.
-/
namespace DSV.Reader

/-- **read_is_snapshot** — (repaired reader: one pointer read) for every timeline of committed versions and every pair of
instants `i ≤ j` inside the read's interval, the read returns exactly the rows of the version that was current at
instant `i` — a committed snapshot that was current between the read's start and its end — and never raises. -/
theorem read_is_snapshot (tl : List Ver) (hw : WfTimeline tl) (i j : Nat) (hi : i < tl.length) :
    ∃ v, tl[i]? = some v ∧ getAllDataFiles false tl i j = some (.rows v.rows) := by
  have hv : tl[i]? = some tl[i] := List.getElem?_eq_getElem hi
  refine ⟨tl[i], hv, ?_⟩
  unfold getAllDataFiles
  rw [hv]
  by_cases hs : tl[i].hasSnapshot = true
  · simp [hs]
  · have hs' : tl[i].hasSnapshot = false := by simpa using hs
    have := hw tl[i] (List.getElem_mem hi) hs'
    simp [hs', this]

/-- every read API (scan, parallel scan, batches, record iteration, row count: a function `post` of the rows found)
returns that function of ONE committed snapshot -/
theorem api_is_snapshot (post : List Nat → List Nat) (tl : List Ver) (hw : WfTimeline tl) (i j : Nat) (hi : i < tl.length) :
    ∃ v, tl[i]? = some v ∧ readApi post false tl i j = some (.rows (post v.rows)) := by
  obtain ⟨v, hv, hg⟩ := read_is_snapshot tl hw i j hi
  exact ⟨v, hv, by simp [readApi, hg]⟩

/-- Full statement for the reader as found. -/
def ReadIsSnapshot (doubleRefresh : Bool) : Prop :=
  ∀ (tl : List Ver), WfTimeline tl → ∀ i j, i ≤ j → j < tl.length →
    ∃ k v, i ≤ k ∧ k ≤ j ∧ tl[k]? = some v ∧ getAllDataFiles doubleRefresh tl i j = some (.rows v.rows)

/-- **read_is_snapshot_refuted** (regression witness; the code as found) — the reader refreshes twice: it sees the empty
version, a first append commits, the second refresh sees a set snapshot id and the read raises "inconsistent metadata"
although the table never was. -/
theorem read_is_snapshot_refuted : ¬ ReadIsSnapshot true := by
  intro h
  obtain ⟨k, v, _, _, _, hr⟩ := h [⟨false, []⟩, ⟨true, [1]⟩] (by intro v hv h; revert hv h; simp; rintro (rfl | rfl) <;> simp) 0 1 (by omega) (by simp)
  have : getAllDataFiles true [⟨false, []⟩, ⟨true, [1]⟩] 0 1 = some .raiseInconsistent := by decide
  rw [this] at hr
  cases hr

theorem read_is_snapshot_fixed : ReadIsSnapshot false := by
  intro tl hw i j hij hj
  obtain ⟨v, hv, hg⟩ := read_is_snapshot tl hw i j (by omega)
  exact ⟨i, v, Nat.le_refl _, hij, hv, hg⟩

end DSV.Reader

namespace DSV.Occ

/-- the pointer's history only grows: what was flipped stays flipped, in the same order -/
theorem flips_grow (cfg : Cfg) (s s' : Sys) (a : Nat) (act : Act) (h : step cfg s a act = some s') :
    s.flips <:+ s'.flips := by
  have key : s'.flips = s.flips ∨ ∃ f, s'.flips = f :: s.flips := by
    cases act <;> simp only [step] at h
    case tick d => cases h; exact Or.inl rfl
    all_goals
      repeat' split at h
      all_goals first
        | (cases h; done)
        | (simp only [Option.some.injEq] at h; subst h; first
            | exact Or.inl rfl
            | exact Or.inl (releaseLock_flips _ _)
            | exact Or.inr ⟨_, rfl⟩)
  rcases key with h1 | ⟨f, h1⟩
  · rw [h1]; exact List.suffix_refl _
  · rw [h1]; exact List.suffix_cons _ _

/-- **monotone_reads** — successive pointer reads (through one handle or not) never move backwards in commit order:
the flips seen by an earlier read are a suffix (= an initial part, in commit order) of those seen by any later read. -/
theorem monotone_reads (cfg : Cfg) (sched : List (Nat × Act)) :
    ∀ s s', runSched cfg s sched = some s' → s.flips <:+ s'.flips := by
  induction sched with
  | nil => intro s s' h; simp [runSched] at h; subst h; exact List.suffix_refl _
  | cons p rest ih =>
    intro s s' h
    obtain ⟨a, act⟩ := p
    simp only [runSched] at h
    split at h
    · rename_i s1 hs1
      exact List.IsSuffix.trans (flips_grow cfg s s1 a act hs1) (ih s1 s' h)
    · cases h

end DSV.Occ

/-! ## Tie to the current source: one pointer resolution per read -/
namespace DSV.Src.C02
open DSV.Skel DSV.Generated.Skel DSV.Reader

/-- **source_reads_pointer_once** — the CURRENT `Table._get_all_data_files` resolves the pointer exactly once (the model's
`twoRefreshes = false`; the code as found refreshed twice — `read_is_snapshot_refuted`). -/
theorem source_reads_pointer_once : twoRefreshesOf tblGetAllDataFiles = false := by decide

/-- **read_is_snapshot_source** — `read_is_snapshot_fixed` with the switch READ OFF the current source. -/
theorem read_is_snapshot_source : ReadIsSnapshot (twoRefreshesOf tblGetAllDataFiles) := by
  rw [source_reads_pointer_once]; exact read_is_snapshot_fixed

/-- **source_read_order** — metadata, then the manifest list, then manifests; a missing list or manifest raises. -/
theorem source_read_order :
    project [("metadata_manager.refresh", "meta"), ("file_manager.read_manifest_list_file", "list"),
             ("file_manager.read_manifest_file", "manifest"), ("raise:RuntimeError", "raise")] tblGetAllDataFiles
      = ["meta", "raise", "raise", "list", "raise", "manifest"] := by decide

end DSV.Src.C02
