import DSV.Proofs.Skeleton
import DSV.Generated.Skeleton
import DSV.Proofs.TxOps
import DSV.Proofs.Meta
/-!
C15 — table metadata stays well-formed through every history.
(C09's lookup theorems live here too: they are facts about the same algebra.)

Statements only; the proofs are in `DSV/Proofs/Meta.lean`.
-/
namespace DSV.Meta

/-- **wf_empty** — a freshly initialised table is well-formed. -/
theorem wf_empty : WF empty := wf_empty'

/-- **wf_step** — every committed operation (append / delete commit with or without expiry, expiry alone,
snapshot deletion, retention property, metadata-log bound; any timestamps, any retention value) preserves
well-formedness: current ∈ retained or table empty; ids distinct; every parent a retained, strictly older, TRUE
ancestor (ghost history) or nothing; sequence numbers ≤ last and strictly increasing in commit order; the snapshot
log lists retained snapshots in commit order. -/
theorem wf_step (m : Meta) (op : Op) (h : WF m) (hop : OpOk m op) : WF (step m op) := wf_step' m op h hop

/-- **wf_history** — lifted to every history of operations (any length). -/
theorem wf_history (ops : List Op) (hops : OpsOk empty ops) : WF (run ops) := wf_history' ops hops

/-- **last_seq_monotone** — the table's last sequence number never decreases. -/
theorem last_seq_monotone (m : Meta) (op : Op) : m.lastSeq ≤ (step m op).lastSeq := last_seq_monotone' m op

/-- **repoint_correct** — for EVERY input forest (cycles and dangling parents in corrupt metadata included) each
survivor's new parent is nothing, the root sentinel, or a kept snapshot reachable from its old parent by parent links. -/
theorem repoint_correct (all kept : List Snap) :
    ∀ s ∈ repoint all kept, ∃ o ∈ kept, o.id = s.id ∧ Good all (kept.map (·.id)) o.parent s.parent :=
  repoint_correct' all kept

/-- **current_never_expired** — expiry (any cutoff) keeps the current snapshot and does not move the pointer. -/
theorem current_never_expired (c : Nat) (m : Meta) (i : Nat) (h : m.cur = P.id i) (hi : i ∈ m.ids) :
    (expire c m).cur = P.id i ∧ i ∈ (expire c m).ids := current_never_expired' c m i h hi

/-- retention (any count, any timestamps) keeps the current snapshot too -/
theorem current_never_retained_away (m : Meta) (i : Nat) (h : m.cur = P.id i) (hi : i ∈ m.ids) :
    (retain m).cur = P.id i ∧ i ∈ (retain m).ids := current_never_retained_away' m i h hi

/-- **mlog_bounded** — with a bound `k ≥ 1` configured, a commit never leaves more than `max k (old length)` entries,
and the log after the commit is a suffix of the old log plus the superseded version. -/
theorem mlog_bounded (now f : Nat) (base new : Meta) (k : Int) (hk : new.prevMax = some k) (h1 : 1 ≤ k)
    (hlen : (new.mlog.length : Int) ≤ k) :
    ((stamp now (some f) base new).mlog.length : Int) ≤ k ∧
    ((stamp now (some f) base new).mlog <:+ (new.mlog ++ [(base.lastUpdated, f)]) ∨
      (stamp now (some f) base new).mlog = new.mlog) := mlog_bounded' now f base new k hk h1 hlen


/-- **mlog_trimmed** — also after the bound was lowered under a longer log: a commit that appends an entry leaves at most `k`
entries (the newest ones), whatever the length before. -/
theorem mlog_trimmed (now f : Nat) (base new : Meta) (k : Int) (hk : new.prevMax = some k) (h1 : 1 ≤ k)
    (hne : ∀ e, new.mlog.getLast? = some e → (e.2 == f) = false) :
    ((stamp now (some f) base new).mlog.length : Int) ≤ k ∧
    (stamp now (some f) base new).mlog <:+ (new.mlog ++ [(base.lastUpdated, f)]) := mlog_trimmed'' now f base new k hk h1 hne

/-- **rewrite_preserves_origin** — entries carried through a manifest rewrite keep their adding snapshot and
sequence number; **delete_exact** — exactly the named files disappear. -/
theorem rewrite_preserves_origin (es : List Entry) (deleted : List Nat) (same : Bool) (out : List Entry)
    (h : rewrite es deleted = some (same, out)) :
    (∀ e' ∈ out, ∃ e ∈ es, e'.file = e.file ∧ e'.addedSnap = e.addedSnap ∧ e'.seq = e.seq) ∧
    out.map (·.file) = (es.map (·.file)).filter (fun f => !deleted.contains f) := rewrite_preserves_origin' es deleted same out h

theorem rewrite_drops_only_when_all_deleted (es : List Entry) (deleted : List Nat)
    (h : rewrite es deleted = none) : ∀ e ∈ es, e.file ∈ deleted := rewrite_drops' es deleted h

/-! ### lookups (C09) -/

/-- **lookup_by_id** -/
theorem lookup_by_id (m : Meta) (h : WF m) (s : Snap) (hs : s ∈ m.snaps) : byId s.id m = some s := lookup_by_id' m h s hs

/-- **lookup_by_timestamp** — under non-decreasing commit timestamps (equal allowed) the result is the most recently
committed retained snapshot not newer than `t`; `none` iff there is none.
(`BornSorted`, `TsMono` are invariants of histories with a non-decreasing clock: `mono_step`.) -/
theorem lookup_by_timestamp (m : Meta) (h : WF m) (hs : BornSorted m) (hmono : TsMono m) (t : Nat) :
    (∀ r, byTime t m = some r → r ∈ m.snaps ∧ r.ts ≤ t ∧ ∀ s ∈ m.snaps, s.ts ≤ t → s.born ≤ r.born) ∧
    (byTime t m = none → ∀ s ∈ m.snaps, ¬ s.ts ≤ t) := lookup_by_timestamp' m h hs hmono t

/-- with a non-decreasing clock (equal timestamps allowed) the hypotheses of `lookup_by_timestamp` are invariants -/
theorem mono_step (m : Meta) (op : Op) (h : WF m) (hb : BornSorted m) (ht : TsMono m) (hop : OpOk m op) (hm : OpMono m op) :
    BornSorted (step m op) ∧ TsMono (step m op) := mono_step' m op h hb ht hop hm

/-- **delete_current_repoints** — deleting the current snapshot moves the pointer to the most recently committed
survivor (or to nothing when none is left). -/
theorem delete_current_repoints (m m' : Meta) (h : WF m) (i : Nat) (hc : m.cur = P.id i) (hd : delSnap i m = some m') :
    (m'.snaps = [] ∧ m'.cur = P.none) ∨
    (∃ r ∈ m'.snaps, m'.cur = P.id r.id ∧ ∀ s ∈ m'.snaps, s.born ≤ r.born) := delete_current_repoints' m m' h i hc hd

/-! ### non-vacuity -/
example : WF (run [.add 10 1 none, .add 20 2 none, .setRetention (some 1), .add 15 3 (some 12), .del 3]) :=
  wf_history _ (by decide)

end DSV.Meta

/-! ### several deletes / an expiry queued in one transaction -/
namespace DSV.Props.C15tx
open DSV.TxOps

/-- **all_queued_deletes_applied** — every path of EVERY delete queued in a transaction is deleted -/
theorem all_queued_deletes_applied (ops : List Op) (ps : List Nat) (h : Op.deleteFiles ps ∈ ops) :
    ∀ x ∈ ps, x ∈ (partition ops).deletes := mem_deletes ops ps h

/-- …and nothing that was not named -/
theorem queued_deletes_exact (ops : List Op) :
    (partition ops).deletes = ops.flatMap fun o => match o with | .deleteFiles ps => ps | _ => [] := partition_deletes ops

/-- a transaction is committed in ONE shape (one pointer move): file operations carry the expiry along; an expiry alone is a
metadata-only commit -/
theorem one_commit_shape (ops : List Op) : shape (partition ops) = .fileOps ∨ shape (partition ops) = .metadataOnly := by
  unfold shape; split <;> simp

/-- what the property excludes: honouring only the last queued delete -/
theorem last_delete_only_keeps_files :
    ([Op.deleteFiles [1], .appendFiles [7], .deleteFiles [2]].foldl stepPartLastDeleteOnly ⟨[], [], none⟩).deletes = [2] ∧
    (partition [Op.deleteFiles [1], .appendFiles [7], .deleteFiles [2]]).deletes = [1, 2] := by decide

end DSV.Props.C15tx

/-! ## Tie to the current source -/
namespace DSV.Src.C15
open DSV.Skel DSV.Generated.Skel

/-- **source_delete_snapshot_order** — the CURRENT `SnapshotManager.delete_snapshot`: one read of the current metadata,
parents repointed to surviving ancestors, the current pointer moved to the most recent survivor, ONE metadata commit. -/
theorem source_delete_snapshot_order :
    project [("metadata_manager.refresh", "read"), ("repoint_parents_to_surviving_ancestors", "repoint"),
             ("_most_recent_snapshot_id", "pickCurrent"), ("metadata_manager.commit", "commit")] smDeleteSnapshot
      = ["read", "repoint", "pickCurrent", "commit"] := by decide

end DSV.Src.C15
