import DSV.Proofs.Fs
/-!
C16 — commits are durable: the pointer never outruns the data it references.
Power-loss model: `DSV/Model/Fs.lean`.  The same executable `judge` is applied to the REAL syscall traces (strace) of
every operation by the check.
-/
namespace DSV.Fs

/-- **atomic_write_durable** — after the lowering of one `write_file` (temp, write, fsync, rename, directory fsync) the
target is durable: present after a power loss with its full content. -/
theorem atomic_write_durable (s : St) (t p d : Nat) (h : t ≠ p) (hd : (s p).dir = d) :
    Durable (run s (lowerWrite t p d)) p := atomic_write_durable' s t p d h hd

/-- durability of a path is not undone by events on other paths -/
theorem durable_stable (s : St) (p : Nat) (e : Ev) (hd : Durable s p) (hu : Untouched p e) : Durable (apply s e) p :=
  durable_stable' s p e hd hu

/-- **lower_atomic** — within the lowering of one write the target changes only at the rename. -/
theorem lower_atomic (s : St) (t p d : Nat) (h : t ≠ p) (k : Nat) (hk : k ≤ 3) :
    run s ((lowerWrite t p d).take k) p = s p := lower_atomic' s t p d h k hk

/-- the judge means what it says: `none` = at every prefix at or after the first rename onto the pointer, every path in
`reach` is durable -/
theorem judge_sound (hint : Nat) (reach : List Nat) (s : St) (evs : List Ev) (h : judge hint reach s evs = none) :
    ∀ k, k ≤ evs.length → (∃ j, j < k ∧ ∃ src, evs[j]? = some (.rename src hint)) →
      ∀ p ∈ reach, Durable (run s (evs.take k)) p := judge_sound' hint reach s evs h

/-- **commit_durable** — for ANY number of files written by a commit (data files, manifests, manifest list, metadata file),
each through the atomic-write lowering and all before the pointer: at every prefix of the syscall trace at or after the
pointer's rename — from that instant the kernel may persist the new pointer at will, and in particular after the commit was
acknowledged — every referenced file is durable with its full content and its directory entry persisted. -/
theorem commit_durable (files : List W) (hint : W) (s : St) (hwf : WfCommit files hint s) :
    judge hint.fin (files.map (·.fin)) s (commitTrace files hint) = none := commit_durable' files hint s hwf

/-! what goes wrong without each step (the judge is not vacuous) -/
def s0 : St := fun p => absent (if p = 9 then 0 else 1)     -- path 9 (the pointer) lives in dir 0, everything else in dir 1

example : judge 9 [1] s0 (commitTrace [⟨11, 1, 1⟩] ⟨19, 9, 0⟩) = none := by decide
/-- no fsync of the file before its rename -/
example : judge 9 [1] s0 ([.creat 11 1, .write 11, .rename 11 1, .fsyncDir 1] ++ lowerWrite 19 9 0) = some 7 := by decide
/-- no directory fsync after the rename -/
example : judge 9 [1] s0 ([.creat 11 1, .write 11, .fsync 11, .rename 11 1] ++ lowerWrite 19 9 0) = some 7 := by decide
/-- pointer flipped before the data file is written -/
example : judge 9 [1] s0 (lowerWrite 19 9 0 ++ lowerWrite 11 1 1) = some 3 := by decide

end DSV.Fs
