import DSV.Proofs.Skeleton
import DSV.Generated.Skeleton
import DSV.Proofs.Fs
/-!
C16 — commits are durable: the pointer never outruns the data it references.
Power-loss model: `DSV/Model/Fs.lean`.  The same executable `judge` is applied to the REAL syscall traces (strace) of
every operation by the check.
-/
namespace DSV.Fs

/-- **atomic_write_durable** — after the lowering of one `write_file` (temp, write, fsync, rename, directory fsync) the
target is durable: present after a power loss with its full content. -/
theorem atomic_write_durable (s : St) (t p d : Nat) (h : t ≠ p) (hd : (s p).dir = d) :
    Durable (run s (lowerWrite t p d)) p := atomic_write_durable' s t p d h hd

/-- durability of a path is not undone by events on other paths -/
theorem durable_stable (s : St) (p : Nat) (e : Ev) (hd : Durable s p) (hu : Untouched p e) : Durable (apply s e) p :=
  durable_stable' s p e hd hu

/-- **lower_atomic** — within the lowering of one write the target changes only at the rename. -/
theorem lower_atomic (s : St) (t p d : Nat) (h : t ≠ p) (k : Nat) (hk : k ≤ 3) :
    run s ((lowerWrite t p d).take k) p = s p := lower_atomic' s t p d h k hk

/-- the judge means what it says: `none` = at every prefix at or after the first rename onto the pointer, every path in
`reach` is durable -/
theorem judge_sound (hint : Nat) (reach : List Nat) (s : St) (evs : List Ev) (h : judge hint reach s evs = none) :
    ∀ k, k ≤ evs.length → (∃ j, j < k ∧ ∃ src, evs[j]? = some (.rename src hint)) →
      ∀ p ∈ reach, Durable (run s (evs.take k)) p := judge_sound' hint reach s evs h

/-- **commit_durable** — for ANY number of files written by a commit (data files, manifests, manifest list, metadata file),
each through the atomic-write lowering and all before the pointer: at every prefix of the syscall trace at or after the
pointer's rename — from that instant the kernel may persist the new pointer at will, and in particular after the commit was
acknowledged — every referenced file is durable with its full content and its directory entry persisted. -/
theorem commit_durable (files : List W) (hint : W) (s : St) (hwf : WfCommit files hint s) :
    judge hint.fin (files.map (·.fin)) s (commitTrace files hint) = none := commit_durable' files hint s hwf

/-! what goes wrong without each step (the judge is not vacuous) -/
def s0 : St := fun p => absent (if p = 9 then 0 else 1)     -- path 9 (the pointer) lives in dir 0, everything else in dir 1

example : judge 9 [1] s0 (commitTrace [⟨11, 1, 1⟩] ⟨19, 9, 0⟩) = none := by decide
/-- no fsync of the file before its rename -/
example : judge 9 [1] s0 ([.creat 11 1, .write 11, .rename 11 1, .fsyncDir 1] ++ lowerWrite 19 9 0) = some 7 := by decide
/-- no directory fsync after the rename -/
example : judge 9 [1] s0 ([.creat 11 1, .write 11, .fsync 11, .rename 11 1] ++ lowerWrite 19 9 0) = some 7 := by decide
/-- pointer flipped before the data file is written -/
example : judge 9 [1] s0 (lowerWrite 19 9 0 ++ lowerWrite 11 1 1) = some 3 := by decide

end DSV.Fs

namespace DSV.Fs

theorem judge_go_no_flip (hint : Nat) (reach : List Nat) (evs : List Ev) (h : ∀ e ∈ evs, flipsTo hint e = false) :
    ∀ (s : St) (i : Nat), judge.go hint reach s false i evs = none := by
  induction evs with
  | nil => intro s i; rfl
  | cons e rest ih =>
    intro s i
    have he : flipsTo hint e = false := h e (List.mem_cons_self)
    have ih' := ih (fun e' he' => h e' (List.mem_cons_of_mem _ he'))
    unfold judge.go
    cases e with
    | rename src dst =>
      have hne : (dst == hint) = false := by simpa [flipsTo] using he
      simp only [hne, Bool.false_or, Bool.false_and]
      exact ih' _ _
    | creat p d => simpa using ih' _ _
    | write p => simpa using ih' _ _
    | fsync p => simpa using ih' _ _
    | fsyncDir d => simpa using ih' _ _
    | unlink p => simpa using ih' _ _

/-- **fsync_failure_no_flip** — when the fsync of any referenced file fails, the commit's trace contains no rename onto the
pointer (for every number of files and every failing position), so the judge has nothing to object to at any prefix: the
pointer never advances over a file whose flush failed. (Pointer path distinct from every referenced file's final path.) -/
theorem fsync_failure_no_flip (files : List W) (k : Nat) (hint : Nat) (hd : ∀ w ∈ files, w.fin ≠ hint) :
    (∀ e ∈ commitTraceFail files k, flipsTo hint e = false) ∧
    ∀ (reach : List Nat) (s0 : St), judge hint reach s0 (commitTraceFail files k) = none := by
  have h1 : ∀ e ∈ commitTraceFail files k, flipsTo hint e = false := by
    intro e he
    unfold commitTraceFail at he
    rcases List.mem_append.1 he with he | he
    · obtain ⟨w, hw, hew⟩ := List.mem_flatMap.1 he
      have hwf : w ∈ files := List.mem_of_mem_take hw
      have := hd w hwf
      simp only [lowerWrite, List.mem_cons, List.mem_nil_iff, or_false] at hew
      rcases hew with rfl | rfl | rfl | rfl | rfl <;> simp [flipsTo, this]
    · cases hk : files[k]? with
      | none => simp [hk] at he
      | some w =>
        simp only [hk, lowerWriteFail, List.mem_cons, List.mem_nil_iff, or_false] at he
        rcases he with rfl | rfl | rfl <;> simp [flipsTo]
  refine ⟨h1, ?_⟩
  intro reach s0
  unfold judge
  exact judge_go_no_flip hint reach _ h1 s0 0

example : commitTraceFail [⟨10, 1, 0⟩, ⟨11, 2, 0⟩] 1 = [.creat 10 0, .write 10, .fsync 10, .rename 10 1, .fsyncDir 0, .creat 11 0, .write 11, .unlink 11] := by
  decide

end DSV.Fs

/-! ## Tie to the current source: the syscall order of the two atomic writers -/
namespace DSV.Src.C16
open DSV.Skel DSV.Generated.Skel DSV.Fs

/-- **source_write_file_is_lowerWrite** — the success path of the CURRENT `LocalStorageBackend.write_file` is the model's
`lowerWrite`: create temp, write, fsync(file), rename, fsync(directory). -/
theorem source_write_file_is_lowerWrite (t p d : Nat) :
    lowerOf false (mainPath (project fsVoc localWriteFile)) = (lowerWrite t p d).map evTag := by
  simp only [lowerWrite, List.map, evTag]; decide

/-- **source_data_writer_is_lowerWrite** — the success path of the CURRENT `DataFileWriter.close` is `lowerWrite` without its
first event (the temp file was created when the writer was opened): finish writing, fsync(file), rename, fsync(directory). -/
theorem source_data_writer_is_lowerWrite (t p d : Nat) :
    lowerOf false (mainPath (project fsVoc dataWriterClose)) = ((lowerWrite t p d).map evTag).tail := by
  simp only [lowerWrite, List.map, evTag]; decide

/-- **source_failure_path_unlinks_temp** — the failure handler of both writers only removes the temp file (inside a catch-all of its own) and re-raises. -/
theorem source_failure_path_unlinks_temp :
    ((project fsVoc localWriteFile).dropWhile (· != "handler")) = ["handler", "unlink", "handler"] ∧
    ((project fsVoc dataWriterClose).dropWhile (· != "handler")) = ["handler", "unlink", "handler"] := by decide

/-- **source_prebuilt_persisted_before_queue** — a pre-built file is made durable before it can be queued for a commit. -/
theorem source_prebuilt_persisted_before_queue :
    allBefore "persist" "queue" (project txVoc txAppendFiles) = true := by decide

/-- **source_files_before_pointer** — `_commit_file_ops` writes manifests and the manifest list before the call that
advances the pointer, and validates the data files before the manifest that adds them. -/
theorem source_files_before_pointer :
    project fileOpsVoc txCommitFileOps = ["manifest", "validate", "manifest", "manifestList", "commit"] := by decide

end DSV.Src.C16
