import DSV.Proofs.Skeleton
import DSV.Generated.Skeleton
import DSV.Proofs.Occ
/-!
C08 — a stale lock holder or delayed pointer write cannot lose an update on S3.
Same transition system as C01 with `cas := true`; the lock is `exclusive := false` — a lock granting everyone, i.e.
"no exclusion at all" — which subsumes paused holders, lapsed leases and takeovers. A delayed conditional PUT is
just a `flip` step scheduled late.
-/
namespace DSV.Occ

/-- **ack_replaced_validated** — on a CAS backend whose ETag comes from the read that validation used, with NO assumption
about the lock: every acknowledged flip replaced the very version it validated against and was derived from; the flips
form one chain, so no acknowledged commit is overwritten. -/
theorem ack_replaced_validated (cfg : Cfg) (kind : Nat → Kind) (h : CasCfg cfg) (s : Sys) (hr : Reach cfg kind s) :
    FlipsOk s ∧ Chain s.flips ∧ s.hint.fid = headFid s.flips := serial' cfg kind (Or.inr h) s hr

/-- **lost_lock_is_conflict** — a committer whose fencing check finds the lock lost reports a retryable conflict:
it does not flip and the pointer is untouched. -/
theorem lost_lock_is_conflict (cfg : Cfg) (s s' : Sys) (a : Nat) (hx : cfg.exclusive = false)
    (h : step cfg s a (.fence false) = some s') : s'.pc a = .conflict ∧ s'.flips = s.flips ∧ s'.hint = s.hint :=
  lost_lock_is_conflict' cfg s s' a hx h

/-- the CAS backend as found: validation read and ETag read are two separate reads of the pointer -/
def asFoundCas : Cfg := { cas := true, exclusive := false, strictStamp := true, singleRead := false }

/-- actor 2 commits between actor 1's validation read and actor 1's ETag read -/
def twoReadSched : List (Nat × Act) :=
  [(1, .readBase), (2, .readBase), (1, .acquire), (2, .acquire),
   (1, .validate),
   (2, .validate), (2, .etagRead), (2, .writeMeta 0), (2, .fence true), (2, .flip), (2, .release false),
   (1, .etagRead), (1, .writeMeta 0), (1, .fence true), (1, .flip), (1, .release false)]

/-- **two_reads_refuted** (regression witness; the code as found) — with a lock that does not exclude, actor 1 validates
against version 0, actor 2 commits version 1, actor 1 then reads the ETag of the pointer naming version 1 and its
conditional PUT succeeds: version 1 is replaced by a version derived from 0 — an acknowledged update is lost. -/
theorem two_reads_refuted : ∃ s, Reach asFoundCas (fun _ => .snap) s ∧ ¬ FlipsOk s ∧
    s.pc 1 = .done true ∧ s.pc 2 = .done true := by
  have hrun : (runSched asFoundCas (init fun _ => .snap) twoReadSched).isSome = true := by decide
  obtain ⟨s, hs⟩ := Option.isSome_iff_exists.mp hrun
  refine ⟨s, reach_runSched _ _ _ _ _ Reach.init hs, ?_, ?_, ?_⟩
  · intro h
    have hf : (runSched asFoundCas (init fun _ => .snap) twoReadSched).map (·.flips) =
        some [⟨1, 0, 1, 2⟩, ⟨2, 0, 0, 1⟩] := by decide
    rw [hs] at hf
    simp only [Option.map_some, Option.some.injEq] at hf
    have := h ⟨1, 0, 1, 2⟩ (by rw [hf]; simp)
    simp at this
  · have : (runSched asFoundCas (init fun _ => .snap) twoReadSched).map (·.pc 1) = some (.done true) := by decide
    rw [hs] at this; simpa using this
  · have : (runSched asFoundCas (init fun _ => .snap) twoReadSched).map (·.pc 2) = some (.done true) := by decide
    rw [hs] at this; simpa using this

/-- Non-vacuity: in the repaired configuration the same interleaving ends in a conflict for actor 1. -/
def repairedCas : Cfg := { cas := true, exclusive := false, strictStamp := true, singleRead := true }
example : ((runSched repairedCas (init fun _ => .snap)
    [(1, .readBase), (2, .readBase), (1, .acquire), (2, .acquire), (1, .validate),
     (2, .validate), (2, .writeMeta 0), (2, .fence true), (2, .flip), (2, .release false),
     (1, .writeMeta 0), (1, .fence true), (1, .flip)]).map (fun s => (s.pc 1, s.flips))) =
    some (.conflict, [⟨2, 0, 0, 1⟩]) := by decide

end DSV.Occ

/-! ## Tie to the current source: where the ETag of the conditional pointer write comes from -/
namespace DSV.Src.C08
open DSV.Skel DSV.Generated.Skel

/-- **source_single_read** — in the CURRENT source the commit-point routine performs no read of its own, and the ETag'd
read reads the pointer exactly once and never through `refresh` / `_read_version_hint`: the model's `singleRead` holds. -/
theorem source_single_read : singleReadOf mmWriteHint mmReadCurrentEtag = true := by decide

/-- **source_flip_is_conditional** — the commit-point routine's writes are the conditional PUT (CAS branch) and the plain
write (atomic-rename backends), in that order, nothing else. -/
theorem source_flip_is_conditional :
    project [("storage.write_file_cas", "cas"), ("storage.write_file", "plain"), ("storage.write_json", "plain"),
             ("storage.delete_file", "delete")] mmWriteHint = ["cas", "plain"] := by decide

/-- **ack_replaced_validated_source** — `ack_replaced_validated` with the `singleRead` switch READ OFF the current source:
nothing assumed about the lock. -/
theorem ack_replaced_validated_source (excl : Bool) (kind : Nat → Occ.Kind) (s : Occ.Sys)
    (hr : Occ.Reach ⟨true, excl, true, singleReadOf mmWriteHint mmReadCurrentEtag⟩ kind s) :
    Occ.FlipsOk s ∧ Occ.Chain s.flips ∧ s.hint.fid = Occ.headFid s.flips := by
  rw [source_single_read] at hr
  exact Occ.ack_replaced_validated _ kind ⟨rfl, rfl, rfl⟩ s hr

end DSV.Src.C08
