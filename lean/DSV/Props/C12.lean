import DSV.Proofs.Filter
import DSV.Model.FilterParse
/-!
C12 — filters mean what SQL says, identically in every scan API.
Property theorems only; helper lemmas live in `DSV/Proofs/Filter.lean`.
-/
namespace DSV.Filter

/-- **build_is_sql** — for every expression and every row (NULL / NaN / value in the filtered column),
the compute expression built by `_build_condition` keeps the row iff the SQL three-valued reference
evaluates to TRUE.  Hypothesis: the value set carries no NaN (NaN membership is unspecified, DESIGN §7). -/
theorem build_is_sql (e : Expr) (r : Row) (h : NoNanInSet e) :
    keeps (build e) r = true ↔ evalSql e r = Tri.t := by
  unfold keeps evalSql evalSqlV build
  have hm : memArrow (r e.col) (dropNull e.set) = memSql (r e.col) (dropNull e.set) :=
    memArrow_eq_memSql _ _ (nan_not_mem_dropNull h)
  cases hop : e.op <;> simp only [] <;>
    (try (cases hx : r e.col <;> cases hl : e.lit <;>
          simp [evalArrow, Tri.ofBool, hx, hl, cmpNN] <;> done))
  all_goals
    by_cases hemp : (dropNull e.set).isEmpty = true
    · have : dropNull e.set = [] := List.isEmpty_iff.mp hemp
      cases hx : r e.col <;> simp [this, evalArrow, Tri.ofBool, memSql, hx]
    · cases hx : r e.col <;>
        simp [hemp, evalArrow, kand_true, Tri.ofBool, hx] <;>
        (try (simp only [hx] at hm; simp [hm]))

/-- Non-vacuity: a concrete expression with a NULL-containing value set satisfies the hypothesis. -/
example : NoNanInSet { col := 0, op := .notIn, lit := .null, set := [.val 1, .null] } := by
  simp [NoNanInSet]


theorem keeps_foldl (es : List Expr) (acc : AExp) (r : Row) :
    keeps (es.foldl (fun a x => AExp.and a (build x)) acc) r =
      (keeps acc r && es.all fun e => keeps (build e) r) := by
  induction es generalizing acc with
  | nil => simp
  | cons e rest ih =>
    rw [List.foldl_cons, ih, List.all_cons, ← Bool.and_assoc]
    congr 1
    unfold keeps
    simp only [evalArrow]
    have := @kand_true (evalArrow acc r) (evalArrow (build e) r)
    cases h1 : evalArrow acc r <;> cases h2 : evalArrow (build e) r <;> simp_all [kand]
    all_goals (rename_i a b; cases a <;> cases b <;> simp_all [kand])

/-- **conj_is_sql** — a filter dict with any number of conditions keeps exactly the rows on which every
condition is SQL-TRUE (left-fold of `&`, Kleene). -/
theorem conj_is_sql (es : List Expr) (r : Row) (h : ∀ e ∈ es, NoNanInSet e) :
    keepsAll es r = evalSqlAll es r := by
  unfold keepsAll buildAll evalSqlAll
  cases es with
  | nil => rfl
  | cons e rest =>
    simp only [keeps_foldl, List.all_cons]
    have he := build_is_sql e r (h e (by simp))
    have hrest : (rest.all fun e => keeps (build e) r) = rest.all fun e => evalSql e r == Tri.t := by
      have hr : ∀ x ∈ rest, NoNanInSet x := fun x hx => h x (by simp [hx])
      clear he h
      induction rest with
      | nil => rfl
      | cons x xs ih =>
        rw [List.all_cons, List.all_cons, ih (fun y hy => hr y (by simp [hy]))]
        have := build_is_sql x r (hr x (by simp))
        cases hk : keeps (build x) r <;> cases hs : evalSql x r <;> simp_all
    rw [hrest]
    cases hk : keeps (build e) r <;> cases hs : evalSql e r <;> simp_all

/-- **apis_agree (batches)** — `scan_batches` with any positive batch size yields, concatenated, exactly
what `scan` returns (sequential or parallel; `executor.map` preserves file order). -/
theorem apis_agree_batches (n : Nat) (es : List Expr) (files : List File) :
    (batchesApi n es files).flatten = scanApi es files := by
  unfold batchesApi scanApi
  rw [flatten_filter_nonempty]
  induction files with
  | nil => rfl
  | cons f rest ih =>
    rw [List.flatMap_cons, List.flatten_append, ih, List.map_cons, List.flatten_cons]
    congr 1
    rw [flatten_map_filter, chunks_flatten]

/-- **apis_agree (records)** — `iter_records` yields the same rows in the same order. -/
theorem apis_agree_records (es : List Expr) (files : List File) :
    recordsApi es files = scanApi es files := apis_agree_batches 999 es files

theorem keepsAll_eq_all (es : List Expr) (r : Row) : keepsAll es r = es.all fun e => keeps (build e) r := by
  unfold keepsAll buildAll
  cases es with
  | nil => rfl
  | cons e rest => simp only [keeps_foldl, List.all_cons]

theorem rgStatsV_range {xs : List V} {lo hi : Int} (h : rgStatsV xs = .range lo hi) :
    ∀ a, V.val a ∈ xs → lo ≤ a ∧ a ≤ hi := by
  unfold rgStatsV at h
  split at h
  · rename_i l u hl hu
    simp only [Bounds.range.injEq] at h
    obtain ⟨rfl, rfl⟩ := h
    intro a ha
    exact ⟨listMin_le hl a (mem_vals.mpr ha), le_listMax hu a (mem_vals.mpr ha)⟩
  · cases h

/-- Statistics-based row-group skipping is sound on NaN-free columns. -/
theorem pushSkip_sound (xs : List V) (e : Expr) (hn : NoNan xs)
    (hp : pushSkip1 (rgStatsV xs) e = true) : ∀ x ∈ xs, evalSqlV e x ≠ Tri.t := by
  intro x hx
  cases hb : rgStatsV xs with
  | none => simp [pushSkip1, hb] at hp
  | nanB => simp [pushSkip1, hb] at hp
  | range lo hi =>
    have hr := rgStatsV_range hb
    rw [hb] at hp
    cases x with
    | nan => exact absurd hx hn
    | null =>
      unfold pushSkip1 at hp
      unfold evalSqlV; cases hop : e.op <;> simp [Tri.ofBool, hop] at hp ⊢
    | val a =>
      obtain ⟨h1, h2⟩ := hr a hx
      unfold evalSqlV
      unfold pushSkip1 at hp
      cases hop : e.op <;> simp only [hop] at hp ⊢ <;> try (simp at hp; done)
      case notIn =>
        simp only [Bool.and_eq_true, beq_iff_eq, List.any_eq_true] at hp
        obtain ⟨hlh, s, hs, hsv⟩ := hp
        have hal : a = lo := by omega
        have : memSql (V.val a) (dropNull e.set) = true := by
          unfold memSql
          rw [List.any_eq_true]
          exact ⟨s, hs, by subst hal; rw [hsv]; simp [eqSql]⟩
        simp [Tri.ofBool, this]
      all_goals
        cases hl : e.lit <;> simp only [hl] at hp ⊢ <;> try (simp at hp; done)
        all_goals
          simp [Tri.ofBool, cmpNN] at hp ⊢
          omega

/-- **pushdown_agrees_partial** — on tables without NaN in the filtered columns statistics pushdown
(row-group skipping) returns exactly what `scan` with verification returns. -/
theorem pushdown_agrees_partial (es : List Expr) (files : List File)
    (hs : ∀ e ∈ es, NoNanInSet e)
    (hn : ∀ f ∈ files, ∀ e ∈ es, NoNan (f.map (· e.col))) :
    pushdownApi es files = scanApi es files := by
  unfold pushdownApi scanApi
  congr 1
  apply List.map_congr_left
  intro f hf
  split
  · rename_i hany
    simp only [List.any_eq_true] at hany
    obtain ⟨e, he, hskip⟩ := hany
    symm
    rw [List.filter_eq_nil_iff]
    intro r hr
    rw [keepsAll_eq_all]
    simp only [List.all_eq_true]
    intro hall
    have hk := hall e he
    have hx : r e.col ∈ f.map (· e.col) := List.mem_map.mpr ⟨r, hr, rfl⟩
    have hskip' : pushSkip1 (rgStatsV (f.map (· e.col))) e = true := hskip
    have := pushSkip_sound (f.map (· e.col)) e (hn f hf e he) hskip' (r e.col) hx
    exact this ((build_is_sql e r (hs e he)).mp hk)
  · rfl

/-- **apis_agree (verify_checksums=False)** — after fix c29e5f1 the unverified path is the same pipeline. -/
theorem apis_agree_nochecksum (es : List Expr) (files : List File) :
    nochecksumApi es files = scanApi es files := rfl

/-- The rejected design (what the code did before c29e5f1): pushdown into the parquet reader. -/
def PushdownAgrees : Prop := ∀ (es : List Expr) (files : List File), pushdownApi es files = scanApi es files

/-- **pushdown_agrees_refuted** (regression witness) — statistics pushdown ignores NaN: file `[1, NaN, 1]`, filter `x != 1` drops the NaN row that `scan` returns. -/
theorem pushdown_agrees_refuted : ¬ PushdownAgrees := by
  intro h
  have := h [{ col := 0, op := .ne, lit := .val 1, set := [] }]
            [[fun _ => .val 1, fun _ => .nan, fun _ => .val 1]]
  have hl := congrArg List.length this
  revert hl
  decide

end DSV.Filter

namespace DSV.FilterParse
open DSV.Filter

/-- The specification table of operator spellings (what the documentation promises). -/
def specOps : List (String × String) := [
  ("!=", "NE"), ("<", "LT"), ("<=", "LE"), ("<>", "NE"), ("=", "EQ"), ("==", "EQ"), (">", "GT"), (">=", "GE"),
  ("eq", "EQ"), ("ge", "GE"), ("gt", "GT"), ("in", "IN"), ("le", "LE"), ("lt", "LT"), ("ne", "NE"),
  ("not in", "NOT_IN"), ("not_in", "NOT_IN"), ("notin", "NOT_IN")]

def specSpecial : List (String × String) := [
  ("between", "BETWEEN"), ("is_not_null", "IS_NOT_NULL"), ("is_null", "IS_NULL"),
  ("isnotnull", "IS_NOT_NULL"), ("isnull", "IS_NULL"), ("notnull", "IS_NOT_NULL")]

/-- **parse_table_correct** — the operator tables in the source (regenerated on every run) are exactly the
specification tables: every spelling denotes the operator the specification gives it, and there is no other. -/
theorem parse_table_correct :
    DSV.Generated.opTable = specOps ∧ DSV.Generated.specialSpellings = specSpecial := by
  constructor <;> decide

/-- **parse_rejects (None)** — `{"c": None}` raises. -/
theorem compile_none_raises (col : Nat) : compile col .none = none := rfl

/-- **parse_rejects (operator not a string)**. -/
theorem compile_nonstr_raises (col : Nat) (v : PyVal) :
    compile col (.tuple2 .nonStr v) = none ∧ compile col (.tuple2 .unhashable v) = none := ⟨rfl, rfl⟩

/-- **parse_rejects (unknown operator)** — a spelling outside both tables is never coerced to some operator. -/
theorem compile_unknown_raises (col : Nat) (s : String) (v : PyVal)
    (h1 : specSpecial.lookup s.toLower = none) (h2 : specOps.lookup s.toLower = none) :
    compile col (.tuple2 (.str s) v) = none := by
  unfold compile compileWith
  rw [parse_table_correct.1, parse_table_correct.2]
  simp [h1, h2]

/-- **parse_rejects (wrong arity / non-iterable operand)** — comparison operators take a scalar, `in`/`not_in` a
sequence, `between` a sequence of exactly two; anything else raises. -/
theorem compile_shape (col : Nat) (s : String) (v : PyVal) (es : List Expr)
    (h : compile col (.tuple2 (.str s) v) = some es) :
    (∃ x, v = .scalar x ∧ ∃ op, isCmp op = true ∧ es = [mk col op x []]) ∨
    (∃ xs, v = .seq xs ∧ ∃ op, (op = .isIn ∨ op = .notIn) ∧ es = [mk col op .null xs]) ∨
    (∃ a b, v = .seq [a, b] ∧ es = [mk col .ge a [], mk col .le b []]) ∨
    es = [mk col .isNull .null []] ∨ es = [mk col .isNotNull .null []] := by
  unfold compile compileWith at h
  simp only [] at h
  split at h
  · split at h
    · rename_i a b
      simp only [Option.some.injEq] at h
      exact Or.inr (Or.inr (Or.inl ⟨a, b, rfl, h.symm⟩))
    · cases h
  · simp only [Option.some.injEq] at h; exact Or.inr (Or.inr (Or.inr (Or.inl h.symm)))
  · simp only [Option.some.injEq] at h; exact Or.inr (Or.inr (Or.inr (Or.inr h.symm)))
  · cases h
  · split at h
    · cases h
    · rename_i op _
      split at h
      · rename_i hc
        split at h
        · rename_i x
          simp only [Option.some.injEq] at h
          exact Or.inl ⟨x, rfl, op, hc, h.symm⟩
        · cases h
      · split at h
        · rename_i hin
          split at h
          · rename_i xs
            simp only [Option.some.injEq] at h
            refine Or.inr (Or.inl ⟨xs, rfl, op, ?_, h.symm⟩)
            simpa using hin
          · cases h
        · cases h

/-- Non-vacuity: well-formed conditions do compile. -/
example : compile 0 (.tuple2 (.str "Not In") (.seq [.val 1, .null])) = some [mk 0 .notIn .null [.val 1, .null]] := by
  decide +kernel
example : compile 0 (.tuple2 (.str "between") (.seq [.val 1, .val 2])) = some [mk 0 .ge (.val 1) [], mk 0 .le (.val 2) []] := by
  decide +kernel
example : compile 0 (.tuple2 (.str "gte") (.scalar (.val 1))) = none := by decide +kernel

end DSV.FilterParse
