import DSV.Proofs.Filter
/-!
C12 — filters mean what SQL says, identically in every scan API.
Property theorems only; helper lemmas live in `DSV/Proofs/Filter.lean`.
-/
namespace DSV.Filter

/-- **build_is_sql** — for every expression and every row (NULL / NaN / value in the filtered column),
the compute expression built by `_build_condition` keeps the row iff the SQL three-valued reference
evaluates to TRUE.  Hypothesis: the value set carries no NaN (NaN membership is unspecified, DESIGN §7). -/
theorem build_is_sql (e : Expr) (r : Row) (h : NoNanInSet e) :
    keeps (build e) r = true ↔ evalSql e r = Tri.t := by
  unfold keeps evalSql evalSqlV build
  have hm : memArrow (r e.col) (dropNull e.set) = memSql (r e.col) (dropNull e.set) :=
    memArrow_eq_memSql _ _ (nan_not_mem_dropNull h)
  cases hop : e.op <;> simp only [] <;>
    (try (cases hx : r e.col <;> cases hl : e.lit <;>
          simp [evalArrow, Tri.ofBool, hx, hl, cmpNN] <;> done))
  all_goals
    by_cases hemp : (dropNull e.set).isEmpty = true
    · have : dropNull e.set = [] := List.isEmpty_iff.mp hemp
      cases hx : r e.col <;> simp [this, evalArrow, Tri.ofBool, memSql, hx]
    · cases hx : r e.col <;>
        simp [hemp, evalArrow, kand_true, Tri.ofBool, hx] <;>
        (try (simp only [hx] at hm; simp [hm]))

/-- Non-vacuity: a concrete expression with a NULL-containing value set satisfies the hypothesis. -/
example : NoNanInSet { col := 0, op := .notIn, lit := .null, set := [.val 1, .null] } := by
  simp [NoNanInSet]


theorem keeps_foldl (es : List Expr) (acc : AExp) (r : Row) :
    keeps (es.foldl (fun a x => AExp.and a (build x)) acc) r =
      (keeps acc r && es.all fun e => keeps (build e) r) := by
  induction es generalizing acc with
  | nil => simp
  | cons e rest ih =>
    rw [List.foldl_cons, ih, List.all_cons, ← Bool.and_assoc]
    congr 1
    unfold keeps
    simp only [evalArrow]
    have := @kand_true (evalArrow acc r) (evalArrow (build e) r)
    cases h1 : evalArrow acc r <;> cases h2 : evalArrow (build e) r <;> simp_all [kand]
    all_goals (rename_i a b; cases a <;> cases b <;> simp_all [kand])

/-- **conj_is_sql** — a filter dict with any number of conditions keeps exactly the rows on which every
condition is SQL-TRUE (left-fold of `&`, Kleene). -/
theorem conj_is_sql (es : List Expr) (r : Row) (h : ∀ e ∈ es, NoNanInSet e) :
    keepsAll es r = evalSqlAll es r := by
  unfold keepsAll buildAll evalSqlAll
  cases es with
  | nil => rfl
  | cons e rest =>
    simp only [keeps_foldl, List.all_cons]
    have he := build_is_sql e r (h e (by simp))
    have hrest : (rest.all fun e => keeps (build e) r) = rest.all fun e => evalSql e r == Tri.t := by
      have hr : ∀ x ∈ rest, NoNanInSet x := fun x hx => h x (by simp [hx])
      clear he h
      induction rest with
      | nil => rfl
      | cons x xs ih =>
        rw [List.all_cons, List.all_cons, ih (fun y hy => hr y (by simp [hy]))]
        have := build_is_sql x r (hr x (by simp))
        cases hk : keeps (build x) r <;> cases hs : evalSql x r <;> simp_all
    rw [hrest]
    cases hk : keeps (build e) r <;> cases hs : evalSql e r <;> simp_all

/-- **apis_agree (batches)** — `scan_batches` with any positive batch size yields, concatenated, exactly
what `scan` returns (sequential or parallel; `executor.map` preserves file order). -/
theorem apis_agree_batches (n : Nat) (es : List Expr) (files : List File) :
    (batchesApi n es files).flatten = scanApi es files := by
  unfold batchesApi scanApi
  rw [flatten_filter_nonempty]
  induction files with
  | nil => rfl
  | cons f rest ih =>
    rw [List.flatMap_cons, List.flatten_append, ih, List.map_cons, List.flatten_cons]
    congr 1
    rw [flatten_map_filter, chunks_flatten]

/-- **apis_agree (records)** — `iter_records` yields the same rows in the same order. -/
theorem apis_agree_records (es : List Expr) (files : List File) :
    recordsApi es files = scanApi es files := apis_agree_batches 999 es files

/-- Full-strength statement for the checksum-off path (parquet reader pushdown). -/
def PushdownAgrees : Prop := ∀ (es : List Expr) (files : List File), pushdownApi es files = scanApi es files

/-- **pushdown_agrees_refuted** — `verify_checksums=False` delegates to the parquet reader's statistics
pushdown, which ignores NaN: file `[1, NaN, 1]`, filter `x != 1` drops the NaN row that `scan` returns. -/
theorem pushdown_agrees_refuted : ¬ PushdownAgrees := by
  intro h
  have := h [{ col := 0, op := .ne, lit := .val 1, set := [] }]
            [[fun _ => .val 1, fun _ => .nan, fun _ => .val 1]]
  have hl := congrArg List.length this
  revert hl
  decide

end DSV.Filter
