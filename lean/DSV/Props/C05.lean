import DSV.Model.Gc
import DSV.Proofs.Marker
/-!
C05 — garbage collection never deletes anything reachable or in flight (path handling + delete decision).
-/
namespace DSV.Gc

/-- **norm_agrees_refuted** (regression witness) — the normaliser as found strips the table location as a string
prefix: for a table located at `d`, the listed path `data/f` and the manifest spelling `/data/f` of the SAME file
normalise differently, so every live data file looks like an orphan. -/
theorem norm_agrees_refuted :
    normalizeOld ['d'] ['d', 'a', 't', 'a', '/', 'f'] ≠ normalizeOld ['d'] ['/', 'd', 'a', 't', 'a', '/', 'f'] := by decide

/-- a library-written file: table-relative path under `data/` or `metadata/` -/
def LibPath (f : Str) : Prop := (∃ x, f = dataS ++ '/' :: x) ∨ (∃ x, f = metadataS ++ '/' :: x)

theorem libPath_not_abs {f : Str} (h : LibPath f) : isAbs f = false ∧ lstripSlash f = f := by
  rcases h with ⟨x, rfl⟩ | ⟨x, rfl⟩ <;> simp [isAbs, lstripSlash, dataS, metadataS]

theorem firstComponent_lib {f : Str} (h : LibPath f) :
    firstComponent ('/' :: f) = dataS ∨ firstComponent ('/' :: f) = metadataS := by
  rcases h with ⟨x, rfl⟩ | ⟨x, rfl⟩
  · left; simp [firstComponent, dataS, List.takeWhile]
  · right; simp [firstComponent, metadataS, List.takeWhile]

/-- **norm_agrees (relative and Iceberg-style spellings)** — for every table location (relative, absolute, trailing slash,
a string prefix of `data` / `metadata`, …) the listed form `data/x` and the manifest form `/data/x` normalise to the same path. -/
theorem norm_agrees (tp real f : Str) (h : LibPath f) :
    normalize tp real f = f ∧ normalize tp real ('/' :: f) = f := by
  obtain ⟨h1, h2⟩ := libPath_not_abs h
  constructor
  · simp [normalize, h1, h2]
  · have hf := firstComponent_lib h
    have : lstripSlash ('/' :: f) = f := by
      simp only [lstripSlash, List.dropWhile_cons, beq_self_eq_true, if_true]
      exact h2
    rcases hf with hf | hf <;> simp [normalize, isAbs, hf, this]

/-- **norm_agrees (absolute spelling)** — a true absolute path under an absolute table root whose first component
is not `data` / `metadata` normalises to the same table-relative path. -/
theorem norm_agrees_abs (tp real f : Str) (h : LibPath f) (habs : isAbs tp = true)
    (hfc : firstComponent (rstripSlash tp ++ '/' :: f) ≠ dataS ∧ firstComponent (rstripSlash tp ++ '/' :: f) ≠ metadataS)
    (hp : isAbs (rstripSlash tp ++ '/' :: f) = true) :
    normalize tp real (rstripSlash tp ++ '/' :: f) = f := by
  obtain ⟨_, h2⟩ := libPath_not_abs h
  have hpre : (rstripSlash tp ++ ['/']).isPrefixOf (rstripSlash tp ++ '/' :: f) = true := by
    rw [List.isPrefixOf_iff_prefix]
    exact ⟨f, by simp⟩
  have hdrop : (rstripSlash tp ++ '/' :: f).drop (rstripSlash tp ++ ['/']).length = f := by
    have : rstripSlash tp ++ '/' :: f = (rstripSlash tp ++ ['/']) ++ f := by simp
    rw [this, List.drop_left]
  simp only [normalize, hp, hfc.1, hfc.2, beq_iff_eq, Bool.or_self, Bool.not_false, Bool.and_self, if_true, habs,
    hpre, hdrop, h2, Bool.true_and]
  simp [hfc.1, hfc.2, hpre, hdrop, h2]

/-- the spellings under which a manifest / marker may name the library-written file `f` -/
def Denotes (tp : Str) (s f : Str) : Prop :=
  s = f ∨ s = '/' :: f ∨
  (s = rstripSlash tp ++ '/' :: f ∧ isAbs tp = true ∧ isAbs s = true ∧
    firstComponent s ≠ dataS ∧ firstComponent s ≠ metadataS)

theorem norm_denotes (tp real s f : Str) (hf : LibPath f) (hd : Denotes tp s f) : normalize tp real s = f := by
  rcases hd with rfl | rfl | ⟨rfl, h1, h2, h3, h4⟩
  · exact (norm_agrees tp real _ hf).1
  · exact (norm_agrees tp real f hf).2
  · exact norm_agrees_abs tp real f hf h1 ⟨h3, h4⟩ h2

/-- **gc_safe** — for every table-location spelling, every listing, every grace decision and every set of manifest /
marker spellings: no listed library file that some reachable or protected entry denotes is deleted. -/
theorem gc_safe (tp real : Str) (live : List Str) (old : Str → Bool) (listing deleted : List Str)
    (h : gcPrefix (normalize tp real) (live.map (normalize tp real)) old listing = some deleted)
    (f : Str) (hf : LibPath f) (s : Str) (hs : s ∈ live) (hd : Denotes tp s f) : f ∉ deleted := by
  unfold gcPrefix at h
  split at h
  · cases h
  · simp only [Option.some.injEq] at h
    subst h
    intro hm
    have hm2 := (List.mem_filter.mp hm).2
    have hn1 := (norm_agrees tp real f hf).1
    have hn2 := norm_denotes tp real s f hf hd
    have : (live.map (normalize tp real)).contains (normalize tp real f) = true := by
      rw [List.contains_iff_mem, hn1, ← hn2]
      exact List.mem_map_of_mem hs
    rw [this] at hm2
    simp at hm2

/-- **gc_live** — a listed file that nothing reachable or protected normalises to, and that is older than the grace
period, is in fact deleted (when the run does not abort). -/
theorem gc_live (norm : Str → Str) (keep : List Str) (old : Str → Bool) (listing deleted : List Str)
    (h : gcPrefix norm keep old listing = some deleted) (f : Str) (hf : f ∈ listing)
    (hk : norm f ∉ keep) (ho : old f = true) : f ∈ deleted := by
  unfold gcPrefix at h
  split at h
  · cases h
  · simp only [Option.some.injEq] at h
    subst h
    rw [List.mem_filter]
    refine ⟨hf, ?_⟩
    have : keep.contains (norm f) = false := by
      rw [Bool.eq_false_iff]; intro hc; exact hk (List.contains_iff_mem.mp hc)
    rw [this, ho]; rfl

/-- a deleted file was listed, is old and is not kept -/
theorem gc_deletes_only_old_unkept (norm : Str → Str) (keep : List Str) (old : Str → Bool) (listing deleted : List Str)
    (h : gcPrefix norm keep old listing = some deleted) (f : Str) (hf : f ∈ deleted) :
    f ∈ listing ∧ old f = true ∧ norm f ∉ keep := by
  unfold gcPrefix at h
  split at h
  · cases h
  · simp only [Option.some.injEq] at h
    subst h
    have h1 := (List.mem_filter.mp hf).1
    have h2 := (List.mem_filter.mp hf).2
    rw [Bool.and_eq_true] at h2
    refine ⟨h1, h2.2, ?_⟩
    intro hc
    have := List.contains_iff_mem.mpr hc
    rw [this] at h2
    simp at h2

/-- Non-vacuity: the prefix-clashing location `d`, a live file in Iceberg spelling, an old orphan: only the orphan goes. -/
example : gcPrefix (normalize ['d'] ['/', 'x', '/', 'd']) ([['/', 'd', 'a', 't', 'a', '/', 'l']].map (normalize ['d'] ['/', 'x', '/', 'd']))
    (fun _ => true) [['d', 'a', 't', 'a', '/', 'l'], ['d', 'a', 't', 'a', '/', 'o']] = some [['d', 'a', 't', 'a', '/', 'o']] := by decide

/-- **spellings_name_one_file** (repair 8435446) — on the local backend every accepted spelling of a pre-built file's path is compared
as the listed path it names; on object storage the spelling is left alone (it IS the key) -/
theorem spellings_name_one_file :
    referenced true [] [] "data//x.parquet".toList = "data/x.parquet".toList ∧
    referenced true [] [] "data/./x.parquet".toList = "data/x.parquet".toList ∧
    referenced true [] [] "/data/sub/../x.parquet".toList = "data/x.parquet".toList ∧
    referenced true [] [] "./data/x.parquet".toList = "data/x.parquet".toList ∧
    referenced false [] [] "data//x.parquet".toList = "data//x.parquet".toList := by decide +kernel

/-- canonical paths (what the library itself writes, what a listing returns) are left as they are -/
theorem referenced_s3_is_normalize (tp real p : Str) : referenced false tp real p = normalize tp real p := by
  simp [referenced]

/-- what the property excludes: comparing the raw spelling misses the listed file (the code as found) -/
theorem raw_spelling_misses_listed_file : normalize [] [] "data//x.parquet".toList ≠ "data/x.parquet".toList := by decide +kernel

end DSV.Gc

/-! ### which marker protects which queued file (live transactions; repairs c834a8f, 0f909e5) -/
namespace DSV.Props.C05m
open DSV.Marker

/-- **queued_files_all_covered** — after `append_files` has run over a batch, EVERY path of the batch has its marker name among
the markers this transaction holds (whatever the naming scheme) -/
theorem queued_files_all_covered (name : Str → Str) (held paths : List Str) :
    ∀ p ∈ paths, name p ∈ (register name held paths).1 :=
  fun p hp => register_fst_mem name paths held [] p hp

/-- **separated_names_register_each** — a path whose marker name is not already held and is shared with no other path of the batch
gets a marker OF ITS OWN (it is not skipped as "already registered") -/
theorem separated_names_register_each (name : Str → Str) (held paths : List Str) (p : Str) (hp : p ∈ paths)
    (hnew : name p ∉ held) (hsep : ∀ q ∈ paths, name q = name p → q = p) : p ∈ (register name held paths).2 :=
  register_snd_mem name paths held [] p hp hnew hsep

def eu : Str := "/data/region=eu/part-0.parquet".toList
def us : Str := "/data/region=us/part-0.parquet".toList

/-- what the property excludes (the scheme as first repaired): with base-name-only markers the second of two files sharing a base
name is skipped — it has no marker of its own and the one marker's payload names the other file -/
theorem basename_markers_skip_second : (register markerNameBasename [] [eu, us]).2 = [eu] ∧
    markerNameBasename eu = markerNameBasename us := by decide +kernel

/-- with the digest-carrying names both are registered, for ANY digest function that tells the two paths apart -/
theorem digest_markers_register_both (digest : Str → Str) (h : digest (lstripSlash eu) ≠ digest (lstripSlash us)) :
    us ∈ (register (markerNamePrebuilt digest) [] [eu, us]).2 ∧ eu ∈ (register (markerNamePrebuilt digest) [] [eu, us]).2 := by
  have hne : markerNamePrebuilt digest eu ≠ markerNamePrebuilt digest us := by
    intro e
    have e1 : markerNamePrebuilt digest eu = digest (lstripSlash eu) ++ '-' :: "part-0.parquet".toList := rfl
    have e2 : markerNamePrebuilt digest us = digest (lstripSlash us) ++ '-' :: "part-0.parquet".toList := rfl
    rw [e1, e2] at e
    have hl : (digest (lstripSlash eu) ++ '-' :: "part-0.parquet".toList).length = (digest (lstripSlash us) ++ '-' :: "part-0.parquet".toList).length := by rw [e]
    have hlen : (digest (lstripSlash eu)).length = (digest (lstripSlash us)).length := by
      simp only [List.length_append, List.length_cons] at hl; omega
    exact h (List.append_inj_left e hlen)
  constructor
  · apply separated_names_register_each _ _ _ us (by simp) (by simp)
    intro q hq hn
    rcases List.mem_cons.mp hq with rfl | hq
    · exact absurd hn hne
    · simpa using hq
  · apply separated_names_register_each _ _ _ eu (by simp) (by simp)
    intro q hq hn
    rcases List.mem_cons.mp hq with rfl | hq
    · rfl
    · have : q = us := by simpa using hq
      subst this
      exact absurd hn.symm hne

def flat : Str := "/data/shared.parquet".toList

/-- **transactions_do_not_share_markers** — two live transactions that queue the SAME pre-built file (even one lying directly in
data/) name their markers differently, provided their salted digests differ on it: one of them rolling back removes its own marker only -/
theorem transactions_do_not_share_markers (d1 d2 : Str → Str) (p : Str) (h : d1 (lstripSlash p) ≠ d2 (lstripSlash p)) :
    markerNamePrebuilt d1 p ≠ markerNamePrebuilt d2 p := by
  intro e
  unfold markerNamePrebuilt markerNameOf at e
  simp only [Bool.not_true, Bool.false_eq_true, false_and, if_false] at e
  have hl := congrArg List.length e
  have hlen : (d1 (lstripSlash p)).length = (d2 (lstripSlash p)).length := by
    simp only [List.length_append, List.length_cons] at hl; omega
  exact h (List.append_inj_left e hlen)

/-- what the property excludes (the scheme as repaired second, 0f909e5): with a digest of the path alone two transactions share the
marker of a file they both queued — whatever the digest function -/
theorem path_only_markers_are_shared (pd : Str → Str) : markerNamePathOnly pd flat = "shared.parquet".toList ∧
    markerNamePathOnly pd eu = markerNamePathOnly pd eu := ⟨rfl, rfl⟩

/-- files the library itself writes keep their historical marker names (the digest is not consulted) -/
theorem library_marker_names_unchanged (digest : Str → Str) :
    markerName digest "data/auto_1f.parquet".toList = "auto_1f.parquet".toList ∧
    markerName digest "/metadata/manifests/manifest_7.avro".toList = "manifest_7.avro".toList := ⟨rfl, rfl⟩

end DSV.Props.C05m
