import DSV.Proofs.FsCrash
/-!
C03 — a crash at any point leaves the table in the pre- or post-operation state.
Process death = any prefix of the operation's syscall trace (page cache intact).  Model: `DSV/Model/Fs.lean`.
-/
namespace DSV.Fs

/-- **crash_pre** — for a commit writing ANY number of files, at every prefix of its syscall trace that does not contain the
pointer's rename the pointer path is what it was — present, content, content-durability and directory unchanged (a directory
fsync may only make its old entry MORE durable): the table is in the pre-state. -/
theorem crash_pre (files : List W) (hint : W) (s : St) (hwf : WfCommit files hint s) (k : Nat)
    (hk : k ≤ 5 * files.length + 3) :
    SameUpToEntry (run s ((commitTrace files hint).take k) hint.fin) (s hint.fin) := crash_pre_fields' files hint s hwf k hk

/-- the literal "nothing at all changed" is false (regression of a too-strong statement kept honest): a file's directory
fsync persists the OLD pointer entry when they share a directory -/
theorem crash_pre_full_equality_refuted :
    ¬ (∀ files hint s, WfCommit files hint s → ∀ k, k ≤ 5 * files.length + 3 →
        run s ((commitTrace files hint).take k) hint.fin = s hint.fin) := crash_pre_counterexample

/-- **crash_foreign_untouched** — at every prefix, every path the commit does not own (all files of all earlier snapshots,
other transactions' files) is as visible as before: the pre-state stays fully readable, and so does everything older in
the post-state. -/
theorem crash_foreign_untouched (files : List W) (hint : W) (s : St) (k : Nat) (p : Nat) (hp : p ∉ commitIds files hint) :
    (run s ((commitTrace files hint).take k) p).present = (s p).present ∧
    (run s ((commitTrace files hint).take k) p).written = (s p).written := crash_foreign_untouched' files hint s k p hp

/-- **crash_post** — at every prefix from the pointer's rename on, every file the new version references is there with its
full content: the post-state is fully readable. Together: pre or post, post only once the pointer was advanced. -/
theorem crash_post (files : List W) (hint : W) (s : St) (hwf : WfCommit files hint s) (k : Nat)
    (hk : 5 * files.length + 4 ≤ k) : ∀ w ∈ files ++ [hint], Visible (run s ((commitTrace files hint).take k)) w.fin :=
  crash_post' files hint s hwf k hk

/-- within one atomic write the target changes only at the rename (shared with C16) -/
theorem crash_lower_atomic (s : St) (t p d : Nat) (h : t ≠ p) (k : Nat) (hk : k ≤ 3) :
    run s ((lowerWrite t p d).take k) p = s p := lower_atomic' s t p d h k hk

example : Visible (run (fun p => absent (if p = 9 then 0 else 1)) ((commitTrace [⟨11, 1, 1⟩] ⟨19, 9, 0⟩).take 9)) 1 := by
  unfold Visible; decide

end DSV.Fs
