import DSV.Proofs.Skeleton
import DSV.Generated.Skeleton
import DSV.Proofs.Occ
/-!
C01 — concurrent commits are serializable: no acknowledged write lost or duplicated.
Model: `DSV/Model/Occ.lean` (any number of committers, any interleaving of their storage-level steps, any clock —
ticks of 0 ms included, data and metadata-only commits).  Proofs: `DSV/Proofs/Occ.lean`.
-/
namespace DSV.Occ

/-- **serial** — with real mutual exclusion (local backend) or with the conditional pointer write (CAS backend, nothing
assumed about the lock), in every reachable state of every interleaving: each pointer flip replaced exactly the version
its new version was derived from, the flips form one chain from the initial version, and the pointer names its head. -/
theorem serial (cfg : Cfg) (kind : Nat → Kind) (h : LocalCfg cfg ∨ CasCfg cfg) (s : Sys) (hr : Reach cfg kind s) :
    FlipsOk s ∧ Chain s.flips ∧ s.hint.fid = headFid s.flips := serial' cfg kind h s hr

/-- **final_is_fold** — the table the pointer names is the result of applying exactly the transactions that flipped,
one after another, in the order the pointer advanced. -/
theorem final_is_fold (cfg : Cfg) (kind : Nat → Kind) (h : LocalCfg cfg ∨ CasCfg cfg) (s : Sys) (hr : Reach cfg kind s) :
    ∃ v, current s = some v ∧ v.applied = (s.flips.map (·.actor)).reverse := final_is_fold' cfg kind h s hr

/-- **ack_iff_flip** — a transaction is reflected (has a flip) iff it passed its commit point, and never twice;
one that ended with an error (`done false`) or is still retrying has none. -/
theorem ack_iff_flip (cfg : Cfg) (kind : Nat → Kind) (s : Sys) (hr : Reach cfg kind s) (a : Nat) :
    (a ∈ s.flips.map (·.actor) ↔ (∃ n, s.pc a = .flipped n) ∨ s.pc a = .done true) ∧ (s.flips.map (·.actor)).Nodup :=
  ack_iff_flip' cfg kind s hr a

/-- the local backend with the stamp as found (`last_updated_ms := now`) -/
def asFoundLocal : Cfg := { cas := false, exclusive := true, strictStamp := false, singleRead := false }

/-- the schedule of the refutation: two metadata-only commits (e.g. two `delete_snapshot` of non-current snapshots)
from one stale base, with a clock that does not advance between them -/
def staleBaseSched : List (Nat × Act) :=
  [(1, .readBase), (2, .readBase),
   (2, .acquire), (2, .validate), (2, .writeMeta 0), (2, .fence true), (2, .flip), (2, .release false),
   (1, .acquire), (1, .validate), (1, .writeMeta 0), (1, .fence true), (1, .flip), (1, .release false)]

/-- **serial_refuted** (regression witness; the code as found) — the OCC stamp `(current_snapshot_id, last_updated_ms)`
is not injective under equal-millisecond clocks: both metadata-only commits are acknowledged, and the second one
replaces the first although it was derived from the version before it — an acknowledged update is lost. -/
theorem serial_refuted : ∃ s, Reach asFoundLocal (fun _ => .metaOnly) s ∧ ¬ FlipsOk s ∧
    s.pc 1 = .done true ∧ s.pc 2 = .done true := by
  have hrun : (runSched asFoundLocal (init fun _ => .metaOnly) staleBaseSched).isSome = true := by decide
  obtain ⟨s, hs⟩ := Option.isSome_iff_exists.mp hrun
  refine ⟨s, reach_runSched _ _ _ _ _ Reach.init hs, ?_, ?_, ?_⟩
  · intro h
    have hf : (runSched asFoundLocal (init fun _ => .metaOnly) staleBaseSched).map (·.flips) =
        some [⟨1, 0, 1, 2⟩, ⟨2, 0, 0, 1⟩] := by decide
    rw [hs] at hf
    simp only [Option.map_some, Option.some.injEq] at hf
    have := h ⟨1, 0, 1, 2⟩ (by rw [hf]; simp)
    simp at this
  · have : (runSched asFoundLocal (init fun _ => .metaOnly) staleBaseSched).map (·.pc 1) = some (.done true) := by decide
    rw [hs] at this; simpa using this
  · have : (runSched asFoundLocal (init fun _ => .metaOnly) staleBaseSched).map (·.pc 2) = some (.done true) := by decide
    rw [hs] at this; simpa using this

/-- Non-vacuity of `serial`: a reachable state of the repaired local configuration with two flips by two actors,
one of which hit a conflict and retried. -/
def repairedLocal : Cfg := { cas := false, exclusive := true, strictStamp := true, singleRead := false }
example : ((runSched repairedLocal (init fun _ => .metaOnly)
    [(1, .readBase), (2, .readBase), (2, .acquire), (2, .validate), (2, .writeMeta 0), (2, .fence true), (2, .flip), (2, .release false),
     (1, .acquire), (1, .validate), (1, .release true), (1, .readBase), (1, .acquire), (1, .validate), (1, .writeMeta 0),
     (1, .fence true), (1, .flip), (1, .release false)]).map (·.flips)) = some [⟨1, 1, 1, 2⟩, ⟨2, 0, 0, 1⟩] := by decide

end DSV.Occ

/-! ## Tie to the current source: the call skeleton of `MetadataManager.commit` (regenerated on every run) -/
namespace DSV.Src.C01
open DSV.Skel DSV.Generated.Skel

/-- **occ_enabled_order** — the model's program counter admits the protocol steps in one order only: each step is enabled only
at the program point its predecessor leaves. -/
theorem occ_enabled_order (cfg : Occ.Cfg) (s s' : Occ.Sys) (a : Nat) (act : Occ.Act) (h : Occ.step cfg s a act = some s') :
    match act with
    | .acquire => ∃ b, s.pc a = .based b
    | .validate => ∃ b, s.pc a = .locked b
    | .writeMeta _ => ∃ b c e, s.pc a = .validated b c e
    | .fence _ => ∃ b n e, s.pc a = .wrote b n e
    | .flip => ∃ b n e, s.pc a = .fenced b n e
    | .release _ => (∃ n, s.pc a = .flipped n) ∨ s.pc a = .conflict
    | _ => True := occ_enabled_order' cfg s s' a act h

/-- **occ_protocol_commits** — that one order is live: a lone committer performing the steps in it reaches `done true`
with its transaction applied. -/
theorem occ_protocol_commits :
    ((Occ.runSched ⟨false, true, true, true⟩ (Occ.init (fun _ => .snap)) ((1, Occ.Act.readBase) :: occProtocol.map (fun x => (1, x)))).map
      (fun s => (s.pc 1, (Occ.current s).map (·.applied)))) = some (.done true, some [1]) := by decide

/-- **source_commit_follows_protocol** — the CURRENT source of `MetadataManager.commit` performs the protocol steps in exactly
that order: lock, validation read (both backend branches), metadata file, fencing check, pointer flip, (discard on a clean
failure), release. -/
theorem source_commit_follows_protocol :
    dedupAdj (project occVoc mmCommit) = ["acquire", "validate", "writeMeta", "fence", "flip", "discard", "release"] ∧
    (dedupAdj (project occVoc mmCommit)).filter (· != "discard") = occProtocol.filterMap occTag := by decide

/-- **source_commit_reads_once_per_branch** — each backend branch validates against ONE read: the source has exactly one
ETag'd read and one plain refresh in `commit`, and no step is repeated. -/
theorem source_commit_reads_once_per_branch :
    project occVoc mmCommit = ["acquire", "validate", "validate", "writeMeta", "fence", "flip", "discard", "release"] := by decide

end DSV.Src.C01
