/-
M9 — the read decision tree (transaction.py `_get_all_data_files`, `_read_datafile_table`, `_iter_file_batches`;
file_manager.py `read_manifest_list_file` / `read_manifest_file`; metadata_manager.py `refresh`): what a read API does
when ONE file reachable from the current snapshot is not in order.
-/
namespace DSV.Read

inductive Kind where
  | metadata | mlist | manifest | data
deriving DecidableEq, Repr, Inhabited

inductive Status where
  | ok
  | missing
  | unparseable      -- cut to an unparseable prefix / replaced by bytes that do not parse
  | transient        -- the first touch fails with an I/O error
  | altered          -- parses, but the bytes (and content) differ
deriving DecidableEq, Repr, Inhabited

inductive Out where
  | same             -- exactly the undamaged answer
  | raise
  | different        -- some other answer (subset, older version, altered rows)
deriving DecidableEq, Repr, Inhabited

/-- `touches`: the API reads files of this kind at all (row_count does not open data files);
`checksum`: data files are verified against the recorded SHA-256 (the default). -/
def readOutcome (k : Kind) (st : Status) (touches checksum : Bool) : Out :=
  if !touches then .same else
  match st, k with
  | .ok, _ => .same
  -- the pointer names a missing metadata file: refresh() falls back to the recovery scan → an OLDER version is served
  | .missing, .metadata => .different
  | .missing, _ => .raise            -- explicit existence checks / FileNotFoundError
  | .unparseable, _ => .raise        -- JSON error; Avro-then-JSON fallback both fail; parquet error / checksum mismatch
  | .transient, _ => .raise          -- errors propagate (an OSError in the Avro attempt falls to the JSON attempt, which fails)
  | .altered, .data => if checksum then .raise else .different
  | .altered, _ => .different        -- no checksum on metadata-plane files (outside the property)

end DSV.Read
