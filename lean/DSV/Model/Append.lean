import DSV.Generated.Tables
/-!
# Append model (C11): schema-argument acceptance, record validation, value coercion

Mirrors, after the repairs 2f24707 and 8fbd14f:
* `Transaction._schema_signature` / `_validate_schema_against_table`  → `sig`, `acceptsArg` (and the as-found `sigOld`, `acceptsArgOld`)
* `DataFileManager.validate_records_strict`                           → `recordOk`
* `DataFileManager._reject_lossy_value`                               → `guardRefuses`
* what `pyarrow.Table.from_pylist` does with one value of a column type → `arrow` (a measured table, re-measured on every run)
* `Transaction.append_data` + `write_data_file`                       → `append`

Values are abstracted to *value classes* (the vocabulary of `harness/checks/c11.py:VALUES`), each with the attributes the
validator looks at.  Core Lean only.
-/
namespace DSV.Append

/-! ## schemas -/

structure Field where
  id : Nat
  name : String
  ty : String
  required : Bool
deriving DecidableEq, Repr, Inhabited

abbrev Schema := List Field

/-- `_schema_signature` after the repair: fields IN ORDER with ids -/
def sig (s : Schema) : List (Nat × String × String × Bool) :=
  s.map fun f => (f.id, f.name, f.ty, f.required)

/-- `_schema_signature` as found: an unordered set of (name, type, required) — ids and order ignored -/
def sigOld (s : Schema) : List (String × String × Bool) :=
  s.map fun f => (f.name, f.ty, f.required)

def sameSet {α} [DecidableEq α] (a b : List α) : Bool :=
  a.all (fun x => b.contains x) && b.all (fun x => a.contains x)

def acceptsArg (table arg : Schema) : Bool := sig arg == sig table
def acceptsArgOld (table arg : Schema) : Bool := sameSet (sigOld arg) (sigOld table)

/-- column layout of a parquet file written with schema `s` (what `concat_tables` compares) -/
def layout (s : Schema) : List (String × String × Bool) := s.map fun f => (f.name, f.ty, f.required)
/-- the keys the column bounds of a file written with `s` are stored under, with the column each belongs to -/
def boundKeys (s : Schema) : List (Nat × String) := s.map fun f => (f.id, f.name)

/-! ## value classes -/

inductive PyT | none | bool | int | float | decimal | str | bytes | bytearray | date | datetime | time
deriving DecidableEq, Repr

structure Attrs where
  py : PyT
  finite : Bool := true        -- math.isfinite(value)        (numbers)
  whole : Bool := true         -- value == int(value)         (finite numbers)
  f32over : Bool := false      -- finite, yet float32(value) is ±inf
  timeOfDay : Bool := false    -- datetime with a non-zero time of day
deriving DecidableEq, Repr

/-- `_reject_lossy_value` -/
def guardRefuses (ty : String) (a : Attrs) : Bool :=
  if a.py == .none || a.py == .bool then false
  else if (ty == "int" || ty == "long") && (a.py == .float || a.py == .decimal) then
    !a.finite || !a.whole
  else if ty == "float" && (a.py == .int || a.py == .float) && a.finite then a.f32over
  else if ty == "date" && a.py == .datetime then a.timeOfDay
  else false

/-- what the value *is*, independent of the validator: would storing it in `ty` by pyarrow's conversion change it?
(the three conversions pyarrow performs silently) -/
def lossySpec (ty : String) (a : Attrs) : Bool :=
  ((ty == "int" || ty == "long") && (a.py == .float || a.py == .decimal) && a.finite && !a.whole)
  || (ty == "float" && (a.py == .int || a.py == .float) && a.finite && a.f32over)
  || (ty == "date" && a.py == .datetime && a.timeOfDay)

/-- attributes of a value class of the grid (`VALUES` in c11.py); `none` for an unknown class -/
def attrs (ty cls : String) : Option Attrs :=
  match cls with
  | "none" => some { py := .none }
  | "true" | "false" | "bool" => some { py := .bool }
  | "int1" | "zero" | "neg" | "over" | "huge" | "int" | "int-not-f32" | "int-not-f64" => some { py := .int }
  | "float1" | "float-integral" | "half" | "tenth" | "negzero" | "subnormal" | "big" | "float" =>
      some { py := .float, whole := cls == "float1" || cls == "float-integral" || cls == "negzero" }
  | "float-fractional" | "float-neg-fractional" => some { py := .float, whole := false }
  | "nan" | "inf" => some { py := .float, finite := false, whole := false }
  | "overflow" | "neg-overflow" | "near-overflow" => some { py := .float, f32over := true }
  | "decimal-integral" => some { py := .decimal }
  | "decimal-fractional" => some { py := .decimal, whole := false }
  | "str" | "ascii" | "unicode" | "nul" | "uuid" | "long" => some { py := .str }
  | "bytes" | "bytes-invalid-utf8" => some { py := .bytes }
  | "bytearray" => some { py := .bytearray }
  | "date" => some { py := .date }
  | "datetime-midnight" | "naive" | "aware-utc" | "aware-offset" => some { py := .datetime }
  | "datetime-with-time" | "datetime" => some { py := .datetime, timeOfDay := true }
  | "time" | "midnight" => some { py := .time }
  | "max" | "min" =>
      if ty == "int" || ty == "long" then some { py := .int }
      else if ty == "float" then some { py := .float }
      else if ty == "timestamp" then some { py := .datetime, timeOfDay := cls == "max" }
      else none
  | "empty" => if ty == "string" then some { py := .str } else if ty == "binary" then some { py := .bytes } else none
  | _ => none

inductive ArrowRes | reject | exact | lossy
deriving DecidableEq, Repr

/-- pyarrow's conversion of one value of class `cls` into a column of type `ty`, as measured (pyarrow 24):
the pairs it converts exactly, the pairs it converts by silently altering the value; everything else raises. -/
def arrowExact : List (String × String) := [
  ("boolean","true"),("boolean","false"),("boolean","none"),
  ("int","zero"),("int","neg"),("int","max"),("int","min"),("int","float-integral"),("int","none"),
  ("long","max"),("long","min"),("long","float-integral"),("long","decimal-integral"),("long","none"),
  ("float","half"),("float","tenth"),("float","inf"),("float","nan"),("float","int"),("float","bool"),("float","negzero"),
  ("float","subnormal"),("float","max"),("float","none"),
  ("double","tenth"),("double","big"),("double","inf"),("double","nan"),("double","subnormal"),("double","int"),("double","bool"),
  ("double","negzero"),("double","none"),
  ("string","ascii"),("string","empty"),("string","unicode"),("string","nul"),("string","bytes"),("string","long"),("string","none"),
  ("date","date"),("date","datetime-midnight"),("date","int"),("date","none"),
  ("timestamp","naive"),("timestamp","aware-utc"),("timestamp","aware-offset"),("timestamp","min"),("timestamp","max"),("timestamp","none"),
  ("time","time"),("time","midnight"),("time","none"),
  ("binary","bytes"),("binary","empty"),("binary","str"),("binary","bytearray"),("binary","none"),
  ("uuid","uuid"),("uuid","none")]

def arrowLossy : List (String × String) := [
  ("int","float-fractional"),("long","float-fractional"),("long","float-neg-fractional"),("long","decimal-fractional"),
  ("float","overflow"),("float","neg-overflow"),("float","near-overflow"),("date","datetime-with-time")]

def arrowRejects : List (String × String) := [
  ("boolean","int1"),("boolean","str"),("boolean","float1"),
  ("int","over"),("int","bool"),("int","str"),("int","nan"),("int","huge"),
  ("long","over"),("long","bool"),("long","str"),("long","inf"),
  ("float","str"),("float","int-not-f32"),("double","int-not-f64"),("double","str"),
  ("string","int"),("string","float"),("string","bool"),("string","bytes-invalid-utf8"),
  ("date","str"),("timestamp","date"),("timestamp","str"),("time","str"),("time","datetime"),("binary","int"),("uuid","int")]

/-- the whole grid the correspondence measures -/
def grid : List (String × String) := arrowExact ++ arrowLossy ++ arrowRejects

def arrow (ty cls : String) : ArrowRes :=
  if arrowExact.contains (ty, cls) then .exact
  else if arrowLossy.contains (ty, cls) then .lossy
  else .reject

/-- is a value of class `cls` accepted into a column of type `ty` by an append? (validator, then pyarrow) -/
def fits (ty cls : String) : Bool :=
  match attrs ty cls with
  | none => false
  | some a => !guardRefuses ty a && arrow ty cls != .reject

/-- the as-found library: pyarrow alone decides -/
def fitsOld (ty cls : String) : Bool := arrow ty cls != .reject

/-! ## records -/

/-- a record: field name ↦ value class (`"none"` for Python `None`) -/
abbrev Record := List (String × String)

def tyOf (s : Schema) (name : String) : Option String := (s.find? (·.name == name)).map (·.ty)

/-- `validate_records_strict` for one record, then pyarrow's conversion of each value -/
def recordOk (s : Schema) (r : Record) : Bool :=
  r.all (fun kv => s.any (·.name == kv.1))                                           -- no unknown field
  && s.all (fun f => !f.required || (match r.lookup f.name with | some c => c != "none" | none => false))   -- required present, non-None
  && r.all (fun kv => match tyOf s kv.1 with | some ty => fits ty kv.2 | none => false)

/-- what a scan gives back for an accepted record: every schema column, absent optional ones as `none` -/
def stored (s : Schema) (r : Record) : Record := s.map fun f => (f.name, (r.lookup f.name).getD "none")

/-! ## the table and the append step -/

structure DataFile where
  layout : List (String × String × Bool)
  boundKeys : List (Nat × String)
  rows : List Record
deriving DecidableEq, Repr

structure Table where
  schema : Schema
  files : List DataFile
deriving DecidableEq, Repr

inductive Err | schemaMismatch | badRecord
deriving DecidableEq, Repr

/-- `append_data`: resolve / validate the schema argument, validate the batch, write ONE data file with the resolved schema -/
def appendWith (accepts : Schema → Schema → Bool) (t : Table) (arg : Option Schema) (rs : List Record) : Except Err Table :=
  if arg.isSome && !accepts t.schema (arg.getD t.schema) then .error .schemaMismatch
  else if !rs.all (recordOk (arg.getD t.schema)) then .error .badRecord
  else .ok { t with files := t.files ++ [{ layout := layout (arg.getD t.schema), boundKeys := boundKeys (arg.getD t.schema),
                                            rows := rs.map (stored (arg.getD t.schema)) }] }

instance : DecidableEq (Except Err Table) := fun a b =>
  match a, b with
  | .ok x, .ok y => if h : x = y then isTrue (by rw [h]) else isFalse (by intro h'; cases h'; exact h rfl)
  | .error x, .error y => if h : x = y then isTrue (by rw [h]) else isFalse (by intro h'; cases h'; exact h rfl)
  | .ok _, .error _ => isFalse (by intro h; cases h)
  | .error _, .ok _ => isFalse (by intro h; cases h)

def append := appendWith acceptsArg
def appendOld := appendWith acceptsArgOld

/-- a full scan concatenates the files: it works only if every file has the table's column layout -/
def scanWorks (t : Table) : Bool := t.files.all (fun f => f.layout == layout t.schema)
/-- pruning on column `c` looks the bound up under the id the TABLE's schema gives `c`: sound only if each file stored it under the same key -/
def pruneSound (t : Table) : Bool := t.files.all (fun f => f.boundKeys == boundKeys t.schema)
def scanRows (t : Table) : List Record := t.files.flatMap (·.rows)


/-! ## pre-built files (`Transaction.append_files` / `_validate_file_schema`) -/

/-- the Arrow type a column type is written as: `_iceberg_type_to_arrow` (table regenerated from the source on every run;
unknown types default to string) -/
def arrowTypeOf (ty : String) : String := (DSV.Generated.typeMapping.lookup ty).getD "pa.string()"

/-- the Arrow schema of a table schema: what `create_arrow_schema` builds and what `concat_tables` compares
(name, Arrow type, nullable) in order -/
def arrowSchema (s : Schema) : List (String × String × Bool) := s.map fun f => (f.name, arrowTypeOf f.ty, !f.required)

/-- a parquet footer: (column name, Arrow type, nullable) in order -/
abbrev Footer := List (String × String × Bool)

/-- `_validate_file_schema`: `actual.equals(expected)` -/
def fileAccepts (table : Schema) (ft : Footer) : Bool := ft == arrowSchema table
/-- a relaxed check (names and types only) — what the property excludes -/
def fileAcceptsNoNull (table : Schema) (ft : Footer) : Bool := ft.map (fun c => (c.1, c.2.1)) == (arrowSchema table).map (fun c => (c.1, c.2.1))

structure PTable where
  schema : Schema
  footers : List Footer      -- Arrow schema of every data file of the table
deriving Repr

def appendFileWith (acc : Schema → Footer → Bool) (t : PTable) (ft : Footer) : Option PTable :=
  if acc t.schema ft then some { t with footers := t.footers ++ [ft] } else none

/-- a full scan concatenates the files' tables: all must have the table's Arrow schema -/
def concatWorks (t : PTable) : Bool := t.footers.all (· == arrowSchema t.schema)

/-- operations of a history: append with / without schema argument -/
structure Op where
  arg : Option Schema
  rows : List Record

def run (t : Table) (ops : List Op) : Table :=
  ops.foldl (fun t o => match append t o.arg o.rows with | .ok t' => t' | .error _ => t) t

end DSV.Append
