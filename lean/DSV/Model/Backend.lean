/-
M11 — storage-backend contract pieces (storage_backend.py, s3_consistency.py):
  * `S3RangeFile` seek / readinto / readall arithmetic,
  * `retry_with_backoff` as a loop over the outcomes of successive attempts,
  * `list_files` / `exists` key matching on S3 versus directory semantics locally.
-/
namespace DSV.Backend

/-! ### S3RangeFile -/

structure RF where
  size : Nat
  pos : Nat
deriving DecidableEq, Repr, Inhabited

inductive Whence where
  | set | cur | fromEnd | bad
deriving DecidableEq, Repr, Inhabited

/-- target position of `seek(offset, whence)` (io semantics); `none` = invalid whence -/
def seekTarget (size pos : Nat) (off : Int) : Whence → Option Int
  | .set => some off
  | .cur => some ((pos : Int) + off)
  | .fromEnd => some ((size : Int) + off)
  | .bad => none

/-- `seek(offset, whence)`; `none` = ValueError (invalid whence or negative position). Seeking past EOF is legal. -/
def RF.seek (f : RF) (off : Int) (w : Whence) : Option RF :=
  match seekTarget f.size f.pos off w with
  | none => none
  | some n => if n < 0 then none else some { f with pos := n.toNat }

/-- `readinto(b)` with `len(b) = want`: the ranged GET issued (first, last — inclusive, as in the Range header),
the number of bytes delivered, and the new state.  Contract assumed of S3: a ranged GET returns exactly the
requested bytes. -/
def RF.readinto (f : RF) (want : Nat) : RF × Option (Nat × Nat) × Nat :=
  if want = 0 ∨ f.pos ≥ f.size then (f, none, 0)
  else
    let last := min (f.pos + want) f.size - 1
    let n := last - f.pos + 1
    ({ f with pos := f.pos + n }, some (f.pos, last), n)

def RF.readall (f : RF) : RF × Option (Nat × Nat) × Nat :=
  if f.pos ≥ f.size then (f, none, 0)
  else
    let n := f.size - 1 - f.pos + 1
    ({ f with pos := f.pos + n }, some (f.pos, f.size - 1), n)

/-- Reference: an ordinary file of `size` bytes. A read of `want` bytes at `pos` delivers bytes
`[pos, pos + k)` with `k = min want (size - pos)` (truncated subtraction: 0 at or past EOF). -/
def specRead (size pos want : Nat) : Nat × Nat := (pos, min want (size - pos))

inductive Op where
  | seek (off : Int) (w : Whence)
  | read (want : Nat)
  | readall
  | tell
deriving DecidableEq, Repr, Inhabited

/-- observation of one step: error, or (position after, first byte delivered, byte count) -/
inductive Obs where
  | err
  | pos (p : Nat)
  | data (start len newPos : Nat)
deriving DecidableEq, Repr, Inhabited

def stepRF (f : RF) : Op → RF × Obs × Option (Nat × Nat)
  | .seek off w => match f.seek off w with
      | none => (f, .err, none)
      | some g => (g, .pos g.pos, none)
  | .read want => let (g, rng, n) := f.readinto want; (g, .data f.pos n g.pos, rng)
  | .readall => let (g, rng, n) := f.readall; (g, .data f.pos n g.pos, rng)
  | .tell => (f, .pos f.pos, none)

/-- the same program on the reference file -/
def stepSpec (size pos : Nat) : Op → Nat × Obs
  | .seek off w =>
      match seekTarget size pos off w with
      | none => (pos, .err)
      | some n => if n < 0 then (pos, .err) else (n.toNat, .pos n.toNat)
  | .read want => let (s, k) := specRead size pos want; (pos + k, .data s k (pos + k))
  | .readall => let k := size - pos; (pos + k, .data pos k (pos + k))
  | .tell => (pos, .pos pos)

def runRF (f : RF) : List Op → List (Obs × Option (Nat × Nat))
  | [] => []
  | o :: os => let (g, ob, rng) := stepRF f o; (ob, rng) :: runRF g os

def runSpec (size pos : Nat) : List Op → List Obs
  | [] => []
  | o :: os => let (p, ob) := stepSpec size pos o; ob :: runSpec size p os

/-! ### retry_with_backoff -/

inductive Attempt where
  | success (v : Nat)
  | transient        -- retryable exception that is not a permanent S3 error
  | permanent        -- retryable class but `is_permanent_s3_error`
  | nonRetryable     -- any other exception type
deriving DecidableEq, Repr, Inhabited

inductive Outcome where
  | ok (v : Nat)
  | raiseTransient
  | raisePermanent
  | raiseOther
  | unspecified      -- the environment script ran out of attempts
deriving DecidableEq, Repr, Inhabited

/-- `for attempt in range(max_retries + 1)`: `budget` = remaining iterations, `used` = attempts made so far. -/
def retryLoop : (budget : Nat) → (used : Nat) → List Attempt → Outcome × Nat
  | 0, used, _ => (.raiseTransient, used)       -- unreachable from `retry` (the last iteration raises itself)
  | _, used, [] => (.unspecified, used)
  | b+1, used, a :: rest =>
      match a with
      | .success v => (.ok v, used + 1)
      | .permanent => (.raisePermanent, used + 1)
      | .nonRetryable => (.raiseOther, used + 1)
      | .transient => if b = 0 then (.raiseTransient, used + 1) else retryLoop b (used + 1) rest

def retry (maxRetries : Nat) (as : List Attempt) : Outcome × Nat := retryLoop (maxRetries + 1) 0 as

/-! ### listing / existence -/

abbrev Name := List Char          -- one path component: non-empty, no '/'
abbrev Path := List Name

def joinPath : Path → List Char
  | [] => []
  | [n] => n
  | n :: rest => n ++ '/' :: joinPath rest

/-- S3 key of a table-relative path under a backend prefix (`_get_s3_key`). -/
def s3Key (pfx : List Char) (p : List Char) : List Char :=
  if pfx.isEmpty then p else pfx ++ '/' :: p

/-- Local `list_files(dir)`: files strictly below directory `dir` (os.walk of that directory). -/
def listLocal (files : List Path) (dir : Path) : List Path :=
  files.filter fun f => dir.isPrefixOf f && decide (dir.length < f.length)

/-- S3 `list_files(dir)`, unfixed: every key having `key(dir)` as a STRING prefix. -/
def listS3Raw (files : List Path) (dir : Path) : List Path :=
  files.filter fun f => (joinPath dir).isPrefixOf (joinPath f)

/-- S3 `list_files(dir)` after fix e5ac46d: list under `key(dir) + "/"` (directory semantics);
the table root itself (`dir = []`, key = backend prefix + "/") lists everything. -/
def listS3Dir (files : List Path) (dir : Path) : List Path :=
  if dir.isEmpty then files else
  files.filter fun f => (joinPath dir ++ ['/']).isPrefixOf (joinPath f)

end DSV.Backend
