/-
M3 (reader) — `Table._get_all_data_files` and the read APIs built on it (transaction.py).

The pointer's history is a timeline of versions (index = how many flips had happened); metadata files, manifest lists,
manifests and data files of a version that was ever current are immutable and present (C01/C05/C06/C09), so what a read
returns is determined by WHICH version each of its pointer reads saw.
-/
namespace DSV.Reader

structure Ver where
  hasSnapshot : Bool          -- current_snapshot_id set and resolvable
  rows : List Nat             -- row content of its current snapshot ([] when none)
deriving DecidableEq, Repr, Inhabited

inductive Res where
  | rows (r : List Nat)
  | raiseInconsistent         -- RuntimeError "table metadata is inconsistent"
deriving DecidableEq, Repr, Inhabited

/-- `_get_all_data_files`. `doubleRefresh = true` is the code as found: `current_snapshot()` refreshes, and when it finds
no snapshot a SECOND refresh decides between "empty table" and "inconsistent". `i ≤ j` are the timeline positions the two
pointer reads see. With `false` (repaired) everything is derived from the first read. -/
def getAllDataFiles (doubleRefresh : Bool) (tl : List Ver) (i j : Nat) : Option Res :=
  match tl[i]? with
  | none => none
  | some v1 =>
    if v1.hasSnapshot then some (.rows v1.rows)
    else if doubleRefresh then
      match tl[j]? with
      | none => none
      | some v2 => if v2.hasSnapshot then some .raiseInconsistent else some (.rows [])
    else some (.rows [])

/-- every read API applies a filter / projection / chunking to the rows of the files found: a function of them -/
def readApi (post : List Nat → List Nat) (doubleRefresh : Bool) (tl : List Ver) (i j : Nat) : Option Res :=
  match getAllDataFiles doubleRefresh tl i j with
  | some (.rows r) => some (.rows (post r))
  | other => other

/-- a well-formed timeline: a version without snapshot has no rows (the empty table) -/
def WfTimeline (tl : List Ver) : Prop := ∀ v ∈ tl, v.hasSnapshot = false → v.rows = []

end DSV.Reader
