/-
M6a — durability of the local write protocol (storage_backend.py:228-304 `write_file`, data_operations.py:278-328
`DataFileWriter.close`) under a power-loss model: a power loss keeps only file content that was fsync'ed and directory
entries that were persisted by an fsync of the directory.

Paths are numbers; each has the state of the inode it currently names plus whether the directory entry (path → that
inode) is durable.
-/
namespace DSV.Fs

structure PathSt where
  present : Bool          -- the path is visible now (page cache view)
  written : Bool          -- the inode it names has its full content in the page cache
  contentDurable : Bool   -- … and that content has been fsync'ed
  entryDurable : Bool     -- the directory entry path → this inode has been persisted (fsync of the directory)
  dir : Nat               -- directory containing the path
deriving DecidableEq, Repr, Inhabited

abbrev St := Nat → PathSt

def absent (d : Nat) : PathSt := ⟨false, false, false, false, d⟩

inductive Ev where
  | creat (p d : Nat)         -- open(O_CREAT) of a NEW file p in directory d
  | write (p : Nat)           -- the whole content is written (page cache only)
  | fsync (p : Nat)           -- fsync of the file
  | rename (src dst : Nat)    -- os.replace: dst now names src's inode; src disappears
  | fsyncDir (d : Nat)        -- fsync of directory d: every entry of d that is visible now becomes durable
  | unlink (p : Nat)
deriving DecidableEq, Repr, Inhabited

def set (s : St) (p : Nat) (v : PathSt) : St := fun x => if x = p then v else s x

def apply (s : St) : Ev → St
  | .creat p d => set s p ⟨true, false, false, false, d⟩
  | .write p => set s p { s p with written := true, contentDurable := false }
  | .fsync p => set s p { s p with contentDurable := (s p).written }
  | .rename src dst =>
      let v := s src
      set (set s dst { v with entryDurable := false, dir := (s dst).dir }) src (absent (s src).dir)
  | .fsyncDir d => fun x => if (s x).dir = d ∧ (s x).present then { s x with entryDurable := true } else s x
  | .unlink p => set s p (absent (s p).dir)

def run (s : St) (evs : List Ev) : St := evs.foldl apply s

/-- after a power loss the path is there with its full content -/
def Durable (s : St) (p : Nat) : Prop :=
  (s p).present = true ∧ (s p).written = true ∧ (s p).contentDurable = true ∧ (s p).entryDurable = true

instance (s : St) (p : Nat) : Decidable (Durable s p) := by unfold Durable; infer_instance

/-- the lowering of one atomic write of `p` (in directory `d`) through temp file `t` -/
def lowerWrite (t p d : Nat) : List Ev := [.creat t d, .write t, .fsync t, .rename t p, .fsyncDir d]

/-- one file of a commit: (temp id, final id, directory) -/
structure W where
  tmp : Nat
  fin : Nat
  dir : Nat
deriving DecidableEq, Repr, Inhabited

/-- the syscall trace of a commit: every referenced file written atomically, then the pointer -/
def commitTrace (files : List W) (hint : W) : List Ev :=
  files.flatMap (fun w => lowerWrite w.tmp w.fin w.dir) ++ lowerWrite hint.tmp hint.fin hint.dir

/-- judge of a (real or predicted) trace: at every prefix at or after the first rename onto `hint`, every path in
`reach` must be durable.  Returns the index of the first offending prefix, if any. -/
def judge (hint : Nat) (reach : List Nat) (s0 : St) (evs : List Ev) : Option Nat :=
  let rec go (s : St) (flipped : Bool) (i : Nat) : List Ev → Option Nat
    | [] => none
    | e :: rest =>
        let s' := apply s e
        let fl := flipped || (match e with | .rename _ dst => dst == hint | _ => false)
        if fl && !(reach.all fun p => decide (Durable s' p)) then some i else go s' fl (i + 1) rest
  go s0 false 0 evs

end DSV.Fs

namespace DSV.Fs

/-- a write whose file fsync FAILS (EIO / ENOSPC at flush time): the exception leaves `write_file` before the rename and the
temp file is removed -/
def lowerWriteFail (t d : Nat) : List Ev := [.creat t d, .write t, .unlink t]

/-- the syscall trace of a commit in which the fsync of the `k`-th referenced file fails: the files before it are written,
the failing one never reaches its rename, nothing after it (in particular not the pointer) is written -/
def commitTraceFail (files : List W) (k : Nat) : List Ev :=
  (files.take k).flatMap (fun w => lowerWrite w.tmp w.fin w.dir) ++
    (match files[k]? with | some w => lowerWriteFail w.tmp w.dir | none => [])

/-- does the event put a new inode under path `h`? -/
def flipsTo (h : Nat) : Ev → Bool
  | .rename _ dst => dst == h
  | _ => false

end DSV.Fs
