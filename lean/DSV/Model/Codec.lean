/-
Bound codec (file_manager.py `_encode_bound` / `_decode_bound`), at tag level.

A Python value is abstracted to its class flags (what `isinstance` answers — `bool` is an `int`,
`datetime` is a `date`) plus an opaque payload token.  The codec is an `isinstance` chain whose ORDER matters
exactly because of those subclass relations; the model keeps the order explicit.
-/
namespace DSV.Codec

inductive Cls where
  | bool | int | float | datetime | date | time | str | other
deriving DecidableEq, Repr, Inhabited

/-- `isinstance(value, c)` for a value whose exact class is `k`. -/
def isInstance (k : Cls) (c : Cls) : Bool :=
  k == c || (k == .bool && c == .int) || (k == .datetime && c == .date)

structure PyVal where
  cls : Cls
  payload : String      -- canonical text of the value (repr for numbers, isoformat for temporal types)
deriving DecidableEq, Repr, Inhabited

structure Enc where
  tag : String
  payload : String
deriving DecidableEq, Repr, Inhabited

/-- `_encode_bound`: the if/elif chain in source order. -/
def encode (v : PyVal) : Enc :=
  if isInstance v.cls .bool then ⟨"bool", v.payload⟩
  else if isInstance v.cls .int then ⟨"int", v.payload⟩
  else if isInstance v.cls .float then ⟨"float", v.payload⟩
  else if isInstance v.cls .datetime then ⟨"ts", v.payload⟩
  else if isInstance v.cls .date then ⟨"date", v.payload⟩
  else if isInstance v.cls .time then ⟨"time", v.payload⟩
  else if isInstance v.cls .str then ⟨"str", v.payload⟩
  else ⟨"str", v.payload⟩          -- str(value)

/-- `_decode_bound` on a tagged payload (the JSON envelope is exercised by the correspondence). -/
def decode (e : Enc) : PyVal :=
  if e.tag = "bool" then ⟨.bool, e.payload⟩
  else if e.tag = "int" then ⟨.int, e.payload⟩
  else if e.tag = "float" then ⟨.float, e.payload⟩
  else if e.tag = "ts" then ⟨.datetime, e.payload⟩
  else if e.tag = "date" then ⟨.date, e.payload⟩
  else if e.tag = "time" then ⟨.time, e.payload⟩
  else if e.tag = "str" then ⟨.str, e.payload⟩
  else ⟨.other, e.payload⟩

end DSV.Codec
