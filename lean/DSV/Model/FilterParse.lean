import DSV.Model.Filter
import DSV.Generated.Tables
/-
`parse_filter_dict` + `_parse_op` + the shape checks that surface in `_build_condition` / at evaluation:
what a condition value in a filter dict compiles to, or that it raises.  The operator tables are the ones
regenerated from /repo/src on every run (`DSV.Generated`).
-/
namespace DSV.FilterParse
open DSV.Filter

/-- The Python value in operand position. -/
inductive PyVal where
  | scalar (v : V)            -- a number (or None → `V.null`)
  | seq (xs : List V)         -- list / tuple of numbers / None
  | otherType                 -- str, dict, bool, … : a type the column cannot be compared with
deriving Repr, Inhabited

/-- First element of a 2-tuple condition. -/
inductive OpTok where
  | str (s : String)
  | nonStr                    -- hashable non-string (int, None, …): `mapping.get` → None → ValueError
  | unhashable                -- list, dict: `mapping.get` → TypeError
deriving Repr, Inhabited

inductive PyCond where
  | none                              -- {"c": None}
  | plain (v : PyVal)                 -- anything that is not a 2-tuple: equality with that value
  | tuple2 (op : OpTok) (v : PyVal)
deriving Repr, Inhabited

def denote (name : String) : Option Op :=
  match name with
  | "EQ" => some .eq | "NE" => some .ne | "LT" => some .lt | "LE" => some .le | "GT" => some .gt | "GE" => some .ge
  | "IN" => some .isIn | "NOT_IN" => some .notIn | "IS_NULL" => some .isNull | "IS_NOT_NULL" => some .isNotNull
  | _ => Option.none

def isCmp : Op → Bool
  | .eq | .ne | .lt | .le | .gt | .ge => true
  | _ => false

def mk (col : Nat) (op : Op) (lit : V) (set : List V) : Expr := { col := col, op := op, lit := lit, set := set }

/-- `some es` = parses, builds and evaluates; `none` = raises somewhere on the way (never reinterpreted). -/
def compileWith (special ops : List (String × String)) (col : Nat) : PyCond → Option (List Expr)
  | .none => Option.none
  | .plain (.scalar v) => if v == V.null then Option.none else some [mk col .eq v []]
  | .plain _ => Option.none
  | .tuple2 (.str s) val =>
      let l := s.toLower
      match special.lookup l with
      | some "BETWEEN" =>
          match val with
          | .seq [a, b] => some [mk col .ge a [], mk col .le b []]
          | _ => Option.none
      | some "IS_NULL" => some [mk col .isNull .null []]
      | some "IS_NOT_NULL" => some [mk col .isNotNull .null []]
      | some _ => Option.none
      | Option.none =>
          match (ops.lookup l).bind denote with
          | Option.none => Option.none
          | some op =>
              if isCmp op then
                match val with
                | .scalar v => some [mk col op v []]
                | _ => Option.none
              else if op == .isIn || op == .notIn then
                match val with
                | .seq xs => some [mk col op .null xs]
                | _ => Option.none
              else Option.none
  | .tuple2 _ _ => Option.none

def compile := compileWith DSV.Generated.specialSpellings DSV.Generated.opTable

end DSV.FilterParse
