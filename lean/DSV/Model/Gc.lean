/-
M5 — garbage collector path handling and delete decision (garbage_collector.py).
Paths are `List Char` (proof-friendly); the harness percent-encodes real strings.
-/
namespace DSV.Gc

abbrev Str := List Char

def lstripSlash (p : Str) : Str := p.dropWhile (· == '/')

/-- `_normalize_path` as found: strips the table location as a STRING prefix, then leading slashes. -/
def normalizeOld (tp p : Str) : Str :=
  lstripSlash (if tp.isPrefixOf p then p.drop tp.length else p)

def rstripSlash (p : Str) : Str := (p.reverse.dropWhile (· == '/')).reverse

/-- first path component of an absolute path `/a/b…` (Python `path.split("/")[1]`) -/
def firstComponent (p : Str) : Str :=
  match p with
  | '/' :: rest => rest.takeWhile (· != '/')
  | _ => []

def isAbs (p : Str) : Bool := match p with | '/' :: _ => true | _ => false

def dataS : Str := ['d', 'a', 't', 'a']
def metadataS : Str := ['m', 'e', 't', 'a', 'd', 'a', 't', 'a']

/-- `_normalize_path` after the fix: every manifest / listing / marker path is table-relative ('data/x', '/data/x');
only a true absolute path under an ABSOLUTE table root (given or canonical) has the root stripped — mirrors the read path. -/
def normalize (tp real p : Str) : Str :=
  if isAbs p && !(firstComponent p == dataS || firstComponent p == metadataS) then
    let try1 (root : Str) : Option Str :=
      let r := rstripSlash root ++ ['/']
      if isAbs root && r.isPrefixOf p then some (lstripSlash (p.drop r.length)) else none
    match try1 tp with
    | some x => x
    | none => match try1 real with
      | some x => x
      | none => lstripSlash p
  else lstripSlash p

/-- `norm_path == ".." or norm_path.startswith("../")` -/
def escapes (n : Str) : Bool := n == ['.', '.'] || (['.', '.', '/']).isPrefixOf n

/-- `_gc_prefix`: which listed files are deleted.  `listing` holds table-relative paths as the backend returns them;
`keep` is the union of reachable and marker-protected paths as the collector normalised them;
`old f` = file older than the grace period.  `none` = abort (a listed path escapes the root). -/
def gcPrefix (norm : Str → Str) (keep : List Str) (old : Str → Bool) (listing : List Str) : Option (List Str) :=
  if listing.any (fun f => escapes (norm f)) then none
  else some (listing.filter fun f => !(keep.contains (norm f)) && old f)

/-- `_marker_target`: payload `some (some t)` = readable JSON with a non-empty string `file_path`;
`some none` = readable but no usable field; `none` = unreadable / unparseable. -/
def markerTarget (norm : Str → Str) (basenameNoExt : Str) (payload : Option (Option Str)) : Str :=
  match payload with
  | some (some t) => norm t
  | _ => dataS ++ '/' :: basenameNoExt

/-! ### which listed file a manifest entry / marker payload refers to (`_referenced_path`, repair 8435446) -/

/-- `str.split("/")` -/
def splitSlash : Str → List Str
  | [] => [[]]
  | c :: rest =>
      match splitSlash rest with
      | [] => [[c]]
      | x :: xs => if c = '/' then [] :: x :: xs else (c :: x) :: xs

/-- `posixpath.normpath` on a RELATIVE path, as components (`acc` reversed): '' and '.' vanish, '..' pops a real component and is kept
when there is none to pop -/
def normRel (acc : List Str) : List Str → List Str
  | [] => acc.reverse
  | c :: rest =>
      if c = [] ∨ c = ['.'] then normRel acc rest
      else if c = ['.', '.'] then
        (match acc with
         | [] => normRel [['.', '.']] rest
         | a :: as => if a = ['.', '.'] then normRel (['.', '.'] :: acc) rest else normRel as rest)
      else normRel (c :: acc) rest

def canonRel (p : Str) : Str :=
  match normRel [] (splitSlash p) with
  | [] => ['.']
  | cs => (cs.flatMap fun c => '/' :: c).drop 1

/-- local backend: spellings are resolved by the filesystem, so references are compared by the file they NAME; object storage: keys
are literal, the spelling IS the key -/
def referenced (localBackend : Bool) (tp real p : Str) : Str :=
  let n := normalize tp real p
  if localBackend && n != [] then canonRel n else n

end DSV.Gc
