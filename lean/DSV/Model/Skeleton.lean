/-
Protocol skeletons — the bridge between the call skeletons the translator `harness/gen_skeleton.py` extracts from the CURRENT
source (DSV/Generated/Skeleton.lean, regenerated on every run) and the step vocabularies of the hand-written models.

`project voc evs` keeps the events a vocabulary names and renames them to the model's step names; the theorems in
DSV/Props/*.lean state that the projected skeleton of the source IS the step order the model's transition system forces
(Occ: acquire → validate → writeMeta → fence → flip → release; GcRace: markers before metadata; GcRun: every read and
listing before the first delete; Fs: creat → write → fsync → rename → fsyncDir; Marker: marker before the file).
Core-only, executable.
-/
import DSV.Model.Fs
import DSV.Model.Occ

namespace DSV.Skel

def project (voc : List (String × String)) (evs : List String) : List String :=
  evs.filterMap (fun e => (voc.find? (fun kv => kv.1 == e)).map (·.2))

/-- collapse runs of equal adjacent step names (the two branches of an `if` that both perform the same model step) -/
def dedupAdj : List String → List String
  | [] => []
  | [x] => [x]
  | x :: y :: rest => if x == y then dedupAdj (y :: rest) else x :: dedupAdj (y :: rest)

/-- index of the first occurrence -/
def firstIdx (a : String) (l : List String) : Option Nat := l.findIdx? (· == a)

/-- `a` occurs, `b` occurs, and the FIRST `b` comes after the LAST `a` — "all of a, then b" -/
def allBefore (a b : String) (l : List String) : Bool :=
  match firstIdx a l.reverse, firstIdx b l with
  | some ra, some ib => decide (l.length - 1 - ra < ib)
  | _, _ => false

/-- the part of a skeleton before its outermost failure handler -/
def mainPath (l : List String) : List String := l.takeWhile (· != "handler")

/-! ### Occ: `MetadataManager.commit` -/

def occVoc : List (String × String) := [
  ("lock_provider.acquire", "acquire"),
  ("_read_current_with_etag", "validate"),
  ("refresh", "validate"),
  ("_write_metadata_file", "writeMeta"),
  ("lock_provider.is_held", "fence"),
  ("_write_hint_at_commit_point", "flip"),
  ("_discard_uncommitted_metadata", "discard"),
  ("_release_lock_safely", "release")]

def occTag : Occ.Act → Option String
  | .acquire => some "acquire"
  | .validate => some "validate"
  | .writeMeta _ => some "writeMeta"
  | .fence _ => some "fence"
  | .flip => some "flip"
  | .release _ => some "release"
  | _ => none

/-- the successful path of one committer through `Occ.step`, in the only order the program counter admits -/
def occProtocol : List Occ.Act := [.acquire, .validate, .writeMeta 0, .fence true, .flip, .release false]

/-- reads of the pointer or of the current version: none may sit between validation and the conditional PUT -/
def pointerReads : List (String × String) := [
  ("storage.read_file", "read"), ("storage.read_file_with_etag", "read"), ("storage.get_etag", "read"),
  ("storage.read_json", "read"), ("storage.exists", "read"), ("storage.head", "read"),
  ("refresh", "read"), ("_read_version_hint", "read"), ("_current_version_info", "read"),
  ("_read_current_with_etag", "read"), ("_recover_version_from_files", "read")]

/-- `Occ.Cfg.singleRead` as the source has it: the commit-point routine performs no read of its own and the ETag'd read
reads the pointer exactly once -/
def singleReadOf (writeHint readCurrent : List String) : Bool :=
  (project pointerReads writeHint).isEmpty &&
  (readCurrent.filter (· == "storage.read_file_with_etag")).length == 1 &&
  !(readCurrent.contains "_read_version_hint" || readCurrent.contains "refresh" || readCurrent.contains "_current_version_info")

/-! ### Create: `MetadataManager.initialize_table` -/

def createVoc : List (String × String) := [
  ("lock_provider.acquire", "acquire"),
  ("_current_version_info", "check"),
  ("raise:TableExistsError", "exists"),
  ("_write_metadata_file", "writeMeta"),
  ("storage.write_file_cas(etag=None)", "flipIfAbsent"),
  ("storage.write_file", "flip"),
  ("_discard_uncommitted_metadata", "discard"),
  ("_release_lock_safely", "release")]

/-! ### Gc: `GarbageCollector.collect` / `_gc_prefix` -/

def gcVoc : List (String × String) := [
  ("_load_inflight_protection", "markers"),
  ("metadata_manager.refresh", "meta"),
  ("metadata_manager._read_version_hint", "hintCheck"),
  ("file_manager.read_manifest_list_file", "readList"),
  ("file_manager.read_manifest_file", "readManifest"),
  ("raise:GarbageCollectionAborted", "abort"),
  ("_list_prefix", "list"),
  ("_gc_prefix", "sweep"),
  ("storage.delete_file", "delete")]

/-- `GcRace.step`'s `markersFirst` parameter as the source has it -/
def markersFirstOf (collect : List String) : Bool :=
  allBefore "markers" "meta" (project gcVoc collect)

/-- nothing but sweeping after the first sweep: every read, listing and abort precedes the first delete -/
def sweepLast (collect : List String) : Bool :=
  let p := project gcVoc collect
  (p.dropWhile (· != "sweep")).all (· == "sweep") && p.contains "sweep" && !p.contains "delete"

/-! ### Fs: the atomic write -/

def fsVoc : List (String × String) := [
  ("tempfile.mkstemp", "creat"),
  ("_writer.close", "write"),
  ("os.write", "write"),
  ("os.open", "open"),
  ("os.fsync", "fsync"),
  ("os.replace", "rename"),
  ("os.remove", "unlink"),
  ("except:Exception", "handler")]

/-- an `fsync` after the rename is the directory's (the descriptor comes from `os.open(dir_path)`), one before it is the
file's; `open` itself is no event of the model -/
def lowerOf : Bool → List String → List String
  | _, [] => []
  | renamed, "open" :: rest => lowerOf renamed rest
  | renamed, "fsync" :: rest => (if renamed then "fsyncDir" else "fsync") :: lowerOf renamed rest
  | _, "rename" :: rest => "rename" :: lowerOf true rest
  | renamed, x :: rest => x :: lowerOf renamed rest

def evTag : Fs.Ev → String
  | .creat _ _ => "creat"
  | .write _ => "write"
  | .fsync _ => "fsync"
  | .rename _ _ => "rename"
  | .fsyncDir _ => "fsyncDir"
  | .unlink _ => "unlink"

/-! ### Transaction: markers, commit, outcome handlers -/

def txVoc : List (String × String) := [
  ("_register_inflight", "marker"),
  ("_register_inflight(prebuilt=True)", "marker"),
  ("file_manager.data_file_manager.write_data_file", "write"),
  ("file_manager.validate_file_exists", "exists"),
  ("file_manager.storage.persist_existing_file", "persist"),
  ("_validate_file_schema", "schema"),
  ("append_files", "queue"),
  ("_operations.append", "queue"),
  ("_commit_file_ops", "commit"),
  ("metadata_manager.commit", "commit"),
  ("_finish_committed", "finish"),
  ("except:ConcurrentModificationException", "onConflict"),
  ("except:AmbiguousCommitError", "onAmbiguous"),
  ("except:Exception", "onError"),
  ("except:BaseException", "onInterrupt"),
  ("_rollback", "rollbackDelete"),
  ("_rollback(delete_files=True)", "rollbackDelete"),
  ("_rollback(delete_files=False)", "rollbackKeep")]

def fileOpsVoc : List (String × String) := [
  ("file_manager.validate_data_files", "validate"),
  ("file_manager.create_manifest_file", "manifest"),
  ("file_manager.create_manifest_list_file", "manifestList"),
  ("snapshot_manager.create_snapshot", "commit"),
  ("metadata_manager.commit", "commit")]

/-! ### Reader: `Table._get_all_data_files` -/

/-- `Reader`'s `twoRefreshes` switch as the source has it: more than one pointer resolution inside one read -/
def twoRefreshesOf (getAll : List String) : Bool :=
  decide (1 < (getAll.filter (fun e => e == "metadata_manager.refresh" || e == "refresh" ||
                                      e == "metadata_manager._read_version_hint" || e == "metadata_manager._current_version_info")).length)

/-! ### Lock: the S3 lock's requests -/

def s3Voc : List (String × String) := [
  ("s3.get_object[Bucket,Key]", "get"),
  ("s3.head_object[Bucket,Key]", "head"),
  ("s3.delete_object[Bucket,Key]", "delete"),
  ("s3.delete_object[Bucket,IfMatch,Key]", "deleteIfMatch"),
  ("s3.put_object[Body,Bucket,IfNoneMatch,Key]", "createIfAbsent"),
  ("s3.put_object[Body,Bucket,IfMatch,Key]", "replaceIfMatch"),
  ("s3.put_object[Body,Bucket,Key]", "putUnconditional")]

/-- `Lock`'s `conditionalDelete` switch as the source has it: release removes the lock object with an If-Match delete only -/
def conditionalDeleteOf (release : List String) : Bool :=
  let p := project s3Voc release
  p.contains "deleteIfMatch" && !p.contains "delete"

end DSV.Skel
