/-
M3 (faults) — what `Transaction.commit` / `MetadataManager.commit` / `__exit__` do when ONE storage or lock call fails
or the call is interrupted (transaction.py:346-448, :603-680; metadata_manager.py commit / _write_hint_at_commit_point /
_release_lock_safely).  The position of the fault is abstracted to the phase it falls in; the model answers: how does the
call end, did the pointer flip take effect, were the transaction's own (data) files deleted.
-/
namespace DSV.CommitFault

inductive Backend where
  | localFs | s3cas | s3nocas
deriving DecidableEq, Repr, Inhabited

inductive Style where
  | ctx          -- `with table.new_transaction() as tx: … tx.commit()`  (on any exception `__exit__` calls rollback())
  | explicit     -- begin() … commit() without a context manager
deriving DecidableEq, Repr, Inhabited

inductive Point where
  | preAppend    -- inside append_data / delete_files / expire_snapshots, before commit() is entered
  | preCommit    -- inside commit(), before the pointer write (base read, manifests, lock, validation, metadata file, fence)
  | flip         -- the pointer write itself
  | release      -- after the pointer write: releasing the metadata lock
  | finish       -- `_finish_committed`: best-effort marker removal
deriving DecidableEq, Repr, Inhabited

inductive Kind where
  | exc          -- the call raises BEFORE its effect
  | excAfter     -- object storage only: the effect is applied, then the call raises
  | kbd          -- KeyboardInterrupt / SystemExit delivered at the call boundary (BaseException)
deriving DecidableEq, Repr, Inhabited

inductive Outcome where
  | ok | storageError | interrupt | ambiguous
deriving DecidableEq, Repr, Inhabited

structure Res where
  outcome : Outcome
  flipped : Bool         -- the pointer names the new version
  deleted : Bool         -- the transaction's own written files were deleted
deriving DecidableEq, Repr, Inhabited

/-- `catchBase = true`: commit() treats a BaseException like an ambiguous outcome (keep files, deactivate) — repaired;
`false`: the code as found (only `Exception` is handled, `__exit__` then rolls back with deletion). `written`: the
transaction has written data files of its own (appends). -/
def outcome (catchBase : Bool) (b : Backend) (st : Style) (pt : Point) (k : Kind) (written : Bool) : Res :=
  match pt, k with
  -- before commit(): nothing of commit()'s handling applies; only the context manager cleans up
  | .preAppend, .kbd => ⟨.interrupt, false, written && st == .ctx⟩
  | .preAppend, _ => ⟨.storageError, false, written && st == .ctx⟩
  -- inside commit(), before the commit point
  | .preCommit, .kbd => ⟨.interrupt, false, if catchBase then false else written && st == .ctx⟩
  | .preCommit, _ => ⟨.storageError, false, written⟩                       -- except Exception → _rollback()
  -- the pointer write
  | .flip, .exc => match b with
      | .localFs => ⟨.storageError, false, written⟩                          -- atomic_write_failures: clean failure
      | _ => ⟨.ambiguous, false, false⟩                                      -- AmbiguousCommitError: files kept
  | .flip, .excAfter => ⟨.ambiguous, true, false⟩
  | .flip, .kbd => ⟨.interrupt, false, if catchBase then false else written && st == .ctx⟩
  -- after the commit point
  | .release, .kbd => ⟨.interrupt, true, if catchBase then false else written && st == .ctx⟩
  | .release, _ => ⟨.ok, true, false⟩                                        -- _release_lock_safely never raises
  | .finish, .kbd => ⟨.interrupt, true, false⟩                               -- already marked committed: rollback() is a no-op
  | .finish, _ => ⟨.ok, true, false⟩                                         -- marker removal is best effort

/-! ### `Transaction.__exit__` (the with-block ends) -/

/-- what the body of the with-block ended with -/
inductive BodyEnd where
  | normal            -- the body ran to its end
  | exception         -- an `Exception` subclass propagates
  | interrupt         -- KeyboardInterrupt / SystemExit (a `BaseException` that is not an `Exception`) propagates
deriving DecidableEq, Repr, Inhabited

inductive ExitAct where
  | commit | rollback | nothing
deriving DecidableEq, Repr, Inhabited

/-- `__exit__`: an inactive transaction (already committed / rolled back in the body) is left alone; ANY exception type rolls
back; only a normal end commits what is still pending -/
def exitAction (e : BodyEnd) (active : Bool) : ExitAct :=
  if !active then .nothing else match e with
    | .normal => .commit
    | _ => .rollback

/-- the variant that tests `isinstance(exc, Exception)` — what the property excludes -/
def exitActionExceptionOnly (e : BodyEnd) (active : Bool) : ExitAct :=
  if !active then .nothing else match e with
    | .exception => .rollback
    | _ => .commit

/-! ### a Transaction object used again (`begin()` after a finished attempt) -/

/-- what a transaction remembers: files it wrote that a rollback would delete -/
structure TxMem where
  written : List Nat
deriving DecidableEq, Repr, Inhabited

/-- end of an attempt: committed / ambiguous keep the files on disk and — ambiguous — deliberately also in `written`;
a clean failure deletes `written` -/
inductive AttemptEnd where
  | committed | ambiguous | cleanFailure
deriving DecidableEq, Repr, Inhabited

/-- `begin()` resets the memory (`resetOnBegin = true`: the code; `false`: the variant relying on the previous end to clear it);
returns (memory after the attempt, files deleted by the attempt's rollback) -/
def attempt (resetOnBegin : Bool) (m : TxMem) (newFiles : List Nat) (e : AttemptEnd) : TxMem × List Nat :=
  let m0 : TxMem := if resetOnBegin then ⟨[]⟩ else m
  let m1 : TxMem := ⟨m0.written ++ newFiles⟩
  match e with
  | .committed => (⟨[]⟩, [])
  | .ambiguous => (m1, [])
  | .cleanFailure => (⟨[]⟩, m1.written)


end DSV.CommitFault
