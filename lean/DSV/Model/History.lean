import DSV.Model.Meta
/-!
# History model (C09): the metadata algebra (M1, `DSV.Meta`) composed with a write-once file plane

Mirrors `Transaction._commit_file_ops` (transaction.py): read the base snapshot's manifest list; for a delete, carry untouched
manifests BY REFERENCE, rewrite partially affected ones under a fresh name, drop emptied ones; add one manifest for appended
files; write a new manifest list under a fresh name; commit the snapshot (`Meta.addSnap`).  Expiry / snapshot deletion change
metadata only.  A failed commit leaves freshly named files behind (or cleans them up).  Collection deletes only what no retained
snapshot reaches and aborts when a retained snapshot cannot be resolved (garbage_collector.py, fail closed).

Names: data files, manifests and manifest lists are named from three counters (uuid freshness); nothing is ever written to an
existing name.  Rows are not modelled separately: a data file is write-once, so a snapshot's row content is determined by its
data-file list.  Ghost: `committed` = data-file list of every snapshot at its commit.  Core Lean only.
-/
namespace DSV.History
open DSV.Meta

structure Files where
  manifests : List (Nat × List Nat)     -- manifest name ↦ data-file names (its entries)
  mlists : List (Nat × List Nat)        -- manifest-list name ↦ manifest names
  data : List Nat                       -- data files present
deriving DecidableEq, Repr, Inhabited

structure St where
  md : Meta
  files : Files
  mlistOf : List (Nat × Nat)            -- snapshot id ↦ manifest-list name (Snapshot.manifest_list)
  nextD : Nat
  nextM : Nat
  nextL : Nat
  committed : List (Nat × List Nat)     -- ghost: snapshot id ↦ data files at commit
deriving Repr, Inhabited

def init : St :=
  { md := Meta.empty, files := ⟨[], [], []⟩, mlistOf := [], nextD := 0, nextM := 0, nextL := 0, committed := [] }

/-- manifests of a manifest list; `none` = list or one of its manifests missing -/
def manifestsOf (f : Files) (l : Nat) : Option (List (Nat × List Nat)) :=
  match f.mlists.lookup l with
  | none => none
  | some ms => ms.mapM fun m => (f.manifests.lookup m).map fun ds => (m, ds)

/-- data files of a manifest list, in manifest order; `none` = anything on the way (or a data file) missing -/
def filesOf (f : Files) (l : Nat) : Option (List Nat) :=
  match manifestsOf f l with
  | none => none
  | some ms =>
    let ds := (ms.map (·.2)).flatten
    if ds.all f.data.contains then some ds else none

/-- what an independent reader gets for snapshot `i`: its data-file list (hence rows); `none` = unreadable -/
def content (s : St) (i : Nat) : Option (List Nat) :=
  match s.mlistOf.lookup i with
  | none => none
  | some l => filesOf s.files l

/-- delete path over the base manifests: (next manifest name, manifests written, final manifest names) -/
def rewriteAll (deleted : List Nat) : List (Nat × List Nat) → Nat → List (Nat × List Nat) → List Nat → Nat × List (Nat × List Nat) × List Nat
  | [], nx, written, final => (nx, written, final)
  | m :: rest, nx, written, final =>
    let surv := m.2.filter fun d => !deleted.contains d
    if surv.length == m.2.length then rewriteAll deleted rest nx written (final ++ [m.1])
    else if surv.isEmpty then rewriteAll deleted rest nx written final
    else rewriteAll deleted rest (nx + 1) (written ++ [(nx, surv)]) (final ++ [nx])

/-- what one commit writes before the metadata commit: the new files and the new manifest list's name -/
structure Written where
  files : Files
  nextD : Nat
  nextM : Nat
  nextL : Nat
  mlist : Nat
  newData : List Nat
deriving Repr

/-- `append_data` × nApp, then `_commit_file_ops` up to the manifest list; `none` = base snapshot unreadable (commit aborts) -/
def writeFiles (s : St) (nApp : Nat) (deleted : List Nat) : Option Written :=
  let base : Option (List (Nat × List Nat)) :=
    match s.md.cur with
    | P.id c => (match s.mlistOf.lookup c with | none => none | some l => manifestsOf s.files l)
    | _ => some []
  match base with
  | none => none
  | some ms =>
    let newData := (List.range nApp).map (· + s.nextD)
    let (nm, written, final) := if deleted.isEmpty then (s.nextM, [], ms.map (·.1)) else rewriteAll deleted ms s.nextM [] []
    let (nm', written', final') := if nApp == 0 then (nm, written, final) else (nm + 1, written ++ [(nm, newData)], final ++ [nm])
    some { files := { manifests := s.files.manifests ++ written', mlists := s.files.mlists ++ [(s.nextL, final')],
                      data := s.files.data ++ newData },
           nextD := s.nextD + nApp, nextM := nm', nextL := s.nextL + 1, mlist := s.nextL, newData := newData }

inductive Op where
  | commit (now id : Nat) (cutoff : Option Nat) (nApp : Nat) (deleted : List Nat)   -- append / delete / both (+ expiry)
  | expire (cutoff : Nat)
  | delSnap (id : Nat)
  | failed (nApp : Nat) (deleted : List Nat) (cleaned : Bool)   -- files written, commit did not happen; rollback may clean
  | gc (cands : Files)                                          -- candidates old enough for the grace period
deriving Repr

/-- names some retained snapshot reaches; `none` = a retained snapshot cannot be resolved -/
def reach (s : St) : Option Files :=
  s.md.snaps.foldl (fun acc sn =>
    match acc, s.mlistOf.lookup sn.id with
    | some r, some l =>
      (match manifestsOf s.files l with
       | some ms => some { mlists := r.mlists ++ [(l, [])], manifests := r.manifests ++ ms, data := r.data ++ (ms.map (·.2)).flatten }
       | none => none)
    | _, _ => none) (some ⟨[], [], []⟩)

def collectWith (r : Option Files) (s : St) (cands : Files) : St :=
  match r with
  | none => s     -- fail closed
  | some r =>
    let dm := (cands.manifests.map (·.1)).filter fun m => !(r.manifests.map (·.1)).contains m
    let dl := (cands.mlists.map (·.1)).filter fun l => !(r.mlists.map (·.1)).contains l
    let dd := cands.data.filter fun d => !r.data.contains d
    { s with files := { manifests := s.files.manifests.filter (fun m => !dm.contains m.1),
                        mlists := s.files.mlists.filter (fun l => !dl.contains l.1),
                        data := s.files.data.filter (fun d => !dd.contains d) } }

def collect (s : St) (cands : Files) : St := collectWith (reach s) s cands

def step (s : St) : Op → St
  | .commit now id cutoff nApp deleted =>
    (match writeFiles s nApp deleted with
     | none => s
     | some w =>
       let s1 : St := { s with files := w.files, nextD := w.nextD, nextM := w.nextM, nextL := w.nextL }
       match addSnap now id cutoff s.md with
       | .error _ => s1                                   -- files stay behind as orphans
       | .ok md' =>
         { s1 with md := md', mlistOf := s.mlistOf ++ [(id, w.mlist)],
                   committed := s.committed ++ [(id, ((filesOf w.files w.mlist).getD []))] })
  | .expire c => { s with md := expireOnly c s.md }
  | .delSnap id => (match Meta.delSnap id s.md with | some md' => { s with md := md' } | none => s)
  | .failed nApp deleted cleaned =>
    (match writeFiles s nApp deleted with
     | none => s
     | some w =>
       if cleaned then { s with nextD := w.nextD, nextM := w.nextM, nextL := w.nextL }
       else { s with files := w.files, nextD := w.nextD, nextM := w.nextM, nextL := w.nextL })
  | .gc cands => collect s cands

def run (ops : List Op) : St := ops.foldl step init

/-- the files themselves (all of them) as a candidate set: a collection with grace 0 -/
def allFiles (s : St) : Files := s.files

/-! ### two wrong variants (used only by refutation theorems: what the property excludes) -/

/-- over-eager collection: only the CURRENT snapshot protects files -/
def reachCurOnly (s : St) : Option Files :=
  match s.md.cur with
  | P.id c =>
    (match s.mlistOf.lookup c with
     | some l => (match manifestsOf s.files l with
        | some ms => some { mlists := [(l, [])], manifests := ms, data := (ms.map (·.2)).flatten }
        | none => none)
     | none => none)
  | _ => some ⟨[], [], []⟩

def collectCurOnly (s : St) (cands : Files) : St := collectWith (reachCurOnly s) s cands

/-- in-place manifest mutation: a delete overwrites the affected manifests under their existing names -/
def deleteInPlace (s : St) (now id : Nat) (deleted : List Nat) : St :=
  match s.md.cur with
  | P.id c =>
    (match s.mlistOf.lookup c with
     | some l =>
       let ms' := s.files.manifests.map fun m => (m.1, m.2.filter fun d => !deleted.contains d)
       (match addSnap now id none s.md with
        | .ok md' => { s with md := md', files := { s.files with manifests := ms' }, mlistOf := s.mlistOf ++ [(id, l)],
                              committed := s.committed ++ [(id, (filesOf { s.files with manifests := ms' } l).getD [])] }
        | .error _ => s)
     | none => s)
  | _ => s

end DSV.History
