/-
M5 (race) — one collection run interleaved with any number of transactions (garbage_collector.py `collect` at the
granularity of its reads, transaction.py marker protocol).

A file is identified by a Nat. A transaction (actor = transaction id) registers a marker BEFORE writing each file,
flips the pointer (all its files become reachable at once), and removes its markers only AFTER the flip; before the
flip it may roll back (delete its own files and markers).  The collector takes a snapshot of the reachable set (metadata
read) and a snapshot of the protected set (marker load) — in the order `markersFirst` says — and then deletes listed
files that are in neither snapshot and older than the grace period.  Files written during the run are young
("the grace period exceeds the duration of the run").
-/
namespace DSV.GcRace

structure FileSt where
  exists_ : Bool
  marker : Bool
  owner : Nat           -- transaction that wrote it
  oldAtStart : Bool     -- born before the run AND older than grace (files born during the run are never old)
  bornInRun : Bool
deriving DecidableEq, Repr, Inhabited

inductive TxPc where
  | active | flipped | finished | rolledBack
deriving DecidableEq, Repr, Inhabited

inductive GcPc where
  | start
  | gotMeta (r : List Nat)                    -- reachable snapshot taken (metadata first order)
  | gotMarkers (p : List Nat)                 -- protected snapshot taken (markers first order)
  | deleting (r p : List Nat)                 -- both snapshots taken; sweeping
  | done
deriving DecidableEq, Repr, Inhabited

structure Sys where
  files : Nat → Option FileSt
  committed : List Nat          -- files reachable from the table (union over flipped transactions + initial)
  tx : Nat → TxPc
  gc : GcPc
  running : Bool                -- the collection run has started (files written from now on are young)
  deleted : List Nat            -- ghost: files the collector deleted
  used : List Nat               -- ghost: every file id a transaction ever registered (names are random and never reused)

inductive Act where
  | txMarker (f : Nat) (old : Bool)   -- register marker for a fresh file f; `old`: by the time of the run it is older than grace
                                      -- (only possible for files written before the run starts)
  | txWrite (f : Nat)           -- write file f (its marker exists)
  | txFlip                      -- commit point: every file of the transaction becomes reachable
  | txUnmark (f : Nat)          -- best-effort marker removal after the flip
  | txFinish
  | txRollback                  -- only before the flip: delete own files and markers
  | gcReadMeta
  | gcReadMarkers
  | gcDelete (f : Nat)          -- the collector considers listed file f
  | gcFinish
deriving DecidableEq, Repr, Inhabited

def setFile (s : Sys) (f : Nat) (v : Option FileSt) : Sys := { s with files := fun x => if x = f then v else s.files x }
def setTx (s : Sys) (a : Nat) (p : TxPc) : Sys := { s with tx := fun x => if x = a then p else s.tx x }

/-- files of transaction `a` that currently exist (a finite search bound `n` = number of file ids in use) -/
def ownedBy (s : Sys) (a : Nat) (f : Nat) : Bool :=
  match s.files f with | some st => st.owner == a | none => false

def step (markersFirst : Bool) (univ : List Nat) (s : Sys) (a : Nat) : Act → Option Sys
  | .txMarker f old =>
      match s.tx a, s.files f with
      | .active, none =>
          if s.deleted.contains f || s.used.contains f then none      -- file names are fresh
          else some { setFile s f (some { exists_ := false, marker := true, owner := a,
                                          oldAtStart := old && !s.running, bornInRun := s.running }) with used := f :: s.used }
      | _, _ => none
  | .txWrite f =>
      match s.tx a, s.files f with
      | .active, some st => if st.owner = a ∧ st.marker ∧ !st.exists_ then
                              some (setFile s f (some { st with exists_ := true, bornInRun := s.running })) else none
      | _, _ => none
  | .txFlip =>
      match s.tx a with
      | .active => some { setTx s a .flipped with committed := s.committed ++ univ.filter (fun f => ownedBy s a f && ((s.files f).map (·.exists_)).getD false) }
      | _ => none
  | .txUnmark f =>
      match s.tx a, s.files f with
      | .flipped, some st => if st.owner = a then some (setFile s f (some { st with marker := false })) else none
      | _, _ => none
  | .txFinish =>
      match s.tx a with
      | .flipped => some (setTx s a .finished)
      | _ => none
  | .txRollback =>
      match s.tx a with
      | .active => some { setTx s a .rolledBack with files := fun f => if ownedBy s a f then none else s.files f }
      | _ => none
  | .gcReadMeta =>
      match s.gc with
      | .start => if markersFirst then none else some { s with gc := .gotMeta s.committed, running := true }
      | .gotMarkers p => if markersFirst then some { s with gc := .deleting s.committed p } else none
      | _ => none
  | .gcReadMarkers =>
      let prot := univ.filter fun f => ((s.files f).map (·.marker)).getD false
      match s.gc with
      | .start => if markersFirst then some { s with gc := .gotMarkers prot, running := true } else none
      | .gotMeta r => if markersFirst then none else some { s with gc := .deleting r prot }
      | _ => none
  | .gcDelete f =>
      match s.gc, s.files f with
      | .deleting r p, some st =>
          if st.exists_ && !r.contains f && !p.contains f && st.oldAtStart && !st.bornInRun then
            some { setFile s f none with deleted := f :: s.deleted }
          else some s
      | _, _ => none
  | .gcFinish =>
      match s.gc with
      | .deleting _ _ => some { s with gc := .done }
      | _ => none

/-- `append_files` of a PRE-BUILT file: it already exists on storage and belongs to nobody; the transaction registers a marker for it
and owns it from now on (its age is what it is). Deliberately NOT an action of `step`: the safety theorem holds for transactions
whose files are fresh (registered before they are written); with adoption during a run it does not (`late_adoption_refuted`). -/
def adopt (s : Sys) (a f : Nat) : Option Sys :=
  match s.tx a, s.files f with
  | .active, some st => if st.owner = 0 ∧ st.exists_ then some (setFile s f (some { st with marker := true, owner := a })) else none
  | _, _ => none

/-- initial state: some committed files and some orphans on storage, any of them possibly old; nobody started -/
def init (files : Nat → Option FileSt) (committed : List Nat) : Sys :=
  { files := files, committed := committed, tx := fun _ => .active, gc := .start, running := false, deleted := [], used := [] }

/-- well-formed initial storage: pre-existing files belong to no running transaction (owner 0, transactions are ≥ 1),
carry no marker, and every committed file exists -/
def InitOk (files : Nat → Option FileSt) (committed : List Nat) (univ : List Nat) : Prop :=
  (∀ f st, files f = some st → st.owner = 0 ∧ st.marker = false ∧ st.exists_ = true ∧ st.bornInRun = false ∧ f ∈ univ) ∧
  (∀ f ∈ committed, ∃ st, files f = some st)

inductive Reach (mf : Bool) (u : List Nat) (files : Nat → Option FileSt) (committed : List Nat) : Sys → Prop where
  | init : Reach mf u files committed (init files committed)
  | step {s s' : Sys} (a : Nat) (act : Act) : Reach mf u files committed s → a ≥ 1 → (∀ f o, act = .txMarker f o → f ∈ u) →
      step mf u s a act = some s' → Reach mf u files committed s'

def run (mf : Bool) (u : List Nat) (s : Sys) : List (Nat × Act) → Option Sys
  | [] => some s
  | (a, act) :: rest => match step mf u s a act with | some s' => run mf u s' rest | none => none

end DSV.GcRace
