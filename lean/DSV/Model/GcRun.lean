/-
M5 (run) — `GarbageCollector.collect` as a decision function of what its storage calls return
(garbage_collector.py, after the fail-closed fixes; `Flags` re-enables the behaviours of the code as found so that
each repaired defect stays stated as a theorem about the old behaviour).

Files are (inData, name): `inData = true` lives under data/, `false` under metadata/manifests/.
-/
namespace DSV.GcRun

abbrev FileKey := Bool × Nat

structure Marker where
  name : Nat                 -- basename of the protected file = name of the marker
  target : FileKey           -- the file the payload names
  stat : Option Bool         -- `some ageOk`; `none` = get_modified_time raised (→ keeps protecting)
  payloadOk : Bool           -- payload readable and carrying a usable path
  delOk : Bool               -- deleting the (abandoned) marker succeeds
deriving DecidableEq, Repr, Inhabited

structure Listed where
  key : FileKey
  escapes : Bool             -- normalised path is '..' or starts with '../'
  statOk : Bool
  old : Bool                 -- older than the grace period
  delOk : Bool
deriving DecidableEq, Repr, Inhabited

structure Input where
  metaOk : Bool                          -- refresh() returned metadata (false = it raised)
  hintDangling : Bool                    -- the hint parses but its target is missing
  reachReads : List Bool                 -- outcome of reading each reachable manifest list / manifest (true = ok)
  reachable : List FileKey               -- data files / manifests / manifest lists reachable from ANY retained snapshot
  markers : Option (List Marker)         -- none = listing metadata/inflight raised
  dataListing : Option (List Listed)     -- none = listing raised
  manListing : Option (List Listed)
deriving Repr, Inhabited

structure Flags where
  swallowMarkerListing : Bool    -- as found: a failing marker listing reads as "no markers"
  fallbackDataOnly : Bool        -- as found: unreadable payload protects data/<name> only
  sweepBeforeListing : Bool      -- as found: data/ is swept before manifests/ is listed, escape check while deleting
  trustDanglingHint : Bool       -- as found: a dangling hint falls back to an older version silently
deriving DecidableEq, Repr, Inhabited

def fixed : Flags := ⟨false, false, false, false⟩

inductive Out where
  | returned (deleted : List FileKey)
  | raised (deleted : List FileKey)      -- GarbageCollectionAborted (or the error of refresh) after deleting `deleted`
deriving DecidableEq, Repr, Inhabited

def markerTargets (fl : Flags) (m : Marker) : List FileKey :=
  if m.payloadOk then [m.target]
  else if fl.fallbackDataOnly then [(true, m.name)] else [(true, m.name), (false, m.name)]

/-- `_load_inflight_protection` -/
def protectedSet (fl : Flags) (ms : List Marker) : List FileKey :=
  ms.flatMap fun m =>
    match m.stat with
    | some false => if m.delOk then [] else markerTargets fl m     -- abandoned marker: swept; if that fails keep protecting
    | _ => markerTargets fl m                                      -- fresh, or cannot stat: protect

/-- delete loop over one validated listing -/
def sweep (keep : List FileKey) (l : List Listed) : List FileKey :=
  (l.filter fun f => !keep.contains f.key && f.statOk && f.old && f.delOk).map (·.key)

/-- as-found `_gc_prefix`: escape check interleaved with deleting -/
def sweepChecking (keep : List FileKey) : List Listed → List FileKey × Bool    -- (deleted so far, aborted)
  | [] => ([], false)
  | f :: rest =>
      if f.escapes then ([], true)
      else
        let (d, ab) := sweepChecking keep rest
        ((if !keep.contains f.key && f.statOk && f.old && f.delOk then [f.key] else []) ++ d, ab)

def collect (fl : Flags) (i : Input) : Out :=
  if !i.metaOk then .raised []
  else if i.hintDangling && !fl.trustDanglingHint then .raised []
  else if i.reachReads.any (· == false) then .raised []
  else
    let prot : Option (List FileKey) := match i.markers with
      | some ms => some (protectedSet fl ms)
      | none => if fl.swallowMarkerListing then some [] else none
    match prot with
    | none => .raised []
    | some p =>
      let keep := i.reachable ++ p
      if fl.sweepBeforeListing then
        match i.dataListing with
        | none => .raised []
        | some dl =>
          let (d1, ab1) := sweepChecking keep dl
          if ab1 then .raised d1 else
          match i.manListing with
          | none => .raised d1
          | some ml =>
            let (d2, ab2) := sweepChecking keep ml
            if ab2 then .raised (d1 ++ d2) else .returned (d1 ++ d2)
      else
        match i.dataListing, i.manListing with
        | some dl, some ml =>
            if dl.any (·.escapes) || ml.any (·.escapes) then .raised []
            else .returned (sweep keep dl ++ sweep keep ml)
        | _, _ => .raised []

/-- the file(s) a marker was written for: the path its payload names, or — payload unreadable — the file carrying the
marker's name, in data/ or in the manifests directory -/
def trueTargets (m : Marker) : List FileKey :=
  if m.payloadOk then [m.target] else [(true, m.name), (false, m.name)]

/-- `f` is protected by a marker that is fresh, cannot be stat'ed, or is abandoned but could not be removed -/
def TrulyProtected (i : Input) (f : FileKey) : Prop :=
  ∃ ms, i.markers = some ms ∧ ∃ m ∈ ms, (m.stat ≠ some false ∨ m.delOk = false) ∧ f ∈ trueTargets m

end DSV.GcRun
