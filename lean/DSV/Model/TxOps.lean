/-!
# Queued operations of one transaction (the partition loop of `Transaction.commit`, transaction.py)

`append_files.extend(...)`, `deleted_paths.update(...)`, `expire_cutoff := max(...)` over the queued operations, then one of
three commit shapes.  Core Lean only.
-/
namespace DSV.TxOps

inductive Op where
  | appendFiles (files : List Nat)
  | deleteFiles (paths : List Nat)
  | expire (olderThan : Nat)
deriving DecidableEq, Repr, Inhabited

structure Parts where
  appends : List Nat            -- in queue order
  deletes : List Nat            -- a set in the code; kept as a list, compared as a set
  cutoff : Option Nat
deriving DecidableEq, Repr, Inhabited

def stepPart (p : Parts) : Op → Parts
  | .appendFiles fs => { p with appends := p.appends ++ fs }
  | .deleteFiles ps => { p with deletes := p.deletes ++ ps }
  | .expire c => { p with cutoff := some (match p.cutoff with | none => c | some e => max e c) }

/-- the partition loop -/
def partition (ops : List Op) : Parts := ops.foldl stepPart ⟨[], [], none⟩

inductive Shape where
  | fileOps          -- `_commit_file_ops` (one snapshot; the expiry, if any, rides along as a mutator)
  | metadataOnly     -- expire only: one metadata commit, no snapshot
deriving DecidableEq, Repr, Inhabited

/-- how the transaction is committed: ALWAYS one pointer move -/
def shape (p : Parts) : Shape := if p.appends.isEmpty && p.deletes.isEmpty then .metadataOnly else .fileOps

/-! the two slips the properties exclude: replacing the accumulator instead of extending it -/
def stepPartLastAppendOnly (p : Parts) : Op → Parts
  | .appendFiles fs => { p with appends := fs }
  | o => stepPart p o
def stepPartLastDeleteOnly (p : Parts) : Op → Parts
  | .deleteFiles ps => { p with deletes := ps }
  | o => stepPart p o

end DSV.TxOps
