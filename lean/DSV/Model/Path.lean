/-
M6b — path containment (storage_backend.py:167-212 `_resolve_path`, data_operations.py:399-442 `_get_arrow_path`),
lexical part: a path is a list of components; the root is a list of clean components (canonical, symlink-free).
Symlink resolution (`os.path.realpath`) is the kernel's / CPython's job and is exercised on a real filesystem by the check.
-/
namespace DSV.Path

abbrev Comp := List Char

/-- split on '/' (like `str.split("/")`) -/
def splitSlash : List Char → List Comp
  | [] => [[]]
  | c :: rest =>
      match splitSlash rest with
      | [] => [[c]]        -- unreachable: splitSlash never returns []
      | x :: xs => if c = '/' then [] :: x :: xs else (c :: x) :: xs

def lstripSlash (p : List Char) : List Char := p.dropWhile (· == '/')

def dot : Comp := ['.']
def dotdot : Comp := ['.', '.']

/-- `os.path.normpath` on an absolute path given as components: '' and '.' vanish, '..' pops (never above '/') -/
def norm (acc : List Comp) : List Comp → List Comp
  | [] => acc.reverse
  | c :: rest =>
      if c = [] ∨ c = dot then norm acc rest
      else if c = dotdot then norm acc.tail rest
      else norm (c :: acc) rest

def Clean (cs : List Comp) : Prop := ∀ c ∈ cs, c ≠ [] ∧ c ≠ dot ∧ c ≠ dotdot

/-- `_resolve_path` on a symlink-free tree: join (leading slashes stripped — absolute-looking inputs are table-relative),
canonicalise, component-wise containment; `none` = "Path traversal attempt" -/
def resolveLex (base : List Comp) (p : List Char) : Option (List Comp) :=
  let full := norm base.reverse (splitSlash (lstripSlash p))
  if base.isPrefixOf full then some full else none

/-- the naive containment check on strings -/
def joinStr (cs : List Comp) : List Char := cs.flatMap fun c => '/' :: c
def stringPrefixInside (base full : List Comp) : Bool := (joinStr base).isPrefixOf (joinStr full)

/-- `_get_arrow_path` (local): table-relative unless a true absolute path whose first component is not data/metadata,
which is honoured only inside the root. `realAbs` = the canonical components of that absolute path. -/
def tableRelative (p : List Char) : Bool :=
  let isAbs := p.head? = some '/'
  let first : Comp := if isAbs then ((splitSlash p).getD 1 []) else []
  !isAbs || first = "data".toList || first = "metadata".toList

def arrowPath (base : List Comp) (p : List Char) : Option (List Comp) :=
  if tableRelative p then resolveLex base p
  else
    let real := norm [] (splitSlash p)
    if base.isPrefixOf real then some real else none

/-- `S3StorageBackend._get_s3_key` (storage_backend.py): LITERAL — leading slashes stripped, the table prefix joined on. S3 keys are
compared byte for byte by the store, so nothing is normalised: `..` is an ordinary key segment and can never climb. -/
def s3Key (pref p : List Char) : List Char :=
  if pref = [] then lstripSlash p else pref ++ '/' :: lstripSlash p

/-- the variant the property excludes: `posixpath.normpath` over the JOINED key ("so that data//x and data/./x name the same
object"), which collapses `..` across the prefix boundary -/
def s3KeyNormalised (pref p : List Char) : List Char :=
  (joinStr (norm [] (splitSlash (pref ++ '/' :: lstripSlash p)))).drop 1

end DSV.Path
