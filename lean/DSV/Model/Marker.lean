/-
In-flight marker naming (transaction.py `_marker_path_for` / `_register_inflight`, `append_files`): which marker file protects
which path.  A file the transaction writes itself (unique name directly in `data/` or `metadata/manifests/`) is marked by its base
name; a PRE-BUILT file queued with `append_files` (and any file in a sub-directory, e.g. `data/region=eu/part-0.parquet`) also
carries a digest of the transaction's salt and its full table-relative path, so every (transaction, file) pair has a marker of its
own.  The digest function (SHA-256 of "<salt>:<path>", first 16 hex digits) is a PARAMETER — one per transaction; the theorems state
what they need from it as a hypothesis.
-/
namespace DSV.Marker

abbrev Str := List Char

def lstripSlash (p : Str) : Str := p.dropWhile (· == '/')

/-- `str.rpartition("/")`: (everything before the last '/', everything after it); no '/' → ("", p) -/
def rpartition (p : Str) : Str × Str :=
  let r := p.reverse
  let name := (r.takeWhile (· != '/')).reverse
  let rest := r.dropWhile (· != '/')
  (match rest with | [] => [] | _ :: before => before.reverse, name)

def dataDir : Str := "data".toList
def manifestsDir : Str := "metadata/manifests".toList

/-- marker file name (without the `metadata/inflight/` directory and the `.inflight` suffix) -/
def markerNameOf (digest : Str → Str) (prebuilt : Bool) (path : Str) : Str :=
  let rel := lstripSlash path
  let (parent, name) := rpartition rel
  if !prebuilt ∧ (parent = dataDir ∨ parent = manifestsDir) then name else digest rel ++ '-' :: name

/-- a file the transaction writes itself -/
def markerName (digest : Str → Str) (path : Str) : Str := markerNameOf digest false path

/-- a pre-built file queued with `append_files` -/
def markerNamePrebuilt (digest : Str → Str) (path : Str) : Str := markerNameOf digest true path

/-- the scheme as repaired second (0f909e5): a digest of the path alone, and only for files in sub-directories — two live
transactions queuing the SAME pre-built file share one marker -/
def markerNamePathOnly (pathDigest : Str → Str) (path : Str) : Str :=
  let rel := lstripSlash path
  let (parent, name) := rpartition rel
  if parent = dataDir ∨ parent = manifestsDir then name else pathDigest rel ++ '-' :: name

/-- the scheme as first repaired (c834a8f): base name only -/
def markerNameBasename (path : Str) : Str := (rpartition (lstripSlash path)).2

/-- `append_files`: a file gets a marker of its own unless THIS transaction already wrote a marker of that name -/
def register (name : Str → Str) (have_ : List Str) (paths : List Str) : List Str × List Str :=
  paths.foldl (fun (acc : List Str × List Str) p =>
    if acc.1.contains (name p) then acc else (acc.1 ++ [name p], acc.2 ++ [p])) (have_, [])

end DSV.Marker
