/-
M7 — filters, SQL reference semantics, Arrow expression semantics, bounds, pruning.
Mirrors src/datashard/filters.py (`_build_condition`, `to_pyarrow_compute_expression`,
`_file_may_match`) and data_operations.py `_compute_column_bounds`.

Values of one column are abstracted to `V`: NULL, NaN, or an element of a totally
ordered domain (here `Int`; strings, dates, timestamps are mapped order-isomorphically
by the correspondence harness).  Core Lean only (no Mathlib) so the driver links natively.
-/
namespace DSV.Filter

inductive V where
  | null
  | nan
  | val (a : Int)
deriving DecidableEq, Repr, Inhabited

inductive Op where
  | eq | ne | lt | le | gt | ge | isIn | notIn | isNull | isNotNull
deriving DecidableEq, Repr, Inhabited

/-- One parsed `FilterExpression`: column, operator, literal (comparison ops) or value set (in / not_in). -/
structure Expr where
  col : Nat
  op  : Op
  lit : V
  set : List V
deriving DecidableEq, Repr, Inhabited

abbrev Row := Nat → V

inductive Tri where
  | t | f | u
deriving DecidableEq, Repr, Inhabited

def Tri.not : Tri → Tri
  | .t => .f
  | .f => .t
  | .u => .u

def Tri.ofBool (b : Bool) : Tri := if b then .t else .f

/-- IEEE / Arrow comparison of two NON-NULL values (`nan` compares false except under `ne`). -/
def cmpNN (op : Op) : V → V → Bool
  | .val a, .val b =>
    match op with
    | .eq => a == b
    | .ne => a != b
    | .lt => decide (a < b)
    | .le => decide (a ≤ b)
    | .gt => decide (a > b)
    | .ge => decide (a ≥ b)
    | _ => false
  | _, _ => match op with
    | .ne => true
    | _ => false

/-- Membership of a non-null row value in a value set whose NULLs were dropped.
Arrow's `is_in` matches NaN against NaN; SQL's `=`-based IN does not — the two
agree whenever the set carries no NaN (hypothesis `NoNanInSet`). -/
def eqSql : V → V → Bool
  | .val a, .val b => a == b
  | _, _ => false

def eqArrowSet : V → V → Bool
  | .val a, .val b => a == b
  | .nan, .nan => true
  | _, _ => false

def memSql (x : V) (vs : List V) : Bool := vs.any (eqSql x)

def memArrow (x : V) (vs : List V) : Bool := vs.any (eqArrowSet x)

def dropNull (vs : List V) : List V := vs.filter (· != V.null)

/-- Reference semantics: SQL three-valued logic per row value.  NULLs in an in/not_in value set
are dropped first (the library's documented contract, DESIGN §7). -/
def evalSqlV (e : Expr) (x : V) : Tri :=
  match e.op with
  | .isNull => Tri.ofBool (x == V.null)
  | .isNotNull => Tri.ofBool (x != V.null)
  | .isIn => if x == V.null then .u else Tri.ofBool (memSql x (dropNull e.set))
  | .notIn => if x == V.null then .u else Tri.ofBool (!memSql x (dropNull e.set))
  | op => if x == V.null || e.lit == V.null then .u else Tri.ofBool (cmpNN op x e.lit)

def evalSql (e : Expr) (r : Row) : Tri := evalSqlV e (r e.col)

/-- Conjunction of expressions under 3VL: true iff every conjunct is true. -/
def evalSqlAll (es : List Expr) (r : Row) : Bool := es.all fun e => evalSql e r == Tri.t

/-- Arrow compute-expression AST (the fragment `_build_condition` produces). -/
inductive AExp where
  | cmp (op : Op) (col : Nat) (lit : V)
  | isIn (col : Nat) (vs : List V)
  | valid (col : Nat)
  | isNull (col : Nat)
  | not (e : AExp)
  | and (a b : AExp)
  | const (b : Bool)
deriving Repr, Inhabited

def kand : Option Bool → Option Bool → Option Bool
  | some false, _ => some false
  | _, some false => some false
  | some true, some true => some true
  | _, _ => none

/-- Kleene evaluation as done by Arrow; `Table.filter` keeps rows evaluating to `some true`. -/
def evalArrow : AExp → Row → Option Bool
  | .cmp op c lit, r =>
      if r c == V.null || lit == V.null then none else some (cmpNN op (r c) lit)
  | .isIn c vs, r => if r c == V.null then some false else some (memArrow (r c) vs)
  | .valid c, r => some (r c != V.null)
  | .isNull c, r => some (r c == V.null)
  | .not e, r => (evalArrow e r).map (!·)
  | .and a b, r => kand (evalArrow a r) (evalArrow b r)
  | .const b, _ => some b

/-- `_build_condition`. -/
def build (e : Expr) : AExp :=
  match e.op with
  | .isNull => .isNull e.col
  | .isNotNull => .valid e.col
  | .isIn =>
      let vs := dropNull e.set
      if vs.isEmpty then .const false else .and (.isIn e.col vs) (.valid e.col)
  | .notIn =>
      let vs := dropNull e.set
      if vs.isEmpty then .valid e.col else .and (.not (.isIn e.col vs)) (.valid e.col)
  | op => .cmp op e.col e.lit

/-- `to_pyarrow_compute_expression`: left fold with `&`. -/
def buildAll : List Expr → Option AExp
  | [] => none
  | e :: es => some (es.foldl (fun acc x => AExp.and acc (build x)) (build e))

def keeps (a : AExp) (r : Row) : Bool := evalArrow a r == some true

def keepsAll (es : List Expr) (r : Row) : Bool :=
  match buildAll es with
  | none => true
  | some a => keeps a r

/-! ### Bounds and pruning -/

inductive Bounds where
  | none                    -- no non-null value: pc.min → None, no bound stored
  | nanB                    -- only NaN (and NULL): pc.min = pc.max = NaN
  | range (lo hi : Int)
deriving DecidableEq, Repr, Inhabited

def vals (xs : List V) : List Int := xs.filterMap fun | .val a => some a | _ => Option.none

def listMin : List Int → Option Int
  | [] => Option.none
  | a :: as => some (as.foldl min a)

def listMax : List Int → Option Int
  | [] => Option.none
  | a :: as => some (as.foldl max a)

/-- `_compute_column_bounds` on one column: a column holding NaN gets NO bounds (fix 6a270b4: `pc.min`/`pc.max`
skip NaN, so bounds over the rest would not cover the NaN rows); otherwise min/max over the non-NULL values.
`Bounds.nanB` (NaN stored as a bound) can still arrive from manifests written before the fix and stays modelled. -/
def bounds (xs : List V) : Bounds :=
  if xs.any (· == V.nan) then .none else
  match listMin (vals xs), listMax (vals xs) with
  | some lo, some hi => .range lo hi
  | _, _ => .none

/-- one step of `any(file_min <= v <= file_max for v in expr.value)`: a NULL element raises TypeError,
which `_file_may_match` turns into `continue` (file kept). -/
def inRangeOrNull (lo hi : Int) : V → Bool
  | .val v => decide (lo ≤ v) && decide (v ≤ hi)
  | .null => true
  | .nan => false

/-- `_file_may_match` for one expression against the bounds of its column.
`true` = keep the file.  A `TypeError` (NULL literal / NULL set element) means `continue`. -/
def mayMatch1 (b : Bounds) (e : Expr) : Bool :=
  match b with
  | .none => true
  | .nanB =>
      match e.op with
      | .isIn => e.set.isEmpty || e.set.any (· == V.null)   -- all comparisons with NaN bounds are False
      | _ => true
  | .range lo hi =>
      match e.op with
      | .eq => match e.lit with
          | .val v => !(decide (v < lo) || decide (v > hi))
          | _ => true
      | .ne => match e.lit with
          | .val v => !(lo == hi && hi == v)
          | _ => true
      | .gt => match e.lit with
          | .val v => !(decide (hi ≤ v))
          | _ => true
      | .ge => match e.lit with
          | .val v => !(decide (hi < v))
          | _ => true
      | .lt => match e.lit with
          | .val v => !(decide (lo ≥ v))
          | _ => true
      | .le => match e.lit with
          | .val v => !(decide (lo > v))
          | _ => true
      | .isIn =>
          e.set.isEmpty || e.set.any (inRangeOrNull lo hi)
      | _ => true

/-- Python evaluates `any(...)` lazily, so a NULL element only raises if no earlier element matched;
either way the file is kept.  This is the order-sensitive reading, proved equal to `mayMatch1`. -/
def inWalk (lo hi : Int) : List V → Bool
  | [] => false
  | .val v :: rest => if decide (lo ≤ v) && decide (v ≤ hi) then true else inWalk lo hi rest
  | .null :: _ => true
  | .nan :: rest => inWalk lo hi rest

def mayMatch (colBounds : Nat → Bounds) (es : List Expr) : Bool :=
  es.all fun e => mayMatch1 (colBounds e.col) e


/-! ### Scan APIs (transaction.py `_scan_table`, `scan_batches`, `iter_records`, `_read_datafile_table`)

A table is a list of files; a file is a list of rows; a row is a function from column index to `V`
(projection is a `List.map` after filtering and commutes with everything below). -/

abbrev File := List Row

/-- `pf.iter_batches(batch_size=n)`: consecutive chunks of at most `n` rows (fuel = length). -/
def chunksAux (n : Nat) : Nat → List α → List (List α)
  | 0, _ => []
  | _, [] => []
  | fuel+1, xs => xs.take (n+1) :: chunksAux n fuel (xs.drop (n+1))

/-- batch size `n+1` (a zero batch size is rejected by pyarrow). -/
def chunks (n : Nat) (xs : List α) : List (List α) := chunksAux n xs.length xs

/-- checksum-verified path and sequential / parallel `scan`: read whole file, filter, concat in file order
(`executor.map` preserves order). -/
def scanApi (es : List Expr) (files : List File) : List Row :=
  (files.map fun f => f.filter (keepsAll es)).flatten

/-- `scan_batches(batch_size = n+1)`: per file, per batch, filter; empty batches are not yielded. -/
def batchesApi (n : Nat) (es : List Expr) (files : List File) : List (List Row) :=
  (files.flatMap fun f => (chunks n f).map fun b => b.filter (keepsAll es)).filter (fun b => !b.isEmpty)

/-- `iter_records`: flatten of `scan_batches(batch_size=1000)`. -/
def recordsApi (es : List Expr) (files : List File) : List Row := (batchesApi 999 es files).flatten

/-- checksum-off path of `_read_datafile_table` (after fix c29e5f1): read the whole file, filter, project —
the same pipeline as the verified path. -/
def nochecksumApi (es : List Expr) (files : List File) : List Row :=
  (files.map fun f => f.filter (keepsAll es)).flatten

/-! #### The rejected design: predicate pushdown into the parquet reader (`pq.read_table(filters=…)`)

Kept as a model of what the code did before c29e5f1, so that the reason it must not come back is a theorem
(`pushdown_agrees_refuted`) rather than a comment. -/

/-- Row-group statistics as parquet stores them: min/max over non-NULL, non-NaN values. -/
def rgStatsV (xs : List V) : Bounds :=
  match listMin (vals xs), listMax (vals xs) with
  | some lo, some hi => .range lo hi
  | _, _ => .none

def rgStats (c : Nat) (f : File) : Bounds := rgStatsV (f.map (· c))

/-- What statistics-based row-group skipping concludes from `[lo, hi]` alone (NaN-blind):
`true` = the row group cannot match and is skipped. -/
def pushSkip1 (b : Bounds) (e : Expr) : Bool :=
  match b with
  | .range lo hi =>
      match e.op with
      | .eq => match e.lit with | .val v => decide (v < lo) || decide (v > hi) | _ => false
      | .ne => match e.lit with | .val v => lo == hi && hi == v | _ => false
      | .gt => match e.lit with | .val v => decide (hi ≤ v) | _ => false
      | .ge => match e.lit with | .val v => decide (hi < v) | _ => false
      | .lt => match e.lit with | .val v => decide (lo ≥ v) | _ => false
      | .le => match e.lit with | .val v => decide (lo > v) | _ => false
      | .notIn => lo == hi && (dropNull e.set).any (· == V.val lo)
      | _ => false
  | _ => false

def pushdownApi (es : List Expr) (files : List File) : List Row :=
  (files.map fun f =>
    if es.any (fun e => pushSkip1 (rgStats e.col f) e) then [] else f.filter (keepsAll es)).flatten

end DSV.Filter
