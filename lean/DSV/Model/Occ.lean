/-
M3 (core) — the optimistic-concurrency commit protocol of `MetadataManager.commit` driven by `Transaction.commit` /
`SnapshotManager.delete_snapshot`, as a transition system over any number of committers.

One actor = one transaction (actor id = transaction id) that retries after a clean conflict.
Metadata files are immutable and uniquely named, so a file is identified by its `fid`; the version hint names one file
and carries an ETag that changes on every write (S3) — on the local backend the ETag is simply ignored.

`Cfg` selects the backend / lock and whether the two repairs are in place, so that the same model states both the
theorems about the repaired code and the refutations of the code as found.
-/
namespace DSV.Occ

/-- content of one metadata file -/
structure Ver where
  fid : Nat               -- unique file identity (vN-<nonce>.metadata.json)
  cur : Nat               -- current_snapshot_id (0 = none)
  lu : Nat                -- last_updated_ms
  applied : List Nat      -- ghost: ids of the transactions applied, in order = the abstract table state
deriving DecidableEq, Repr, Inhabited

structure Hint where
  fid : Nat
  etag : Nat
deriving DecidableEq, Repr, Inhabited

inductive Kind where
  | snap          -- commit that creates a snapshot (fresh current_snapshot_id): append / delete files
  | metaOnly      -- metadata-only commit (expire_snapshots alone, delete_snapshot of a non-current snapshot, properties)
deriving DecidableEq, Repr, Inhabited

structure Cfg where
  cas : Bool              -- pointer flip is a conditional PUT keyed to the hint's ETag (S3 with conditional writes)
  exclusive : Bool        -- the distributed lock really excludes (local flock); false = a lock granting everyone
  strictStamp : Bool      -- last_updated_ms := max(now, current.last_updated_ms + 1)   [false: := now, the code as found]
  singleRead : Bool       -- CAS: the ETag comes from the same hint read that validation used [false: a second read, as found]
deriving DecidableEq, Repr, Inhabited

inductive Pc where
  | idle
  | based (b : Ver)                               -- Transaction.commit: refresh() returned base b
  | locked (b : Ver)                              -- thread lock + distributed lock acquired
  | validated (b c : Ver) (e : Option Nat)        -- validation read returned c with b's stamp; e = ETag if already known
  | wrote (b n : Ver) (e : Option Nat)            -- new metadata file n written (derived from b)
  | fenced (b n : Ver) (e : Option Nat)           -- is_held() said yes
  | flipped (n : Ver)                             -- commit point passed
  | conflict                                      -- ConcurrentModificationException inside commit(): release, then retry
  | done (ok : Bool)
deriving DecidableEq, Repr, Inhabited

structure Flip where
  actor : Nat
  base : Nat          -- fid of the base the new version was derived from
  replaced : Nat      -- fid the hint named immediately before the flip
  new : Nat
deriving DecidableEq, Repr, Inhabited

structure Sys where
  files : List Ver
  hint : Hint
  nextFid : Nat
  nextEtag : Nat
  nextCur : Nat
  now : Nat
  holder : Option Nat
  pc : Nat → Pc
  kind : Nat → Kind
  flips : List Flip           -- ghost, newest first

def setPc (s : Sys) (a : Nat) (p : Pc) : Sys := { s with pc := fun x => if x = a then p else s.pc x }

def lookup (s : Sys) (f : Nat) : Option Ver := s.files.find? (·.fid == f)

/-- the version the hint names right now -/
def current (s : Sys) : Option Ver := lookup s s.hint.fid

inductive Act where
  | tick (d : Nat)            -- the clock advances by d ms (d may be 0: frozen / coarse clock)
  | readBase
  | acquire
  | validate
  | etagRead                  -- only in the two-read CAS variant
  | writeMeta (t : Nat)       -- t = the clock reading taken for last_updated_ms (any reading not ahead of the clock)
  | fence (held : Bool)       -- is_held(): always true under an exclusive lock; arbitrary otherwise
  | flip
  | release (retry : Bool)    -- after `flipped`: done true; after `conflict`: back to idle (retry) or done false
deriving DecidableEq, Repr, Inhabited

def releaseLock (s : Sys) (a : Nat) : Sys := if s.holder = some a then { s with holder := none } else s

/-- one step of actor `a`; `none` = the action is not enabled in this state -/
def step (cfg : Cfg) (s : Sys) (a : Nat) : Act → Option Sys
  | .tick d => some { s with now := s.now + d }
  | .readBase =>
      match s.pc a, current s with
      | .idle, some b => some (setPc s a (.based b))
      | _, _ => none
  | .acquire =>
      match s.pc a with
      | .based b =>
          if cfg.exclusive then
            (if s.holder = none then some { setPc s a (.locked b) with holder := some a } else none)
          else some (setPc s a (.locked b))
      | _ => none
  | .validate =>
      match s.pc a, current s with
      | .locked b, some c =>
          if c.cur = b.cur ∧ c.lu = b.lu then
            some (setPc s a (.validated b c (if cfg.cas && cfg.singleRead then some s.hint.etag else none)))
          else some (setPc s a .conflict)
      | _, _ => none
  | .etagRead =>
      match s.pc a with
      | .validated b c none => if cfg.cas && !cfg.singleRead then some (setPc s a (.validated b c (some s.hint.etag))) else none
      | _ => none
  | .writeMeta t =>
      match s.pc a with
      | .validated b c e =>
          if (cfg.cas && e.isNone) || decide (s.now < t) then none else
          let n : Ver := { fid := s.nextFid,
                           cur := (match s.kind a with | .snap => s.nextCur | .metaOnly => b.cur),
                           lu := if cfg.strictStamp then max t (c.lu + 1) else t,
                           applied := b.applied ++ [a] }
          some { setPc s a (.wrote b n e) with files := n :: s.files, nextFid := s.nextFid + 1, nextCur := s.nextCur + 1 }
      | _ => none
  | .fence held =>
      match s.pc a with
      | .wrote b n e =>
          if cfg.exclusive then (if held then some (setPc s a (.fenced b n e)) else none)
          else some (setPc s a (if held then .fenced b n e else .conflict))
      | _ => none
  | .flip =>
      match s.pc a with
      | .fenced b n e =>
          if cfg.cas then
            (if e = some s.hint.etag then
              some { setPc s a (.flipped n) with hint := ⟨n.fid, s.nextEtag⟩, nextEtag := s.nextEtag + 1,
                                                 flips := ⟨a, b.fid, s.hint.fid, n.fid⟩ :: s.flips }
             else some (setPc s a .conflict))
          else
            some { setPc s a (.flipped n) with hint := ⟨n.fid, s.nextEtag⟩, nextEtag := s.nextEtag + 1,
                                               flips := ⟨a, b.fid, s.hint.fid, n.fid⟩ :: s.flips }
      | _ => none
  | .release retry =>
      match s.pc a with
      | .flipped _ => some (setPc (releaseLock s a) a (.done true))
      | .conflict => some (setPc (releaseLock s a) a (if retry then .idle else .done false))
      | _ => none

/-- initial system: one metadata file (the table as created), everyone idle -/
def init (kind : Nat → Kind) : Sys :=
  { files := [{ fid := 0, cur := 0, lu := 0, applied := [] }], hint := ⟨0, 0⟩, nextFid := 1, nextEtag := 1, nextCur := 1,
    now := 0, holder := none, pc := fun _ => .idle, kind := kind, flips := [] }

inductive Reach (cfg : Cfg) (kind : Nat → Kind) : Sys → Prop where
  | init : Reach cfg kind (init kind)
  | step {s s' : Sys} (a : Nat) (act : Act) : Reach cfg kind s → step cfg s a act = some s' → Reach cfg kind s'

/-- run a schedule (used by the driver and by the refutation witnesses) -/
def runSched (cfg : Cfg) (s : Sys) : List (Nat × Act) → Option Sys
  | [] => some s
  | (a, act) :: rest => match step cfg s a act with
      | some s' => runSched cfg s' rest
      | none => none

end DSV.Occ
