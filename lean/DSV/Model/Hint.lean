/-
M10 — the version hint (metadata_manager.py `_parse_hint_content`, `_recover_version_from_files`,
`_current_version_info`).

Hint text is a list of code-point classes; the harness maps real code points onto them:
  ad d  ASCII digit                      ud d  non-ASCII decimal digit (category Nd; `int()` and `\d` accept it)
  dx    `str.isdigit()` is true but it is not a decimal digit (², ①, …): `int()` rejects it, `\d` does not match it
  ws    whitespace removed by `str.strip()`
  ch c  any other ASCII character         ot    any other non-ASCII character
-/
namespace DSV.Hint

inductive Cp where
  | ad (d : Nat)
  | ud (d : Nat)
  | dx
  | ws
  | ch (c : Char)
  | ot
deriving DecidableEq, Repr, Inhabited

inductive Res (α : Type) where
  | ok (a : α)
  | none          -- unparseable: treated as "no hint"
  | raise         -- an exception escapes the parser
deriving Repr, DecidableEq, Inhabited

/-- CPython's limit on decimal string → int conversion (sys.int_info.default_max_str_digits). -/
def maxStrDigits : Nat := 4300

def isWs : Cp → Bool | .ws => true | _ => false

def strip (t : List Cp) : List Cp := ((t.dropWhile isWs).reverse.dropWhile isWs).reverse

def isDigitChar : Cp → Bool | .ad _ | .ud _ | .dx => true | _ => false
def isDecimalChar : Cp → Bool | .ad _ | .ud _ => true | _ => false
def digitVal : Cp → Nat | .ad d | .ud d => d | _ => 0

def decimalValue (ds : List Cp) : Nat := ds.foldl (fun acc c => acc * 10 + digitVal c) 0

/-- `int(text)` on a string for which `isdigit()` / `\d+` already held: `none` = ValueError. -/
def pyInt (ds : List Cp) : Option Nat :=
  if ds.all isDecimalChar && decide (ds.length ≤ maxStrDigits) then some (decimalValue ds) else none

def isHexLower : Cp → Bool
  | .ad _ => true
  | .ch c => decide ('a' ≤ c ∧ c ≤ 'f')
  | _ => false

def lit (s : String) : List Cp := s.toList.map Cp.ch

/-- match `^v(\d+)(?:-[0-9a-f]{8})?\.metadata\.json$` against the whole text; returns the digit group -/
def matchMetaName (t : List Cp) : Option (List Cp) :=
  match t with
  | .ch 'v' :: rest =>
      let ds := rest.takeWhile isDecimalChar
      let tail := rest.dropWhile isDecimalChar
      if ds.isEmpty then none
      else if tail == lit ".metadata.json" then some ds
      else match tail with
        | .ch '-' :: r2 =>
            let hx := r2.take 8
            if hx.length == 8 && hx.all isHexLower && r2.drop 8 == lit ".metadata.json" then some ds else none
        | _ => none
  | _ => none

/-- `guardInt = false`: the code as found (int() unguarded); `true`: after the fix (ValueError → unparseable). -/
def parseHintWith (guardInt : Bool) (content : Option (List Cp)) : Res (Nat × List Cp) :=
  match content with
  | none => .none                                   -- UnicodeDecodeError
  | some raw =>
    let text := strip raw
    if text.isEmpty then .none
    else if text.all isDigitChar then
      match pyInt text with
      | some v => .ok (v, lit "v" ++ text ++ lit ".metadata.json")
      | none => if guardInt then .none else .raise
    else match matchMetaName text with
      | some ds => match pyInt ds with
          | some v => .ok (v, text)
          | none => if guardInt then .none else .raise
      | none => .none

/-! ### recovery by scanning -/

structure Entry where
  name : Nat              -- identity of the file (index into the harness's table of names)
  version : Option Nat    -- `some v` iff the basename matches the regex and sits directly in metadata/
  mtime : Option Nat      -- `none` = get_modified_time raised (treated as -1.0)
deriving DecidableEq, Repr, Inhabited

def mt (e : Entry) : Int := match e.mtime with | some m => (m : Int) | none => -1

/-- the loop of `_recover_version_from_files`: highest version; on ties the strictly newer mtime wins -/
def recoverStep (best : Option (Nat × Nat × Int)) (e : Entry) : Option (Nat × Nat × Int) :=
  match e.version with
  | none => best
  | some v =>
    match best with
    | none => some (v, e.name, mt e)
    | some (bv, bn, bm) =>
        if v > bv then some (v, e.name, mt e)
        else if v == bv then (if mt e > bm then some (v, e.name, mt e) else some (bv, bn, bm))
        else some (bv, bn, bm)

/-- `listing = none`: list_files raised → recovery gives up (returns None). -/
def recover (listing : Option (List Entry)) : Option (Nat × Nat) :=
  match listing with
  | none => none
  | some es => (es.foldl recoverStep none).map fun (v, n, _) => (v, n)

/-- scanning as `_current_version_info` uses it: a failing listing propagates (fix be2333b) -/
def scan (swallowListingError : Bool) (listing : Option (List Entry)) : Res (Nat × Nat) :=
  match listing with
  | none => if swallowListingError then .none else .raise
  | some es => match recover (some es) with | some r => .ok r | none => .none

/-- `_current_version_info`: a parseable hint whose target exists is believed; otherwise scan. -/
def currentVersionInfoWith (swallow : Bool) (hint : Res (Nat × Nat)) (targetExists : Bool)
    (listing : Option (List Entry)) : Res (Nat × Nat) :=
  match hint with
  | .raise => .raise
  | .ok (v, n) => if targetExists then .ok (v, n) else scan swallow listing
  | .none => scan swallow listing

/-- the code as it is now -/
def currentVersionInfo := currentVersionInfoWith false

/-- the parser as it is now (fix 88f5723: `int()` guarded) -/
def parseHint := parseHintWith true

end DSV.Hint
