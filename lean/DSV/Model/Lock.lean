/-
M4 — locks (file_lock.py, lock_provider.py).

(a) `FileLock` over a simulated kernel: one lock file path naming an inode; every acquisition attempt opens a NEW
    open file description (OFD) on the inode the path names and tries `flock(LOCK_EX|LOCK_NB)`; release = unlock + close;
    process death closes all OFDs of the process.  Nothing ever unlinks the lock file (fcntl mode) — the transition
    system simply has no such step, and `unlinkStep` is provided separately to show what would go wrong.
(b) `S3LockProvider` (conditional writes): the lock object {owner, etag, mtime} under create-if-absent, head,
    takeover-if-match, renew-if-match, get, unconditional delete, with a virtual clock.
-/
namespace DSV.Lock

/-! ### (a) flock -/

structure Ofd where
  id : Nat
  inode : Nat
  owner : Nat            -- process / thread (FileLock instance) that opened it
deriving DecidableEq, Repr, Inhabited

structure Kernel where
  pathInode : Nat        -- inode the lock path currently names
  nextInode : Nat
  nextOfd : Nat
  holders : List Ofd     -- OFDs currently holding an exclusive flock (at most one per inode — kernel contract)
deriving Repr, Inhabited

/-- per FileLock instance -/
structure FL where
  locked : Bool
  fd : Option Ofd
  deadline : Option Nat  -- set while a blocking acquire() is in progress
  timedOut : Bool
deriving DecidableEq, Repr, Inhabited

structure FSys where
  k : Kernel
  now : Nat
  inst : Nat → FL

def setInst (s : FSys) (a : Nat) (f : FL) : FSys := { s with inst := fun x => if x = a then f else s.inst x }

inductive FAct where
  | tick (d : Nat)
  | begin (timeout : Nat)        -- acquire(): deadline := now + timeout
  | attempt                      -- one `_try_acquire_once` (+ the deadline check that follows a failure)
  | release
  | die                          -- process death: the kernel closes its OFDs
deriving DecidableEq, Repr, Inhabited

def fstep (s : FSys) (a : Nat) : FAct → Option FSys
  | .tick d => some { s with now := s.now + d }
  | .begin t =>
      let f := s.inst a
      if f.locked || f.deadline.isSome then none
      else some (setInst s a { f with deadline := some (s.now + t), timedOut := false })
  | .attempt =>
      let f := s.inst a
      match f.deadline with
      | none => none
      | some dl =>
        let ofd : Ofd := { id := s.k.nextOfd, inode := s.k.pathInode, owner := a }
        let k1 := { s.k with nextOfd := s.k.nextOfd + 1 }
        if s.k.holders.any (fun h => h.inode == ofd.inode) then
          -- EWOULDBLOCK: close the fd; TimeoutError iff the deadline has passed
          if s.now ≥ dl then some (setInst { s with k := k1 } a { f with deadline := none, timedOut := true })
          else some { s with k := k1 }
        else
          some (setInst { s with k := { k1 with holders := ofd :: k1.holders } } a
                  { f with locked := true, fd := some ofd, deadline := none })
  | .release =>
      let f := s.inst a
      match f.locked, f.fd with
      | true, some ofd =>
          some (setInst { s with k := { s.k with holders := s.k.holders.filter (· != ofd) } } a
                  { f with locked := false, fd := none })
      | _, _ => some s
  | .die =>
      some (setInst { s with k := { s.k with holders := s.k.holders.filter (fun h => h.owner != a) } } a
              { locked := false, fd := none, deadline := none, timedOut := false })

def finit : FSys :=
  { k := { pathInode := 0, nextInode := 1, nextOfd := 0, holders := [] }, now := 0,
    inst := fun _ => { locked := false, fd := none, deadline := none, timedOut := false } }

inductive FReach : FSys → Prop where
  | init : FReach finit
  | step {s s' : FSys} (a : Nat) (act : FAct) : FReach s → fstep s a act = some s' → FReach s'

/-- what a release that ALSO unlinked the lock file would do (not part of the system; used for a witness) -/
def unlinkStep (s : FSys) : FSys := { s with k := { s.k with pathInode := s.k.nextInode, nextInode := s.k.nextInode + 1 } }

def frun (s : FSys) : List (Nat × FAct) → Option FSys
  | [] => some s
  | (a, act) :: rest => match fstep s a act with | some s' => frun s' rest | none => none

/-! ### (b) S3 lock with conditional writes -/

structure Obj where
  owner : Nat
  etag : Nat
  mtime : Nat
deriving DecidableEq, Repr, Inhabited

inductive RelPc where
  | idle
  | gotOwn        -- release(): the GET returned our own id; the DELETE has not been issued yet
deriving DecidableEq, Repr, Inhabited

structure Cl where
  isLocked : Bool
  etag : Option Nat              -- ETag of the lock object as last written by us
  seen : Option (Nat × Nat)      -- takeover in progress: (etag, mtime) observed by HEAD
  rel : RelPc
deriving DecidableEq, Repr, Inhabited

structure SSys where
  obj : Option Obj
  nextEtag : Nat
  now : Nat
  lease : Nat
  cl : Nat → Cl
  condDelete : Bool              -- false: release deletes unconditionally (code as found); true: delete If-Match own ETag
  log : List (Nat × Nat)         -- ghost: (actor, time) of every successful acquisition, newest first

def setCl (s : SSys) (a : Nat) (c : Cl) : SSys := { s with cl := fun x => if x = a then c else s.cl x }

inductive SAct where
  | tick (d : Nat)
  | create            -- PUT If-None-Match:*
  | head              -- takeover step 1: HEAD → (etag, mtime); only proceeds if age > lease
  | takeover          -- takeover step 2: PUT If-Match:<seen etag>
  | renew             -- heartbeat: PUT If-Match:<own etag>
  | isHeld            -- GET + compare (updates is_locked on mismatch)
  | relGet            -- release step 1: GET, compare
  | relDelete         -- release step 2: DELETE
deriving DecidableEq, Repr, Inhabited

def sstep (s : SSys) (a : Nat) : SAct → Option SSys
  | .tick d => some { s with now := s.now + d }
  | .create =>
      let c := s.cl a
      if c.isLocked then none else
      match s.obj with
      | none => some (setCl { s with obj := some ⟨a, s.nextEtag, s.now⟩, nextEtag := s.nextEtag + 1, log := (a, s.now) :: s.log } a
                        { c with isLocked := true, etag := some s.nextEtag, seen := none })
      | some _ => some s                       -- PreconditionFailed: falls through to the takeover attempt
  | .head =>
      let c := s.cl a
      if c.isLocked then none else
      match s.obj with
      | none => some (setCl s a { c with seen := none })
      | some o => if s.now - o.mtime > s.lease then some (setCl s a { c with seen := some (o.etag, o.mtime) })
                  else some (setCl s a { c with seen := none })
  | .takeover =>
      let c := s.cl a
      match c.isLocked, c.seen with
      | false, some (e, _) =>
          match s.obj with
          | some o => if o.etag = e then
                        some (setCl { s with obj := some ⟨a, s.nextEtag, s.now⟩, nextEtag := s.nextEtag + 1, log := (a, s.now) :: s.log } a
                                { c with isLocked := true, etag := some s.nextEtag, seen := none })
                      else some (setCl s a { c with seen := none })
          | none => some (setCl s a { c with seen := none })
      | _, _ => none
  | .renew =>
      let c := s.cl a
      match c.isLocked, c.etag with
      | true, some e =>
          match s.obj with
          | some o => if o.etag = e then
                        some (setCl { s with obj := some ⟨a, s.nextEtag, s.now⟩, nextEtag := s.nextEtag + 1 } a { c with etag := some s.nextEtag })
                      else some (setCl s a { c with isLocked := false })
          | none => some (setCl s a { c with isLocked := false })
      | _, _ => none
  | .isHeld =>
      let c := s.cl a
      if !c.isLocked then some s else
      match s.obj with
      | some o => if o.owner = a then some s else some (setCl s a { c with isLocked := false })
      | none => some s                          -- NoSuchKey: answers False, is_locked untouched
  | .relGet =>
      let c := s.cl a
      if !c.isLocked || c.rel != .idle then none else
      match s.obj with
      | some o => if o.owner = a then some (setCl s a { c with rel := .gotOwn })
                  else some (setCl s a { c with isLocked := false, etag := none })
      | none => some (setCl s a { c with isLocked := false, etag := none })
  | .relDelete =>
      let c := s.cl a
      if c.rel != .gotOwn then none else
      let del : Bool := if s.condDelete then (match s.obj, c.etag with | some o, some e => o.etag == e | _, _ => false) else true
      some (setCl (if del then { s with obj := none } else s) a { c with isLocked := false, etag := none, rel := .idle })

def sinit (lease : Nat) (condDelete : Bool) : SSys :=
  { obj := none, nextEtag := 0, now := 0, lease := lease, condDelete := condDelete, log := [],
    cl := fun _ => { isLocked := false, etag := none, seen := none, rel := .idle } }

inductive SReach (lease : Nat) (cd : Bool) : SSys → Prop where
  | init : SReach lease cd (sinit lease cd)
  | step {s s' : SSys} (a : Nat) (act : SAct) : SReach lease cd s → sstep s a act = some s' → SReach lease cd s'

def srun (s : SSys) : List (Nat × SAct) → Option SSys
  | [] => some s
  | (a, act) :: rest => match sstep s a act with | some s' => srun s' rest | none => none

/-- `is_held()` as an observation (no state change): what the caller is told -/
def heldAnswer (s : SSys) (a : Nat) : Bool :=
  (s.cl a).isLocked && (match s.obj with | some o => o.owner == a | none => false)

/-! ### the polling loop of `S3LockProvider.acquire` while the lock stays with a live owner

`while True: try (fails); if time.time() - start >= timeout: raise TimeoutError; time.sleep(d)` — `d` is the jittered poll
interval.  Times in milliseconds; `sleeps` are the durations the loop draws. -/

/-- elapsed time at which `TimeoutError` is raised; `none` = the script of sleeps ran out first -/
def pollLoop (timeout : Nat) : Nat → List Nat → Option Nat
  | el, [] => if el ≥ timeout then some el else none
  | el, d :: rest => if el ≥ timeout then some el else pollLoop timeout (el + d) rest


end DSV.Lock
