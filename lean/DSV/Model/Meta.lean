/-
M1 — table-metadata algebra (snapshot_manager.py, transaction.py `_make_expire_mutator`,
metadata_manager.py `_append_metadata_log`).  Pure functions over an abstract `Meta`.

Ghost data (not in the JSON): `Snap.born` / `LogE.born` = commit counter at the commit that created the snapshot,
`Snap.orig` = the parent it was committed with.  They are only used to STATE "commit order" and "true ancestor".
-/
namespace DSV.Meta

/-- a parent / current-snapshot reference: Python `None`, `-1`, or a snapshot id -/
inductive P where
  | none | root | id (n : Nat)
deriving DecidableEq, Repr, Inhabited

structure Snap where
  id : Nat
  ts : Nat
  seq : Nat
  parent : P
  born : Nat      -- ghost
  orig : P        -- ghost: parent at commit time
deriving DecidableEq, Repr, Inhabited

structure LogE where
  ts : Nat
  id : Nat
  born : Nat      -- ghost
deriving DecidableEq, Repr, Inhabited

structure Meta where
  lastSeq : Nat
  lastUpdated : Nat
  cur : P
  snaps : List Snap
  log : List LogE
  mlog : List (Nat × Nat)          -- (timestamp-ms of the superseded version, its file id)
  retention : Option Int           -- datashard.snapshot.retention-count as parsed (`none` = unset / not an integer)
  prevMax : Option Int             -- write.metadata.previous-versions-max as parsed (`none` = unset / invalid → 100)
  commits : Nat                    -- ghost: number of snapshot commits so far
  hist : List (Nat × P)            -- ghost: (id, parent at commit time) of every snapshot ever committed
deriving Repr, Inhabited

def Meta.ids (m : Meta) : List Nat := m.snaps.map (·.id)

/-! ### repoint_parents_to_surviving_ancestors -/

/-- Python dict comprehension `{s.id: s.parent for s in all}`: the LAST binding wins. `dict.get` → None if absent. -/
def parentOf (all : List Snap) (i : Nat) : P :=
  match all.reverse.find? (·.id == i) with
  | some s => s.parent
  | Option.none => P.none

/-- the `while` loop with its `seen` set; `fuel` only makes the recursion structural (`all.length + 1` suffices) -/
def walk (all : List Snap) (kept : List Nat) : Nat → P → List Nat → P
  | _, P.none, _ => P.none
  | _, P.root, _ => P.root
  | 0, P.id _, _ => P.none
  | fuel+1, P.id p, seen =>
      if kept.contains p then P.id p
      else if seen.contains p then P.none
      else walk all kept fuel (parentOf all p) (p :: seen)

def repoint (all kept : List Snap) : List Snap :=
  let keptIds := kept.map (·.id)
  kept.map fun s => { s with parent := walk all keptIds (all.length + 1) s.parent [] }

/-! ### expiry, retention -/

/-- `_make_expire_mutator(cutoff)` -/
def expire (cutoff : Nat) (m : Meta) : Meta :=
  let kept := m.snaps.filter fun s => decide (s.ts ≥ cutoff) || (P.id s.id == m.cur)
  let keptIds := kept.map (·.id)
  { m with snaps := repoint m.snaps kept, log := m.log.filter fun e => keptIds.contains e.id }

def sortByTs (l : List Snap) : List Snap := l.mergeSort fun a b => decide (a.ts ≤ b.ts)

/-- `_apply_retention` -/
def retain (m : Meta) : Meta :=
  match m.retention with
  | Option.none => m
  | some k =>
    if k < 1 ∨ (m.snaps.length : Int) ≤ k then m
    else
      let sorted := sortByTs m.snaps
      let kept0 := sorted.drop (sorted.length - k.toNat)
      let ids0 := kept0.map (·.id)
      let ids := match m.cur with
        | P.id c => if ids0.contains c then ids0 else
            (match m.snaps.find? (fun (s : Snap) => s.id == c) with | some _ => ids0 ++ [c] | Option.none => ids0)
        | _ => ids0
      let surviving := sorted.filter fun s => ids.contains s.id
      { m with snaps := repoint m.snaps surviving, log := m.log.filter fun e => ids.contains e.id }

/-! ### commits -/

inductive Err where
  | mutatorRemovedSnapshot
deriving DecidableEq, Repr

/-- `_append_metadata_log` + the stamp written by `MetadataManager.commit` -/
def stamp (now : Nat) (prevFile : Option Nat) (base new : Meta) : Meta :=
  let new := { new with lastUpdated := now }
  match prevFile with
  | Option.none => new
  | some f =>
    if (match new.mlog.getLast? with | some e => e.2 == f | Option.none => false) then new
    else
      let log := new.mlog ++ [(base.lastUpdated, f)]
      let mx : Int := match new.prevMax with | some k => k | Option.none => 100
      let log := if mx ≥ 1 ∧ (log.length : Int) > mx then log.drop (log.length - mx.toNat) else log
      { new with mlog := log }

/-- `Transaction._commit_file_ops` → `SnapshotManager.create_snapshot` (append or delete commit, optional expiry) -/
def addSnap (now id : Nat) (cutoff : Option Nat) (base : Meta) : Except Err Meta :=
  let seq := base.lastSeq + 1
  let parent := match base.cur with | P.none => P.root | c => c
  let s : Snap := { id := id, ts := now, seq := seq, parent := parent, born := base.commits, orig := parent }
  let m1 : Meta := { base with snaps := base.snaps ++ [s], cur := P.id id, lastSeq := max base.lastSeq seq,
                               log := base.log ++ [⟨now, id, base.commits⟩], commits := base.commits + 1,
                               hist := base.hist ++ [(id, parent)] }
  let m2 := match cutoff with | some c => expire c m1 | Option.none => m1
  if cutoff.isSome && m2.snaps.all (·.id != id) then .error .mutatorRemovedSnapshot
  else .ok (retain m2)

/-- metadata-only transaction (`expire_snapshots` alone) -/
def expireOnly (cutoff : Nat) (base : Meta) : Meta := expire cutoff base

/-- `_most_recent_snapshot_id` -/
def mostRecent (m : Meta) : P :=
  if m.snaps.isEmpty then P.none
  else match m.log.reverse.find? (fun e => m.ids.contains e.id) with
    | some e => P.id e.id
    | Option.none =>
        match m.snaps with
        | [] => P.none
        | s :: rest => P.id (rest.foldl (fun best x => if x.ts > best.ts then x else best) s).id

/-- `SnapshotManager.delete_snapshot`; `none` = id not found (returns False, nothing committed) -/
def delSnap (id : Nat) (base : Meta) : Option Meta :=
  match base.snaps.findIdx? (·.id == id) with
  | Option.none => Option.none
  | some i =>
    let remaining := base.snaps.eraseIdx i
    let m1 : Meta := { base with snaps := repoint base.snaps remaining, log := base.log.filter fun e => e.id != id }
    some (if m1.cur == P.id id then { m1 with cur := mostRecent m1 } else m1)

/-- `get_snapshot_by_timestamp` -/
def byTime (t : Nat) (m : Meta) : Option Snap :=
  ((sortByTs m.snaps).takeWhile fun s => decide (s.ts ≤ t)).getLast?

def byId (i : Nat) (m : Meta) : Option Snap := m.snaps.find? (fun (s : Snap) => s.id == i)

def setRetention (r : Option Int) (m : Meta) : Meta := { m with retention := r }
def setPrevMax (r : Option Int) (m : Meta) : Meta := { m with prevMax := r }

/-! ### operations as one step function (histories) -/

inductive Op where
  | add (now id : Nat) (cutoff : Option Nat)
  | expireOnly (cutoff : Nat)
  | del (id : Nat)
  | setRetention (r : Option Int)
  | setPrevMax (r : Option Int)
deriving Repr, Inhabited

/-- one committed operation; a rejected / no-op operation leaves the metadata unchanged -/
def step (m : Meta) : Op → Meta
  | .add now id cutoff => match addSnap now id cutoff m with | .ok m' => m' | .error _ => m
  | .expireOnly c => expireOnly c m
  | .del id => match delSnap id m with | some m' => m' | Option.none => m
  | .setRetention r => setRetention r m
  | .setPrevMax r => setPrevMax r m

def empty : Meta :=
  { lastSeq := 0, lastUpdated := 0, cur := P.root, snaps := [], log := [], mlog := [], retention := Option.none,
    prevMax := Option.none, commits := 0, hist := [] }

def run (ops : List Op) : Meta := ops.foldl step empty

/-! ### manifest rewrite (file_manager.create_manifest_file / transaction delete path) -/

structure Entry where
  file : Nat
  status : Nat            -- 0 EXISTING, 1 ADDED
  addedSnap : Option Nat
  seq : Option Nat
deriving DecidableEq, Repr, Inhabited

/-- read a manifest: every entry becomes a DataFile carrying (added_snapshot_id, sequence_number) -/
def readEntries (es : List Entry) : List Entry := es

/-- the delete path: survivors of a manifest; `none` = all deleted (manifest dropped), `some (same?, entries)` -/
def rewrite (es : List Entry) (deleted : List Nat) : Option (Bool × List Entry) :=
  let surv := es.filter fun e => !deleted.contains e.file
  if surv.length == es.length then some (true, es)
  else if surv.isEmpty then Option.none
  else some (false, surv.map fun e => { e with status := 0 })

/-- an append manifest -/
def appendManifest (snap seq : Nat) (files : List Nat) : List Entry :=
  files.map fun f => { file := f, status := 1, addedSnap := some snap, seq := some seq }

end DSV.Meta
