/-
M3 (creation) — `Table.__init__` / `MetadataManager.initialize_table` / `load_table` as a transition system over any
number of creators and openers (transaction.py:733-783, metadata_manager.py:67-118, iceberg.py).

A metadata file is (fid, uuid, version); `fid` order = write order (used as the mtime tie-break of the recovery scan).
The version hint names a fid or is absent.  `resolve` is `_current_version_info()`: a hint whose target exists is
believed, otherwise the scan picks the highest version, newest file on ties.
-/
namespace DSV.Create

structure MFile where
  fid : Nat
  uuid : Nat            -- table identity (creator's id for a v0 written by that creator)
  version : Nat
deriving DecidableEq, Repr, Inhabited

structure Cfg where
  cas : Bool            -- hint is created with a create-if-absent conditional write
  exclusive : Bool      -- the metadata lock really excludes
deriving DecidableEq, Repr, Inhabited

inductive Pc where
  | idle
  | wantInit                    -- refresh() returned None
  | locked
  | checked                     -- inside the lock, `_current_version_info()` was None
  | wrote (f : MFile)           -- own v0 written
  | flipped (f : MFile)         -- hint written
  | lost (f : Option MFile)     -- TableExistsError (check failed, or CAS lost): release next
  | done (saw : Option Nat)     -- finished; `saw` = uuid of the table this caller ends up on (re-read after the call)
deriving DecidableEq, Repr, Inhabited

structure Sys where
  files : List MFile
  hint : Option Nat
  nextFid : Nat
  holder : Option Nat
  pc : Nat → Pc
  creator : Nat → Bool          -- true: create_table / Table(create_if_not_exists=True); false: load_table
  inits : List Nat              -- ghost: actors whose hint write took effect, newest first

def setPc (s : Sys) (a : Nat) (p : Pc) : Sys := { s with pc := fun x => if x = a then p else s.pc x }

def lookup (s : Sys) (f : Nat) : Option MFile := s.files.find? (·.fid == f)

/-- recovery scan: highest version; among equals the most recently written (largest fid) -/
def better (a b : MFile) : Bool := a.version > b.version || (a.version == b.version && a.fid > b.fid)

def recover (fs : List MFile) : Option MFile :=
  fs.foldl (fun best f => match best with | none => some f | some b => if better f b then some f else some b) none

/-- `_current_version_info()` -/
def resolve (s : Sys) : Option MFile :=
  match s.hint with
  | some f => (match lookup s f with | some m => some m | none => recover s.files)
  | none => recover s.files

inductive Act where
  | open_                -- refresh() in Table.__init__ (creator) or load_table (opener)
  | acquire
  | check                -- `_current_version_info()` inside the lock
  | writeV0
  | flip                 -- write the hint (create-if-absent on CAS backends)
  | release
deriving DecidableEq, Repr, Inhabited

def releaseLock (s : Sys) (a : Nat) : Sys := if s.holder = some a then { s with holder := none } else s

def step (cfg : Cfg) (s : Sys) (a : Nat) : Act → Option Sys
  | .open_ =>
      match s.pc a with
      | .idle =>
          match resolve s with
          | some m => some (setPc s a (.done (some m.uuid)))
          | none => if s.creator a then some (setPc s a .wantInit) else some (setPc s a (.done none))   -- load_table raises
      | _ => none
  | .acquire =>
      match s.pc a with
      | .wantInit =>
          if cfg.exclusive then (if s.holder = none then some { setPc s a .locked with holder := some a } else none)
          else some (setPc s a .locked)
      | _ => none
  | .check =>
      match s.pc a with
      | .locked => (match resolve s with | some _ => some (setPc s a (.lost none)) | none => some (setPc s a .checked))
      | _ => none
  | .writeV0 =>
      match s.pc a with
      | .checked =>
          let f : MFile := { fid := s.nextFid, uuid := a, version := 0 }
          some { setPc s a (.wrote f) with files := f :: s.files, nextFid := s.nextFid + 1 }
      | _ => none
  | .flip =>
      match s.pc a with
      | .wrote f =>
          if cfg.cas then
            (match s.hint with
             | none => some { setPc s a (.flipped f) with hint := some f.fid, inits := a :: s.inits }
             | some _ =>   -- CASConflictError → own v0 discarded (fix 03ad760) → TableExistsError
                 some { setPc s a (.lost (some f)) with files := s.files.filter (· != f) })
          else some { setPc s a (.flipped f) with hint := some f.fid, inits := a :: s.inits }
      | _ => none
  | .release =>
      match s.pc a with
      | .flipped f => some (setPc (releaseLock s a) a (.done (some f.uuid)))
      | .lost _ => let s1 := releaseLock s a
                   some (setPc s1 a (.done ((resolve s1).map (·.uuid))))
      | _ => none

/-- initial states: `files` / `hint` describe what is on storage before anyone calls -/
def init (files : List MFile) (hint : Option Nat) (creator : Nat → Bool) : Sys :=
  { files := files, hint := hint, nextFid := (files.map (·.fid)).foldl max 0 + 1, holder := none,
    pc := fun _ => .idle, creator := creator, inits := [] }

inductive Reach (cfg : Cfg) (files : List MFile) (hint : Option Nat) (creator : Nat → Bool) : Sys → Prop where
  | init : Reach cfg files hint creator (init files hint creator)
  | step {s s' : Sys} (a : Nat) (act : Act) : Reach cfg files hint creator s → step cfg s a act = some s' →
      Reach cfg files hint creator s'

def run (cfg : Cfg) (s : Sys) : List (Nat × Act) → Option Sys
  | [] => some s
  | (a, act) :: rest => match step cfg s a act with | some s' => run cfg s' rest | none => none

end DSV.Create
