import DSV.Model.Filter
/-! Helper lemmas for the filter model (C12, C13). -/
namespace DSV.Filter

def NoNanInSet (e : Expr) : Prop := V.nan ∉ e.set
def NoNan (xs : List V) : Prop := V.nan ∉ xs

theorem mem_dropNull {x : V} {vs : List V} : x ∈ dropNull vs ↔ x ∈ vs ∧ x ≠ V.null := by
  simp [dropNull]

theorem memArrow_eq_memSql (x : V) (vs : List V) (h : V.nan ∉ vs) : memArrow x vs = memSql x vs := by
  induction vs with
  | nil => rfl
  | cons s rest ih =>
    have hs : s ≠ V.nan := fun e => h (by simp [e])
    have hr : V.nan ∉ rest := fun m => h (by simp [m])
    simp only [memArrow, memSql, List.any_cons] at *
    rw [ih hr]
    cases x <;> cases s <;> simp_all [eqSql, eqArrowSet]

theorem nan_not_mem_dropNull {vs : List V} (h : V.nan ∉ vs) : V.nan ∉ dropNull vs := by
  intro m; exact h (mem_dropNull.mp m).1

theorem kand_true {a b : Option Bool} : kand a b = some true ↔ a = some true ∧ b = some true := by
  cases a with
  | none => cases b with
    | none => simp [kand]
    | some b => cases b <;> simp [kand]
  | some a => cases a <;> cases b with
    | none => simp [kand]
    | some b => cases b <;> simp [kand]

end DSV.Filter

namespace DSV.Filter

theorem chunksAux_flatten (n : Nat) : ∀ (fuel : Nat) (xs : List α), xs.length ≤ fuel →
    (chunksAux n fuel xs).flatten = xs := by
  intro fuel
  induction fuel with
  | zero => intro xs h; cases xs <;> simp_all [chunksAux]
  | succ k ih =>
    intro xs h
    cases xs with
    | nil => simp [chunksAux]
    | cons x rest =>
      simp only [chunksAux, List.flatten_cons]
      rw [ih]
      · exact List.take_append_drop _ _
      · simp only [List.length_drop, List.length_cons] at *; omega

theorem chunks_flatten (n : Nat) (xs : List α) : (chunks n xs).flatten = xs :=
  chunksAux_flatten n xs.length xs (Nat.le_refl _)

theorem flatten_filter_nonempty (bs : List (List α)) :
    (bs.filter (fun b => !b.isEmpty)).flatten = bs.flatten := by
  induction bs with
  | nil => rfl
  | cons b rest ih =>
    cases b with
    | nil => simpa [List.filter] using ih
    | cons x xs =>
      show ((x :: xs) :: List.filter (fun b => !b.isEmpty) rest).flatten = _
      rw [List.flatten_cons, List.flatten_cons, ih]

theorem flatten_map_filter (p : α → Bool) (bs : List (List α)) :
    (bs.map (·.filter p)).flatten = bs.flatten.filter p := by
  induction bs with
  | nil => rfl
  | cons b rest ih =>
    rw [List.map_cons, List.flatten_cons, List.flatten_cons, List.filter_append, ih]

end DSV.Filter

namespace DSV.Filter

theorem foldl_min_le (as : List Int) : ∀ (a : Int), as.foldl min a ≤ a ∧ ∀ x ∈ as, as.foldl min a ≤ x := by
  induction as with
  | nil => intro a; simp
  | cons b rest ih =>
    intro a
    have h := ih (min a b)
    simp only [List.foldl_cons, List.mem_cons]
    refine ⟨by omega, ?_⟩
    intro x hx
    rcases hx with rfl | hx
    · omega
    · exact h.2 x hx

theorem le_foldl_max (as : List Int) : ∀ (a : Int), a ≤ as.foldl max a ∧ ∀ x ∈ as, x ≤ as.foldl max a := by
  induction as with
  | nil => intro a; simp
  | cons b rest ih =>
    intro a
    have h := ih (max a b)
    simp only [List.foldl_cons, List.mem_cons]
    refine ⟨by omega, ?_⟩
    intro x hx
    rcases hx with rfl | hx
    · omega
    · exact h.2 x hx

theorem listMin_le {xs : List Int} {lo : Int} (h : listMin xs = some lo) : ∀ a ∈ xs, lo ≤ a := by
  cases xs with
  | nil => simp [listMin] at h
  | cons b rest =>
    simp only [listMin, Option.some.injEq] at h
    subst h
    intro a ha
    rcases List.mem_cons.mp ha with rfl | ha
    · exact (foldl_min_le rest a).1
    · exact (foldl_min_le rest b).2 a ha

theorem le_listMax {xs : List Int} {hi : Int} (h : listMax xs = some hi) : ∀ a ∈ xs, a ≤ hi := by
  cases xs with
  | nil => simp [listMax] at h
  | cons b rest =>
    simp only [listMax, Option.some.injEq] at h
    subst h
    intro a ha
    rcases List.mem_cons.mp ha with rfl | ha
    · exact (le_foldl_max rest a).1
    · exact (le_foldl_max rest b).2 a ha

theorem mem_vals {xs : List V} {a : Int} : a ∈ vals xs ↔ V.val a ∈ xs := by
  simp only [vals, List.mem_filterMap]
  constructor
  · rintro ⟨x, hx, h⟩
    cases x <;> simp_all
  · intro h; exact ⟨_, h, rfl⟩

/-- What `bounds xs = range lo hi` tells us: no NaN in `xs`, and every integer value in `xs` lies in `[lo, hi]`. -/
theorem bounds_range {xs : List V} {lo hi : Int} (h : bounds xs = .range lo hi) :
    V.nan ∉ xs ∧ ∀ a, V.val a ∈ xs → lo ≤ a ∧ a ≤ hi := by
  unfold bounds at h
  split at h
  · cases h
  · rename_i hnan
    refine ⟨?_, ?_⟩
    · intro hm
      apply hnan
      simp only [List.any_eq_true, beq_iff_eq]
      exact ⟨_, hm, rfl⟩
    · split at h
      · rename_i l u hl hu
        simp only [Bounds.range.injEq] at h
        obtain ⟨rfl, rfl⟩ := h
        intro a ha
        exact ⟨listMin_le hl a (mem_vals.mpr ha), le_listMax hu a (mem_vals.mpr ha)⟩
      · cases h

theorem bounds_ne_nanB (xs : List V) : bounds xs ≠ .nanB := by
  unfold bounds
  split
  · simp
  · split <;> simp

end DSV.Filter
