import DSV.Model.GcRun
/-! Proofs behind `DSV/Props/C07.lean`. -/
namespace DSV.GcRun

/-- the body of `collect fixed` once the three early aborts are passed and the marker listing succeeded -/
def tail (i : Input) (ms : List Marker) : Out :=
  match i.dataListing, i.manListing with
  | some dl, some ml =>
      if dl.any (·.escapes) || ml.any (·.escapes) then .raised []
      else .returned (sweep (i.reachable ++ protectedSet fixed ms) dl ++ sweep (i.reachable ++ protectedSet fixed ms) ml)
  | _, _ => .raised []

theorem collect_fixed (i : Input) :
    collect fixed i =
      if !i.metaOk then .raised []
      else if i.hintDangling then .raised []
      else if i.reachReads.any (· == false) then .raised []
      else match i.markers with
        | none => .raised []
        | some ms => tail i ms := by
  unfold collect
  cases hm : i.metaOk <;> cases hh : i.hintDangling <;> cases hr : i.reachReads.any (· == false) <;>
    cases hmk : i.markers <;> rfl

theorem mem_sweep {keep : List FileKey} {l : List Listed} {k : FileKey} (h : k ∈ sweep keep l) :
    k ∉ keep ∧ ∃ f ∈ l, f.key = k ∧ f.statOk = true ∧ f.old = true ∧ f.delOk = true := by
  unfold sweep at h
  obtain ⟨f, hf, rfl⟩ := List.mem_map.1 h
  obtain ⟨hfl, hp⟩ := List.mem_filter.1 hf
  simp only [Bool.and_eq_true, Bool.not_eq_true', List.contains_eq_mem, decide_eq_false_iff_not] at hp
  exact ⟨hp.1.1.1, f, hfl, rfl, hp.1.1.2, hp.1.2, hp.2⟩

theorem sweep_mem {keep : List FileKey} {l : List Listed} {f : Listed} (hf : f ∈ l) (hk : f.key ∉ keep)
    (h1 : f.statOk = true) (h2 : f.old = true) (h3 : f.delOk = true) : f.key ∈ sweep keep l := by
  unfold sweep
  refine List.mem_map.2 ⟨f, List.mem_filter.2 ⟨hf, ?_⟩, rfl⟩
  simp [hk, h1, h2, h3]

theorem markerTargets_fixed (m : Marker) : markerTargets fixed m = trueTargets m := by
  unfold markerTargets trueTargets fixed
  simp

theorem mem_protectedSet {ms : List Marker} {m : Marker} {f : FileKey} (hm : m ∈ ms)
    (hs : m.stat ≠ some false ∨ m.delOk = false) (hf : f ∈ trueTargets m) : f ∈ protectedSet fixed ms := by
  unfold protectedSet
  refine List.mem_flatMap.2 ⟨m, hm, ?_⟩
  rw [markerTargets_fixed]
  cases hst : m.stat with
  | none => simpa using hf
  | some b =>
    cases b with
    | true => simpa using hf
    | false =>
      cases hs with
      | inl h => exact absurd hst h
      | inr h => simpa [h] using hf

/-- every run either raises having deleted nothing, or passed every check and returns the two sweeps -/
theorem collect_fixed_cases (i : Input) :
    collect fixed i = .raised [] ∨
    ∃ ms dl ml, i.metaOk = true ∧ i.hintDangling = false ∧ i.reachReads.any (· == false) = false ∧
      i.markers = some ms ∧ i.dataListing = some dl ∧ i.manListing = some ml ∧
      (dl.any (·.escapes) || ml.any (·.escapes)) = false ∧
      collect fixed i =
        .returned (sweep (i.reachable ++ protectedSet fixed ms) dl ++ sweep (i.reachable ++ protectedSet fixed ms) ml) := by
  rw [collect_fixed]
  cases hm : i.metaOk
  · left; rfl
  cases hh : i.hintDangling
  rotate_left
  · left; rfl
  cases hr : i.reachReads.any (· == false)
  rotate_left
  · left; rfl
  cases hmk : i.markers with
  | none => left; rfl
  | some ms =>
    unfold tail
    cases hd : i.dataListing with
    | none => left; rfl
    | some dl =>
      cases hml : i.manListing with
      | none => left; rfl
      | some ml =>
        cases he : (dl.any (·.escapes) || ml.any (·.escapes))
        · right
          refine ⟨ms, dl, ml, rfl, rfl, rfl, rfl, rfl, rfl, he, ?_⟩
          show (if (dl.any (·.escapes) || ml.any (·.escapes)) = true then _ else _) = _
          rw [he]; rfl
        · left
          show (if (dl.any (·.escapes) || ml.any (·.escapes)) = true then _ else _) = _
          rw [he]; rfl

/-- what a returning run looks like -/
theorem returned_inv {i : Input} {d : List FileKey} (h : collect fixed i = .returned d) :
    ∃ ms dl ml, i.metaOk = true ∧ i.hintDangling = false ∧ i.reachReads.any (· == false) = false ∧
      i.markers = some ms ∧ i.dataListing = some dl ∧ i.manListing = some ml ∧
      (dl.any (·.escapes) || ml.any (·.escapes)) = false ∧
      d = sweep (i.reachable ++ protectedSet fixed ms) dl ++ sweep (i.reachable ++ protectedSet fixed ms) ml := by
  rcases collect_fixed_cases i with hc | ⟨ms, dl, ml, h1, h2, h3, h4, h5, h6, h7, hc⟩
  · rw [hc] at h; cases h
  · rw [hc] at h
    exact ⟨ms, dl, ml, h1, h2, h3, h4, h5, h6, h7, (Out.returned.inj h).symm⟩

theorem abort_deletes_nothing' (i : Input) (d : List FileKey) (h : collect fixed i = .raised d) : d = [] := by
  rcases collect_fixed_cases i with hc | ⟨ms, dl, ml, -, -, -, -, -, -, -, hc⟩
  · rw [hc] at h; exact (Out.raised.inj h).symm
  · rw [hc] at h; cases h

theorem untrusted_never_deletes' (i : Input)
    (h : i.metaOk = false ∨ i.hintDangling = true ∨ (∃ r ∈ i.reachReads, r = false) ∨ i.markers = none ∨
         i.dataListing = none ∨ i.manListing = none ∨
         (∃ l, (i.dataListing = some l ∨ i.manListing = some l) ∧ ∃ f ∈ l, f.escapes = true)) :
    collect fixed i = .raised [] := by
  rcases collect_fixed_cases i with hc | ⟨ms, dl, ml, hm, hh, hr, hmk, hd, hml, he, -⟩
  · exact hc
  exfalso
  rcases h with h | h | h | h | h | h | ⟨l, hl, f, hf, hesc⟩
  · rw [h] at hm; cases hm
  · rw [h] at hh; cases hh
  · have : i.reachReads.any (· == false) = true := by
      obtain ⟨r, hr', rfl⟩ := h
      exact List.any_eq_true.2 ⟨false, hr', rfl⟩
    rw [this] at hr; cases hr
  · rw [h] at hmk; cases hmk
  · rw [h] at hd; cases hd
  · rw [h] at hml; cases hml
  · have hany : (dl.any (·.escapes) || ml.any (·.escapes)) = true := by
      rcases hl with hl | hl
      · rw [hd] at hl; cases hl
        rw [Bool.or_eq_true]; exact Or.inl (List.any_eq_true.2 ⟨f, hf, hesc⟩)
      · rw [hml] at hl; cases hl
        rw [Bool.or_eq_true]; exact Or.inr (List.any_eq_true.2 ⟨f, hf, hesc⟩)
    rw [hany] at he; cases he

theorem fault_never_deletes_live' (i : Input) (d : List FileKey) (h : collect fixed i = .returned d) :
    ∀ f ∈ d, f ∉ i.reachable ∧ ¬ TrulyProtected i f := by
  obtain ⟨ms, dl, ml, -, -, -, hmk, -, -, -, rfl⟩ := returned_inv h
  intro f hf
  have hk : f ∉ i.reachable ++ protectedSet fixed ms := by
    rcases List.mem_append.1 hf with hf | hf
    · exact (mem_sweep hf).1
    · exact (mem_sweep hf).1
  refine ⟨fun hr => hk (List.mem_append.2 (Or.inl hr)), ?_⟩
  rintro ⟨ms', hms', m, hm, hs, hft⟩
  rw [hmk] at hms'; cases hms'
  exact hk (List.mem_append.2 (Or.inr (mem_protectedSet hm hs hft)))

theorem collects_orphans' (i : Input) (d : List FileKey) (h : collect fixed i = .returned d) (ms : List Marker)
    (hm : i.markers = some ms) (l : List Listed) (hl : i.dataListing = some l ∨ i.manListing = some l) (f : Listed) (hf : f ∈ l)
    (hk : f.key ∉ i.reachable ++ protectedSet fixed ms) (h1 : f.statOk = true) (h2 : f.old = true) (h3 : f.delOk = true) :
    f.key ∈ d := by
  obtain ⟨ms', dl, ml, -, -, -, hmk, hd, hml, -, rfl⟩ := returned_inv h
  rw [hm] at hmk; cases hmk
  rcases hl with hl | hl
  · rw [hd] at hl; cases hl
    exact List.mem_append.2 (Or.inl (sweep_mem hf hk h1 h2 h3))
  · rw [hml] at hl; cases hl
    exact List.mem_append.2 (Or.inr (sweep_mem hf hk h1 h2 h3))

end DSV.GcRun
