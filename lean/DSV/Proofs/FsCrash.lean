import DSV.Proofs.Fs
/-! Proofs behind `DSV/Props/C03.lean`. -/

namespace DSV.Fs

/-- what a PROCESS death leaves (page cache intact): the path is there with its full content -/
def Visible (s : St) (p : Nat) : Prop := (s p).present = true ∧ (s p).written = true

/-- the ids a commit's trace may touch -/
def commitIds (files : List W) (hint : W) : List Nat := (files ++ [hint]).flatMap fun w => [w.tmp, w.fin]

/-- the event names no id equal to `p` (only a directory fsync can reach `p`) -/
def Foreign (p : Nat) : Ev → Prop
  | .creat q _ => q ≠ p
  | .write q => q ≠ p
  | .fsync q => q ≠ p
  | .rename src dst => src ≠ p ∧ dst ≠ p
  | .fsyncDir _ => True
  | .unlink q => q ≠ p

/-- `a` is `b` except that its directory entry may have become durable -/
def SameUpToEntry (a b : PathSt) : Prop :=
  a.present = b.present ∧ a.written = b.written ∧ a.contentDurable = b.contentDurable ∧ a.dir = b.dir ∧
    (b.entryDurable = true → a.entryDurable = true)

theorem SameUpToEntry.refl (a : PathSt) : SameUpToEntry a a := ⟨rfl, rfl, rfl, rfl, id⟩

theorem SameUpToEntry.trans {a b c : PathSt} (h1 : SameUpToEntry a b) (h2 : SameUpToEntry b c) : SameUpToEntry a c :=
  ⟨h1.1.trans h2.1, h1.2.1.trans h2.2.1, h1.2.2.1.trans h2.2.2.1, h1.2.2.2.1.trans h2.2.2.2.1,
    fun h => h1.2.2.2.2 (h2.2.2.2.2 h)⟩

theorem foreign_apply (s : St) (p : Nat) (e : Ev) (hu : Foreign p e) : SameUpToEntry (apply s e p) (s p) := by
  cases e with
  | creat q d => simp [Foreign] at hu; simp [apply, set, Ne.symm hu, SameUpToEntry.refl]
  | write q => simp [Foreign] at hu; simp [apply, set, Ne.symm hu, SameUpToEntry.refl]
  | fsync q => simp [Foreign] at hu; simp [apply, set, Ne.symm hu, SameUpToEntry.refl]
  | rename a b =>
      simp [Foreign] at hu
      simp [apply, set, Ne.symm hu.1, Ne.symm hu.2, SameUpToEntry.refl]
  | fsyncDir d =>
      simp only [apply]
      split <;> simp [SameUpToEntry]
  | unlink q => simp [Foreign] at hu; simp [apply, set, Ne.symm hu, SameUpToEntry.refl]

theorem run_foreign (p : Nat) : ∀ (evs : List Ev) (s : St), (∀ e ∈ evs, Foreign p e) →
    SameUpToEntry (run s evs p) (s p) := by
  intro evs
  induction evs with
  | nil => intro s _; exact SameUpToEntry.refl _
  | cons e rest ih =>
    intro s h
    rw [run_cons]
    exact (ih _ (fun e' he' => h e' (List.mem_cons_of_mem _ he'))).trans
      (foreign_apply s p e (h e List.mem_cons_self))

theorem lowerWrite_foreign (t p d q : Nat) (ht : t ≠ q) (hp : p ≠ q) : ∀ e ∈ lowerWrite t p d, Foreign q e := by
  intro e he
  simp [lowerWrite] at he
  rcases he with rfl | rfl | rfl | rfl | rfl <;> simp [Foreign, ht, hp]

theorem lowerWrite_take3_foreign (t p d : Nat) (ht : t ≠ p) : ∀ e ∈ (lowerWrite t p d).take 3, Foreign p e := by
  intro e he
  simp [lowerWrite] at he
  rcases he with rfl | rfl | rfl <;> simp [Foreign, ht]

theorem commitTrace_eq (files : List W) (hint : W) :
    commitTrace files hint = (files ++ [hint]).flatMap (fun w => lowerWrite w.tmp w.fin w.dir) := by
  simp [commitTrace, List.flatMap_append]

theorem files_length (files : List W) :
    (files.flatMap (fun w => lowerWrite w.tmp w.fin w.dir)).length = 5 * files.length := by
  induction files with
  | nil => rfl
  | cons a rest ih =>
    rw [List.flatMap_cons, List.length_append, ih]
    simp [lowerWrite]
    omega

theorem commitTrace_take (files : List W) (hint : W) (k : Nat) :
    (commitTrace files hint).take k =
      (files.flatMap (fun w => lowerWrite w.tmp w.fin w.dir)).take k ++
        (lowerWrite hint.tmp hint.fin hint.dir).take (k - 5 * files.length) := by
  rw [commitTrace, List.take_append, files_length]

/-- PROVABLE form of `crash_pre'`: before the pointer's rename the pointer path keeps `present`, `written`,
`contentDurable` and `dir`, and its `entryDurable` can only go from false to true (a directory fsync of another file's
lowering persists the OLD entry when it is visible and lives in that directory). -/
theorem crash_pre_fields' (files : List W) (hint : W) (s : St) (hwf : WfCommit files hint s) (k : Nat)
    (hk : k ≤ 5 * files.length + 3) :
    SameUpToEntry (run s ((commitTrace files hint).take k) hint.fin) (s hint.fin) := by
  obtain ⟨hfin, _, hdis, _⟩ := hwf
  have hfin' : (files ++ [hint]).Pairwise (fun a b => a.fin ≠ b.fin) := by
    have := hfin
    unfold List.Nodup at this
    rw [List.pairwise_map] at this
    exact this
  rw [List.pairwise_append] at hfin'
  obtain ⟨_, _, hfinH⟩ := hfin'
  have hmemF : ∀ w ∈ files, w ∈ files ++ [hint] := fun w hw => List.mem_append_left _ hw
  have hmemH : hint ∈ files ++ [hint] := List.mem_append_right _ (List.mem_singleton.2 rfl)
  apply run_foreign
  intro e he
  rw [commitTrace_take] at he
  rcases List.mem_append.1 he with he | he
  · obtain ⟨w, hw, hew⟩ := List.mem_flatMap.1 (List.mem_of_mem_take he)
    exact lowerWrite_foreign w.tmp w.fin w.dir hint.fin (hdis w (hmemF w hw) hint hmemH)
      (hfinH w hw hint (List.mem_singleton.2 rfl)) e hew
  · have hmin : k - 5 * files.length = min (k - 5 * files.length) 3 := by omega
    rw [hmin, ← List.take_take] at he
    exact lowerWrite_take3_foreign hint.tmp hint.fin hint.dir (hdis hint hmemH hint hmemH) e
      (List.mem_of_mem_take he)

/-- full equality does hold when the old pointer entry is already durable (it cannot be newly persisted) -/
theorem crash_pre_eq_of' (files : List W) (hint : W) (s : St) (hwf : WfCommit files hint s) (k : Nat)
    (hk : k ≤ 5 * files.length + 3) (h0 : (s hint.fin).entryDurable = true) :
    run s ((commitTrace files hint).take k) hint.fin = s hint.fin := by
  obtain ⟨h1, h2, h3, h4, h5⟩ := crash_pre_fields' files hint s hwf k hk
  have h5' := h5 h0
  generalize run s ((commitTrace files hint).take k) hint.fin = a at *
  generalize s hint.fin = b at *
  cases a; cases b
  simp_all

/-- COUNTEREXAMPLE to `crash_pre'` as stated (full `PathSt` equality): one file and the pointer in the same directory 0,
the old pointer visible but its entry not yet durable; the file's `fsyncDir 0` (5th event, 5 ≤ 5*1+3) makes the OLD pointer
entry durable, so `entryDurable` flips false → true. -/
theorem crash_pre_counterexample :
    ¬ (∀ (files : List W) (hint : W) (s : St), WfCommit files hint s → ∀ k, k ≤ 5 * files.length + 3 →
        run s ((commitTrace files hint).take k) hint.fin = s hint.fin) := by
  intro h
  have := h [⟨11, 1, 0⟩] ⟨19, 9, 0⟩ (fun p => ⟨p == 9, p == 9, false, false, 0⟩)
    ⟨by decide, by decide, by decide, by decide⟩ 5 (by decide)
  revert this
  decide



theorem crash_foreign_untouched' (files : List W) (hint : W) (s : St) (k : Nat) (p : Nat) (hp : p ∉ commitIds files hint) :
    (run s ((commitTrace files hint).take k) p).present = (s p).present ∧
    (run s ((commitTrace files hint).take k) p).written = (s p).written := by
  have h : SameUpToEntry (run s ((commitTrace files hint).take k) p) (s p) := by
    apply run_foreign
    intro e he
    have he' := List.mem_of_mem_take he
    rw [commitTrace_eq] at he'
    obtain ⟨w, hw, hew⟩ := List.mem_flatMap.1 he'
    have hid : ∀ x ∈ [w.tmp, w.fin], x ≠ p := by
      intro x hx hxp
      apply hp
      rw [← hxp]
      exact List.mem_flatMap.2 ⟨w, hw, hx⟩
    exact lowerWrite_foreign w.tmp w.fin w.dir p (hid _ (by simp)) (hid _ (by simp)) e hew
  exact ⟨h.1, h.2.1⟩

/-- from its rename on, the target of one atomic write is visible with full content -/
theorem lowerWrite_visible (s : St) (t p d : Nat) (h : t ≠ p) (j : Nat) :
    Visible (run s ((lowerWrite t p d).take (j + 4))) p := by
  have h' : p ≠ t := Ne.symm h
  have h4 : Visible (run s ((lowerWrite t p d).take 4)) p := by
    simp [lowerWrite, run, apply, set, Visible, h']
  cases j with
  | zero => exact h4
  | succ j' =>
    have : (lowerWrite t p d).take (j' + 1 + 4) = (lowerWrite t p d).take 4 ++ [.fsyncDir d] := by
      simp [lowerWrite]
    rw [this, run_append]
    have hs := run_foreign p [.fsyncDir d] (run s ((lowerWrite t p d).take 4))
      (by intro e he; rw [List.mem_singleton.1 he]; trivial)
    exact ⟨hs.1.trans h4.1, hs.2.1.trans h4.2⟩

/-- from the pointer's rename on, every file of the commit is visible with full content (so the post-state is readable) -/
theorem crash_post' (files : List W) (hint : W) (s : St) (hwf : WfCommit files hint s) (k : Nat)
    (hk : 5 * files.length + 4 ≤ k) : ∀ w ∈ files ++ [hint], Visible (run s ((commitTrace files hint).take k)) w.fin := by
  obtain ⟨hfin, _, hdis, hdirs⟩ := hwf
  have hfin' : (files ++ [hint]).Pairwise (fun a b => a.fin ≠ b.fin) := by
    have := hfin
    unfold List.Nodup at this
    rw [List.pairwise_map] at this
    exact this
  rw [List.pairwise_append] at hfin'
  obtain ⟨hfinF, _, hfinH⟩ := hfin'
  have hmemF : ∀ w ∈ files, w ∈ files ++ [hint] := fun w hw => List.mem_append_left _ hw
  have hmemH : hint ∈ files ++ [hint] := List.mem_append_right _ (List.mem_singleton.2 rfl)
  have hth : hint.tmp ≠ hint.fin := hdis hint hmemH hint hmemH
  intro w hw
  rw [commitTrace_take, List.take_of_length_le (by rw [files_length]; omega), run_append]
  obtain ⟨j, hj⟩ : ∃ j, k - 5 * files.length = j + 4 := ⟨k - 5 * files.length - 4, by omega⟩
  rw [hj]
  rcases List.mem_append.1 hw with hw | hw
  · have hd := files_durable files s (fun a ha b hb => hdis a (hmemF a ha) b (hmemF b hb)) hfinF
      (fun w hw => hdirs w (hmemF w hw)) w hw
    have := run_durable_stable w.fin ((lowerWrite hint.tmp hint.fin hint.dir).take (j + 4)) _
      (fun e he => lowerWrite_untouched hint.tmp hint.fin hint.dir w.fin (hdis hint hmemH w (hmemF w hw))
        (Ne.symm (hfinH w hw hint (List.mem_singleton.2 rfl))) e (List.mem_of_mem_take he)) hd
    exact ⟨this.1, this.2.1⟩
  · rw [List.mem_singleton.1 hw]
    exact lowerWrite_visible _ hint.tmp hint.fin hint.dir hth j

end DSV.Fs
