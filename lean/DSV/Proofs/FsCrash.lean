import DSV.Proofs.Fs
/-! Proofs behind `DSV/Props/C03.lean`. -/

namespace DSV.Fs

/-- what a PROCESS death leaves (page cache intact): the path is there with its full content -/
def Visible (s : St) (p : Nat) : Prop := (s p).present = true ∧ (s p).written = true

/-- the ids a commit's trace may touch -/
def commitIds (files : List W) (hint : W) : List Nat := (files ++ [hint]).flatMap fun w => [w.tmp, w.fin]

/-- before the pointer's rename (the first `4 * files.length + … ` events: every prefix that does not include the hint's
rename) the pointer path is exactly as before, and paths the commit does not own are never touched in their visibility -/
theorem crash_pre' (files : List W) (hint : W) (s : St) (hwf : WfCommit files hint s) (k : Nat)
    (hk : k ≤ 5 * files.length + 3) :
    run s ((commitTrace files hint).take k) hint.fin = s hint.fin := by sorry

theorem crash_foreign_untouched' (files : List W) (hint : W) (s : St) (k : Nat) (p : Nat) (hp : p ∉ commitIds files hint) :
    (run s ((commitTrace files hint).take k) p).present = (s p).present ∧
    (run s ((commitTrace files hint).take k) p).written = (s p).written := by sorry

/-- from the pointer's rename on, every file of the commit is visible with full content (so the post-state is readable) -/
theorem crash_post' (files : List W) (hint : W) (s : St) (hwf : WfCommit files hint s) (k : Nat)
    (hk : 5 * files.length + 4 ≤ k) : ∀ w ∈ files ++ [hint], Visible (run s ((commitTrace files hint).take k)) w.fin := by sorry

end DSV.Fs
