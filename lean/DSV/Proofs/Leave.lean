import DSV.Proofs.History
/-!
How a snapshot can leave the table (C09): only through an expiry (older than the cutoff, never the current one), an explicit
deletion, or a configured retention count.  A plain commit, a failed commit, a collection and the metadata-log bound keep
every retained snapshot retained.
-/
namespace DSV.History
open DSV.Meta

theorem retain_unset (m : Meta) (h : m.retention = Option.none) : retain m = m := by
  unfold retain
  rw [h]

theorem addSnap_no_cutoff_ids (now id : Nat) (base m' : Meta) (hr : base.retention = Option.none)
    (h : addSnap now id Option.none base = .ok m') : m'.ids = base.ids ++ [id] := by
  unfold addSnap at h
  simp only [Option.isSome_none, Bool.false_and, Bool.false_eq_true, if_false] at h
  unfold retain at h
  simp only [hr] at h
  cases h
  simp [Meta.ids]

theorem commit_keeps_snapshots' (s : St) (now id nApp : Nat) (deleted : List Nat) (h : s.md.retention = Option.none) :
    ∀ x ∈ s.md.ids, x ∈ (step s (.commit now id Option.none nApp deleted)).md.ids := by
  intro x hx
  cases hw : writeFiles s nApp deleted with
  | none => simp only [step, hw]; exact hx
  | some w =>
    cases ha : addSnap now id Option.none s.md with
    | error e => simp only [step, hw, ha]; exact hx
    | ok md' =>
      simp only [step, hw, ha]
      rw [addSnap_no_cutoff_ids now id s.md md' h ha]
      exact List.mem_append_left _ hx

theorem failed_keeps_md' (s : St) (nApp : Nat) (deleted : List Nat) (cleaned : Bool) :
    (step s (.failed nApp deleted cleaned)).md = s.md := by
  cases hw : writeFiles s nApp deleted with
  | none => simp only [step, hw]
  | some w => cases cleaned <;> simp [step, hw]

theorem gc_keeps_md' (s : St) (cands : Files) : (step s (.gc cands)).md = s.md := by
  simp only [step, collect, collectWith]
  cases reach s <;> rfl

theorem expire_keeps_young_and_current' (c : Nat) (m : Meta) (s : Snap) (hs : s ∈ m.snaps)
    (h : s.ts ≥ c ∨ P.id s.id = m.cur) : s.id ∈ (expire c m).ids := by
  unfold expire Meta.ids
  simp only []
  rw [repoint_ids]
  apply List.mem_map.mpr
  refine ⟨s, List.mem_filter.mpr ⟨hs, ?_⟩, rfl⟩
  rcases h with h | h
  · simp [h]
  · simp [h]

theorem expire_drops_only_old' (c : Nat) (m : Meta) : ∀ x ∈ (expire c m).ids, ∃ s ∈ m.snaps, s.id = x ∧ (s.ts ≥ c ∨ P.id s.id = m.cur) := by
  intro x hx
  unfold expire Meta.ids at hx
  simp only [] at hx
  rw [repoint_ids] at hx
  obtain ⟨s, hs, rfl⟩ := List.mem_map.mp hx
  obtain ⟨hm, hk⟩ := List.mem_filter.mp hs
  refine ⟨s, hm, rfl, ?_⟩
  simp only [Bool.or_eq_true, decide_eq_true_eq, beq_iff_eq] at hk
  exact hk

end DSV.History
