import DSV.Model.TxOps
namespace DSV.TxOps

theorem foldl_appends (ops : List Op) (p : Parts) :
    (ops.foldl stepPart p).appends = p.appends ++ (ops.flatMap fun o => match o with | .appendFiles fs => fs | _ => []) := by
  induction ops generalizing p with
  | nil => simp
  | cons o os ih =>
    simp only [List.foldl_cons, List.flatMap_cons]
    rw [ih]
    cases o <;> simp [stepPart]

theorem foldl_deletes (ops : List Op) (p : Parts) :
    (ops.foldl stepPart p).deletes = p.deletes ++ (ops.flatMap fun o => match o with | .deleteFiles ps => ps | _ => []) := by
  induction ops generalizing p with
  | nil => simp
  | cons o os ih =>
    simp only [List.foldl_cons, List.flatMap_cons]
    rw [ih]
    cases o <;> simp [stepPart]

/-- every file of every queued append is committed, in queue order, nothing else -/
theorem partition_appends (ops : List Op) :
    (partition ops).appends = ops.flatMap fun o => match o with | .appendFiles fs => fs | _ => [] := by
  simpa [partition] using foldl_appends ops ⟨[], [], none⟩

/-- every path of every queued delete is deleted, nothing else -/
theorem partition_deletes (ops : List Op) :
    (partition ops).deletes = ops.flatMap fun o => match o with | .deleteFiles ps => ps | _ => [] := by
  simpa [partition] using foldl_deletes ops ⟨[], [], none⟩

theorem mem_appends (ops : List Op) (fs : List Nat) (h : Op.appendFiles fs ∈ ops) : ∀ f ∈ fs, f ∈ (partition ops).appends := by
  intro f hf
  rw [partition_appends]
  exact List.mem_flatMap.2 ⟨_, h, by simpa using hf⟩

theorem mem_deletes (ops : List Op) (ps : List Nat) (h : Op.deleteFiles ps ∈ ops) : ∀ x ∈ ps, x ∈ (partition ops).deletes := by
  intro x hx
  rw [partition_deletes]
  exact List.mem_flatMap.2 ⟨_, h, by simpa using hx⟩

end DSV.TxOps
