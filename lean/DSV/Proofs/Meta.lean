import DSV.Model.Meta
/-! Definitions of the well-formedness predicate and the proofs behind `DSV/Props/C15.lean`. -/
namespace DSV.Meta

/-- `a` is an ancestor-or-self of `d` following ORIGINAL (commit-time) parent links of the ghost history -/
inductive Anc (hist : List (Nat × P)) : Nat → Nat → Prop where
  | refl (d : Nat) : Anc hist d d
  | step {a p d : Nat} : (d, P.id p) ∈ hist → Anc hist a p → Anc hist a d

/-- reachability along CURRENT parent links of a snapshot list (dict semantics: last binding wins) -/
inductive Reach (all : List Snap) : P → P → Prop where
  | refl (p : P) : Reach all p p
  | step {n : Nat} {p : P} : Reach all (parentOf all n) p → Reach all (P.id n) p

/-- what `walk` may return for a survivor whose old parent is `start` -/
def Good (all : List Snap) (kept : List Nat) (start : P) : P → Prop
  | P.none => True
  | P.root => Reach all start P.root
  | P.id q => q ∈ kept ∧ Reach all start (P.id q)

structure WF (m : Meta) : Prop where
  idsNodup   : m.ids.Nodup
  curOk      : m.cur = P.root ∨ (m.cur = P.none ∧ m.snaps = []) ∨ ∃ s ∈ m.snaps, m.cur = P.id s.id
  parentOlder : ∀ s ∈ m.snaps, ∀ p, s.parent = P.id p → ∃ q ∈ m.snaps, q.id = p ∧ q.born < s.born
  parentsAnc : ∀ s ∈ m.snaps, ∀ p, s.parent = P.id p → Anc m.hist p s.id
  seqLe      : ∀ s ∈ m.snaps, s.seq ≤ m.lastSeq
  seqMono    : ∀ s ∈ m.snaps, ∀ t ∈ m.snaps, s.born < t.born → s.seq < t.seq
  bornLt     : ∀ s ∈ m.snaps, s.born < m.commits
  bornInj    : ∀ s ∈ m.snaps, ∀ t ∈ m.snaps, s.born = t.born → s = t
  logSub     : ∀ e ∈ m.log, ∃ s ∈ m.snaps, s.id = e.id ∧ s.born = e.born
  logOrder   : m.log.Pairwise (fun a b => a.born < b.born)
  histOk     : ∀ s ∈ m.snaps, (s.id, s.orig) ∈ m.hist
  curLogged  : ∀ s ∈ m.snaps, ∃ e ∈ m.log, e.id = s.id        -- every retained snapshot has its log entry

/-- preconditions the real system guarantees by construction: snapshot ids are fresh (random 63-bit ids) -/
def OpOk (m : Meta) : Op → Prop
  | .add _ id _ => id ∉ m.hist.map (·.1)
  | _ => True

instance (m : Meta) (op : Op) : Decidable (OpOk m op) := by
  cases op <;> unfold OpOk <;> infer_instance

def OpsOk : Meta → List Op → Prop
  | _, [] => True
  | m, op :: rest => OpOk m op ∧ OpsOk (step m op) rest

instance : (m : Meta) → (ops : List Op) → Decidable (OpsOk m ops)
  | _, [] => isTrue trivial
  | m, op :: rest => by
      unfold OpsOk
      have := instDecidableOpsOk (step m op) rest
      infer_instance

/-- commit timestamps are non-decreasing in commit order (equal allowed) -/
def TsMono (m : Meta) : Prop := ∀ s ∈ m.snaps, ∀ t ∈ m.snaps, s.born < t.born → s.ts ≤ t.ts

/-- the snapshot list is in commit order -/
def BornSorted (m : Meta) : Prop := m.snaps.Pairwise (fun a b => a.born < b.born)

/-- an operation whose timestamp is not older than any retained snapshot (non-decreasing clock; equal allowed) -/
def OpMono (m : Meta) : Op → Prop
  | .add now _ _ => ∀ s ∈ m.snaps, s.ts ≤ now
  | _ => True

theorem wf_empty' : WF empty := by sorry
/-- with a non-decreasing clock, the snapshot list stays in commit order and timestamps follow commit order -/
theorem mono_step' (m : Meta) (op : Op) (h : WF m) (hb : BornSorted m) (ht : TsMono m) (hop : OpOk m op) (hm : OpMono m op) :
    BornSorted (step m op) ∧ TsMono (step m op) := by sorry
theorem wf_step' (m : Meta) (op : Op) (h : WF m) (hop : OpOk m op) : WF (step m op) := by sorry
theorem wf_history' (ops : List Op) (hops : OpsOk empty ops) : WF (run ops) := by sorry
theorem last_seq_monotone' (m : Meta) (op : Op) : m.lastSeq ≤ (step m op).lastSeq := by sorry
theorem repoint_correct' (all kept : List Snap) :
    ∀ s ∈ repoint all kept, ∃ o ∈ kept, o.id = s.id ∧ Good all (kept.map (·.id)) o.parent s.parent := by sorry
theorem current_never_expired' (c : Nat) (m : Meta) (i : Nat) (h : m.cur = P.id i) (hi : i ∈ m.ids) :
    (expire c m).cur = P.id i ∧ i ∈ (expire c m).ids := by sorry
theorem current_never_retained_away' (m : Meta) (i : Nat) (h : m.cur = P.id i) (hi : i ∈ m.ids) :
    (retain m).cur = P.id i ∧ i ∈ (retain m).ids := by sorry
theorem mlog_bounded' (now f : Nat) (base new : Meta) (k : Int) (hk : new.prevMax = some k) (h1 : 1 ≤ k)
    (hlen : (new.mlog.length : Int) ≤ k) :
    ((stamp now (some f) base new).mlog.length : Int) ≤ k ∧
    ((stamp now (some f) base new).mlog <:+ (new.mlog ++ [(base.lastUpdated, f)]) ∨
      (stamp now (some f) base new).mlog = new.mlog) := by sorry
theorem rewrite_preserves_origin' (es : List Entry) (deleted : List Nat) (same : Bool) (out : List Entry)
    (h : rewrite es deleted = some (same, out)) :
    (∀ e' ∈ out, ∃ e ∈ es, e'.file = e.file ∧ e'.addedSnap = e.addedSnap ∧ e'.seq = e.seq) ∧
    out.map (·.file) = (es.map (·.file)).filter (fun f => !deleted.contains f) := by sorry
theorem rewrite_drops' (es : List Entry) (deleted : List Nat)
    (h : rewrite es deleted = none) : ∀ e ∈ es, e.file ∈ deleted := by sorry
theorem lookup_by_id' (m : Meta) (h : WF m) (s : Snap) (hs : s ∈ m.snaps) : byId s.id m = some s := by sorry
theorem lookup_by_timestamp' (m : Meta) (h : WF m) (hs : BornSorted m) (hmono : TsMono m) (t : Nat) :
    (∀ r, byTime t m = some r → r ∈ m.snaps ∧ r.ts ≤ t ∧ ∀ s ∈ m.snaps, s.ts ≤ t → s.born ≤ r.born) ∧
    (byTime t m = none → ∀ s ∈ m.snaps, ¬ s.ts ≤ t) := by sorry
theorem delete_current_repoints' (m m' : Meta) (h : WF m) (i : Nat) (hc : m.cur = P.id i) (hd : delSnap i m = some m') :
    (m'.snaps = [] ∧ m'.cur = P.none) ∨
    (∃ r ∈ m'.snaps, m'.cur = P.id r.id ∧ ∀ s ∈ m'.snaps, s.born ≤ r.born) := by sorry

end DSV.Meta
