import DSV.Model.Meta
/-! Definitions of the well-formedness predicate and the proofs behind `DSV/Props/C15.lean`. -/
namespace DSV.Meta

/-- `a` is an ancestor-or-self of `d` following ORIGINAL (commit-time) parent links of the ghost history -/
inductive Anc (hist : List (Nat × P)) : Nat → Nat → Prop where
  | refl (d : Nat) : Anc hist d d
  | step {a p d : Nat} : (d, P.id p) ∈ hist → Anc hist a p → Anc hist a d

/-- reachability along CURRENT parent links of a snapshot list (dict semantics: last binding wins) -/
inductive Reach (all : List Snap) : P → P → Prop where
  | refl (p : P) : Reach all p p
  | step {n : Nat} {p : P} : Reach all (parentOf all n) p → Reach all (P.id n) p

/-- what `walk` may return for a survivor whose old parent is `start` -/
def Good (all : List Snap) (kept : List Nat) (start : P) : P → Prop
  | P.none => True
  | P.root => Reach all start P.root
  | P.id q => q ∈ kept ∧ Reach all start (P.id q)

structure WF (m : Meta) : Prop where
  idsNodup   : m.ids.Nodup
  curOk      : m.cur = P.root ∨ (m.cur = P.none ∧ m.snaps = []) ∨ ∃ s ∈ m.snaps, m.cur = P.id s.id
  parentOlder : ∀ s ∈ m.snaps, ∀ p, s.parent = P.id p → ∃ q ∈ m.snaps, q.id = p ∧ q.born < s.born
  parentsAnc : ∀ s ∈ m.snaps, ∀ p, s.parent = P.id p → Anc m.hist p s.id
  seqLe      : ∀ s ∈ m.snaps, s.seq ≤ m.lastSeq
  seqMono    : ∀ s ∈ m.snaps, ∀ t ∈ m.snaps, s.born < t.born → s.seq < t.seq
  bornLt     : ∀ s ∈ m.snaps, s.born < m.commits
  bornInj    : ∀ s ∈ m.snaps, ∀ t ∈ m.snaps, s.born = t.born → s = t
  logSub     : ∀ e ∈ m.log, ∃ s ∈ m.snaps, s.id = e.id ∧ s.born = e.born
  logOrder   : m.log.Pairwise (fun a b => a.born < b.born)
  histOk     : ∀ s ∈ m.snaps, (s.id, s.orig) ∈ m.hist
  curLogged  : ∀ s ∈ m.snaps, ∃ e ∈ m.log, e.id = s.id        -- every retained snapshot has its log entry

/-- preconditions the real system guarantees by construction: snapshot ids are fresh (random 63-bit ids) -/
def OpOk (m : Meta) : Op → Prop
  | .add _ id _ => id ∉ m.hist.map (·.1)
  | _ => True

instance (m : Meta) (op : Op) : Decidable (OpOk m op) := by
  cases op <;> unfold OpOk <;> infer_instance

def OpsOk : Meta → List Op → Prop
  | _, [] => True
  | m, op :: rest => OpOk m op ∧ OpsOk (step m op) rest

instance : (m : Meta) → (ops : List Op) → Decidable (OpsOk m ops)
  | _, [] => isTrue trivial
  | m, op :: rest => by
      unfold OpsOk
      have := instDecidableOpsOk (step m op) rest
      infer_instance

/-- commit timestamps are non-decreasing in commit order (equal allowed) -/
def TsMono (m : Meta) : Prop := ∀ s ∈ m.snaps, ∀ t ∈ m.snaps, s.born < t.born → s.ts ≤ t.ts

/-- the snapshot list is in commit order -/
def BornSorted (m : Meta) : Prop := m.snaps.Pairwise (fun a b => a.born < b.born)

/-- an operation whose timestamp is not older than any retained snapshot (non-decreasing clock; equal allowed) -/
def OpMono (m : Meta) : Op → Prop
  | .add now _ _ => ∀ s ∈ m.snaps, s.ts ≤ now
  | _ => True


theorem eq_of_id_eq {l : List Snap} (hnd : (l.map (·.id)).Nodup) {s t : Snap} (hs : s ∈ l) (ht : t ∈ l)
    (h : s.id = t.id) : s = t := by
  induction l with
  | nil => cases hs
  | cons a l ih =>
    simp only [List.map_cons, List.nodup_cons, List.mem_map, not_exists, not_and] at hnd
    simp only [List.mem_cons] at hs ht
    rcases hs with rfl | hs <;> rcases ht with rfl | ht
    · rfl
    · exact absurd h.symm (hnd.1 t ht)
    · exact absurd h (hnd.1 s hs)
    · exact ih hnd.2 hs ht

theorem find?_id {l : List Snap} (hnd : (l.map (·.id)).Nodup) {s : Snap} (hs : s ∈ l) :
    l.find? (fun x => x.id == s.id) = some s := by
  cases hf : l.find? (fun x => x.id == s.id) with
  | none =>
    rw [List.find?_eq_none] at hf
    exact absurd (by simp) (hf s hs)
  | some t =>
    have h1 := List.mem_of_find?_eq_some hf
    have h2 := List.find?_some hf
    simp only [beq_iff_eq] at h2
    rw [eq_of_id_eq hnd h1 hs h2]

theorem parentOf_eq {all : List Snap} (hnd : (all.map (·.id)).Nodup) {s : Snap} (hs : s ∈ all) :
    parentOf all s.id = s.parent := by
  have hnd' : (all.reverse.map (·.id)).Nodup := by
    exact ((List.reverse_perm all).map _).nodup_iff.2 hnd
  have := find?_id hnd' (List.mem_reverse.2 hs)
  simp only [parentOf, this]

theorem Anc.trans {hist : List (Nat × P)} {a b c : Nat} (h1 : Anc hist a b) (h2 : Anc hist b c) : Anc hist a c := by
  induction h2 with
  | refl => exact h1
  | step hm _ ih => exact Anc.step hm ih

theorem Anc.mono {hist hist' : List (Nat × P)} (hsub : ∀ x ∈ hist, x ∈ hist') {a b : Nat} (h : Anc hist a b) :
    Anc hist' a b := by
  induction h with
  | refl => exact Anc.refl _
  | step hm _ ih => exact Anc.step (hsub _ hm) ih

theorem reach_none {all : List Snap} {y : P} (h : Reach all P.none y) : y = P.none := by
  cases h; rfl
theorem reach_root {all : List Snap} {y : P} (h : Reach all P.root y) : y = P.root := by
  cases h; rfl

/-- along current parent links of a well-formed list we only move to true ancestors that are not younger -/
theorem reach_wf {all : List Snap} {hist : List (Nat × P)} (hnd : (all.map (·.id)).Nodup)
    (hpo : ∀ s ∈ all, ∀ p, s.parent = P.id p → ∃ q ∈ all, q.id = p ∧ q.born < s.born)
    (hpa : ∀ s ∈ all, ∀ p, s.parent = P.id p → Anc hist p s.id)
    {x y : P} (h : Reach all x y) :
    ∀ sa ∈ all, x = P.id sa.id → ∀ q, y = P.id q → ∃ sq ∈ all, sq.id = q ∧ sq.born ≤ sa.born ∧ Anc hist q sa.id := by
  induction h with
  | refl p =>
    intro sa hsa hx q hy
    subst hx
    cases hy
    exact ⟨sa, hsa, rfl, Nat.le_refl _, Anc.refl _⟩
  | @step n p hr ih =>
    intro sa hsa hx q hy
    cases hx
    rw [parentOf_eq hnd hsa] at hr ih
    cases hp : sa.parent with
    | none => rw [hp] at hr; subst hy; cases reach_none hr
    | root => rw [hp] at hr; subst hy; cases reach_root hr
    | id p' =>
      obtain ⟨sp, hsp, hspid, hspb⟩ := hpo sa hsa p' hp
      obtain ⟨sq, hsq, hsqid, hsqb, hanc⟩ := ih sp hsp (by rw [hp, hspid]) q hy
      refine ⟨sq, hsq, hsqid, by omega, ?_⟩
      rw [hspid] at hanc
      exact hanc.trans (hpa sa hsa p' hp)


theorem walk_sound (all : List Snap) (kept : List Nat) :
    ∀ (fuel : Nat) (start : P) (seen : List Nat), Good all kept start (walk all kept fuel start seen) := by
  intro fuel
  induction fuel with
  | zero =>
    intro start seen
    cases start <;> simp [walk, Good, Reach.refl]
  | succ n ih =>
    intro start seen
    cases start with
    | none => simp [walk, Good]
    | root => simp [walk, Good, Reach.refl]
    | id p =>
      simp only [walk]
      by_cases hk : p ∈ kept
      · simp [hk, Good, Reach.refl]
      · by_cases hs : p ∈ seen
        · simp [hk, hs, Good]
        · simp only [List.contains_eq_mem, hk, hs, decide_false, Bool.false_eq_true, if_false]
          have := ih (parentOf all p) (p :: seen)
          generalize walk all kept n (parentOf all p) (p :: seen) = r at this ⊢
          cases r with
          | none => simp [Good]
          | root => exact Reach.step this
          | id q => exact ⟨this.1, Reach.step this.2⟩

theorem repoint_correct'' (all kept : List Snap) :
    ∀ s ∈ repoint all kept, ∃ o ∈ kept, o.id = s.id ∧ Good all (kept.map (·.id)) o.parent s.parent := by
  intro s hs
  simp only [repoint, List.mem_map] at hs
  obtain ⟨o, ho, rfl⟩ := hs
  exact ⟨o, ho, rfl, walk_sound _ _ _ _ _⟩

theorem wf_empty'' : WF empty := by
  constructor <;> simp [empty, Meta.ids]

theorem rewrite_preserves_origin'' (es : List Entry) (deleted : List Nat) (same : Bool) (out : List Entry)
    (h : rewrite es deleted = some (same, out)) :
    (∀ e' ∈ out, ∃ e ∈ es, e'.file = e.file ∧ e'.addedSnap = e.addedSnap ∧ e'.seq = e.seq) ∧
    out.map (·.file) = (es.map (·.file)).filter (fun f => !deleted.contains f) := by
  simp only [rewrite] at h
  split at h
  · rename_i hl
    simp only [Option.some.injEq, Prod.mk.injEq] at h
    obtain ⟨-, rfl⟩ := h
    have hl' : (es.filter fun e => !deleted.contains e.file).length = es.length := by simpa using hl
    rw [List.length_filter_eq_length_iff] at hl'
    refine ⟨fun e he => ⟨e, he, rfl, rfl, rfl⟩, ?_⟩
    rw [List.filter_map]
    congr 1
    exact (List.filter_eq_self.2 hl').symm
  · split at h
    · cases h
    · simp only [Option.some.injEq, Prod.mk.injEq] at h
      obtain ⟨-, rfl⟩ := h
      constructor
      · intro e' he'
        simp only [List.mem_map, List.mem_filter] at he'
        obtain ⟨e, ⟨he, -⟩, rfl⟩ := he'
        exact ⟨e, he, rfl, rfl, rfl⟩
      · simp [List.filter_map, Function.comp_def]

theorem rewrite_drops'' (es : List Entry) (deleted : List Nat)
    (h : rewrite es deleted = none) : ∀ e ∈ es, e.file ∈ deleted := by
  simp only [rewrite] at h
  split at h
  · cases h
  · split at h
    · rename_i hne he
      intro e hmem
      simp only [List.isEmpty_iff, List.filter_eq_nil_iff] at he
      simpa using he e hmem
    · cases h


theorem mlog_bounded'' (now f : Nat) (base new : Meta) (k : Int) (hk : new.prevMax = some k) (h1 : 1 ≤ k)
    (hlen : (new.mlog.length : Int) ≤ k) :
    ((stamp now (some f) base new).mlog.length : Int) ≤ k ∧
    ((stamp now (some f) base new).mlog <:+ (new.mlog ++ [(base.lastUpdated, f)]) ∨
      (stamp now (some f) base new).mlog = new.mlog) := by
  have key : ∀ l : List (Nat × Nat), ((l.length : Int) ≤ k + 1) → 
      (((if k ≥ 1 ∧ (l.length : Int) > k then l.drop (l.length - k.toNat) else l).length : Int) ≤ k) ∧
      (if k ≥ 1 ∧ (l.length : Int) > k then l.drop (l.length - k.toNat) else l) <:+ l := by
    intro l hl
    split
    · refine ⟨?_, List.drop_suffix _ _⟩
      simp only [List.length_drop]
      omega
    · exact ⟨by omega, List.suffix_refl _⟩
  have hl : (((new.mlog ++ [(base.lastUpdated, f)]).length : Int) ≤ k + 1) := by
    simp only [List.length_append, List.length_cons, List.length_nil]; omega
  cases hg : new.mlog.getLast? with
  | none =>
    simp only [stamp, hk, hg, Bool.false_eq_true, if_false]
    exact ⟨(key _ hl).1, Or.inl (key _ hl).2⟩
  | some e =>
    simp only [stamp, hk, hg]
    by_cases he : (e.2 == f) = true
    · rw [if_pos he]; exact ⟨hlen, Or.inr rfl⟩
    · rw [if_neg he]; exact ⟨(key _ hl).1, Or.inl (key _ hl).2⟩


/-- whatever the length of the log before (e.g. after the bound was LOWERED), a commit that appends an entry leaves at most
`k` entries: the trim keeps the newest `k`, it does not merely drop one -/
theorem mlog_trimmed'' (now f : Nat) (base new : Meta) (k : Int) (hk : new.prevMax = some k) (h1 : 1 ≤ k)
    (hne : ∀ e, new.mlog.getLast? = some e → (e.2 == f) = false) :
    ((stamp now (some f) base new).mlog.length : Int) ≤ k ∧
    (stamp now (some f) base new).mlog <:+ (new.mlog ++ [(base.lastUpdated, f)]) := by
  have key : ∀ l : List (Nat × Nat),
      (((if k ≥ 1 ∧ (l.length : Int) > k then l.drop (l.length - k.toNat) else l).length : Int) ≤ k) ∧
      (if k ≥ 1 ∧ (l.length : Int) > k then l.drop (l.length - k.toNat) else l) <:+ l := by
    intro l
    split
    · refine ⟨?_, List.drop_suffix _ _⟩
      simp only [List.length_drop]
      omega
    · exact ⟨by omega, List.suffix_refl _⟩
  cases hg : new.mlog.getLast? with
  | none =>
    simp only [stamp, hk, hg, Bool.false_eq_true, if_false]
    exact key _
  | some e =>
    have he := hne e hg
    simp only [stamp, hk, hg, he, Bool.false_eq_true, if_false]
    exact key _

/-- the fields `repoint` never touches -/
def SameBut (s o : Snap) : Prop := s.id = o.id ∧ s.born = o.born ∧ s.seq = o.seq ∧ s.orig = o.orig ∧ s.ts = o.ts

theorem repoint_ids (all kept : List Snap) : (repoint all kept).map (·.id) = kept.map (·.id) := by
  simp [repoint, Function.comp_def]

theorem repoint_fwd {all kept : List Snap} {o : Snap} (ho : o ∈ kept) : ∃ s ∈ repoint all kept, SameBut s o := by
  refine ⟨_, List.mem_map.2 ⟨o, ho, rfl⟩, rfl, rfl, rfl, rfl, rfl⟩

theorem repoint_bwd {all kept : List Snap} {hist : List (Nat × P)} (hnd : (all.map (·.id)).Nodup)
    (hpo : ∀ s ∈ all, ∀ p, s.parent = P.id p → ∃ q ∈ all, q.id = p ∧ q.born < s.born)
    (hpa : ∀ s ∈ all, ∀ p, s.parent = P.id p → Anc hist p s.id)
    (hsub : ∀ s ∈ kept, s ∈ all) {s : Snap} (hs : s ∈ repoint all kept) :
    ∃ o ∈ kept, SameBut s o ∧
      ∀ q, s.parent = P.id q → ∃ k ∈ kept, k.id = q ∧ k.born < o.born ∧ Anc hist q o.id := by
  obtain ⟨o, ho, hid, hgood⟩ := repoint_correct'' all kept s hs
  simp only [repoint, List.mem_map] at hs
  obtain ⟨o', ho', rfl⟩ := hs
  refine ⟨o', ho', ⟨rfl, rfl, rfl, rfl, rfl⟩, ?_⟩
  intro q hq
  have hg := walk_sound all (kept.map (·.id)) (all.length + 1) o'.parent []
  simp only at hq
  rw [hq] at hg
  obtain ⟨hqk, hreach⟩ := hg
  obtain ⟨k, hk, hkid⟩ := List.mem_map.1 hqk
  cases hp : o'.parent with
  | none => rw [hp] at hreach; cases reach_none hreach
  | root => rw [hp] at hreach; cases reach_root hreach
  | id p =>
    rw [hp] at hreach
    obtain ⟨sp, hsp, hspid, hspb⟩ := hpo o' (hsub _ ho') p hp
    obtain ⟨sq, hsq, hsqid, hsqb, hanc⟩ := reach_wf hnd hpo hpa hreach sp hsp (by rw [hspid]) q rfl
    have : k = sq := eq_of_id_eq hnd (hsub _ hk) hsq (by rw [hkid, hsqid])
    subst this
    refine ⟨k, hk, hkid, by omega, ?_⟩
    rw [hspid] at hanc
    exact hanc.trans (hpa o' (hsub _ ho') p hp)

theorem wf_repoint (m : Meta) (h : WF m) (kept : List Snap) (log' : List LogE)
    (hsub : ∀ s ∈ kept, s ∈ m.snaps) (hnd : (kept.map (·.id)).Nodup)
    (hlogsub : log'.Sublist m.log)
    (hlog1 : ∀ e ∈ log', e.id ∈ kept.map (·.id))
    (hlog2 : ∀ s ∈ kept, ∃ e ∈ log', e.id = s.id) :
    WF { m with snaps := repoint m.snaps kept, log := log', cur := P.root } := by
  have bwd := fun s (hs : s ∈ repoint m.snaps kept) =>
    repoint_bwd (hist := m.hist) h.idsNodup h.parentOlder h.parentsAnc hsub hs
  constructor
  · show ((repoint m.snaps kept).map (·.id)).Nodup
    rw [repoint_ids]; exact hnd
  · exact Or.inl rfl
  · intro s hs p hp
    obtain ⟨o, ho, hso, hq⟩ := bwd s hs
    obtain ⟨k, hk, hkid, hkb, -⟩ := hq p hp
    obtain ⟨k', hk', hsk⟩ := repoint_fwd (all := m.snaps) hk
    exact ⟨k', hk', by rw [hsk.1, hkid], by rw [hsk.2.1, hso.2.1]; exact hkb⟩
  · intro s hs p hp
    obtain ⟨o, ho, hso, hq⟩ := bwd s hs
    obtain ⟨k, hk, hkid, hkb, hanc⟩ := hq p hp
    show Anc m.hist p s.id
    rw [hso.1]; exact hanc
  · intro s hs
    obtain ⟨o, ho, hso, -⟩ := bwd s hs
    show s.seq ≤ m.lastSeq
    rw [hso.2.2.1]; exact h.seqLe o (hsub o ho)
  · intro s hs t ht hst
    obtain ⟨o, ho, hso, -⟩ := bwd s hs
    obtain ⟨o', ho', hto, -⟩ := bwd t ht
    rw [hso.2.2.1, hto.2.2.1]
    rw [hso.2.1, hto.2.1] at hst
    exact h.seqMono o (hsub o ho) o' (hsub o' ho') hst
  · intro s hs
    obtain ⟨o, ho, hso, -⟩ := bwd s hs
    show s.born < m.commits
    rw [hso.2.1]; exact h.bornLt o (hsub o ho)
  · intro s hs t ht hst
    have hs' := hs
    have ht' := ht
    simp only [repoint, List.mem_map] at hs' ht'
    obtain ⟨o, ho, rfl⟩ := hs'
    obtain ⟨o', ho', rfl⟩ := ht'
    have : o = o' := h.bornInj o (hsub o ho) o' (hsub o' ho') hst
    subst this; rfl
  · intro e he
    obtain ⟨s, hs, hsid, hsb⟩ := h.logSub e (hlogsub.subset he)
    obtain ⟨k, hk, hkid⟩ := List.mem_map.1 (hlog1 e he)
    have : k = s := eq_of_id_eq h.idsNodup (hsub k hk) hs (by rw [hkid, hsid])
    subst this
    obtain ⟨k', hk', hsk⟩ := repoint_fwd (all := m.snaps) hk
    exact ⟨k', hk', by rw [hsk.1, hsid], by rw [hsk.2.1, hsb]⟩
  · exact h.logOrder.sublist hlogsub
  · intro s hs
    obtain ⟨o, ho, hso, -⟩ := bwd s hs
    show (s.id, s.orig) ∈ m.hist
    rw [hso.1, hso.2.2.2.1]; exact h.histOk o (hsub o ho)
  · intro s hs
    obtain ⟨o, ho, hso, -⟩ := bwd s hs
    obtain ⟨e, he, heid⟩ := hlog2 o ho
    exact ⟨e, he, by rw [heid, hso.1]⟩

theorem wf_setCur (m : Meta) (h : WF m) (c : P)
    (hc : c = P.root ∨ (c = P.none ∧ m.snaps = []) ∨ ∃ s ∈ m.snaps, c = P.id s.id) : WF { m with cur := c } :=
  { h with curOk := hc }


theorem wf_expire (c : Nat) (m : Meta) (h : WF m) : WF (expire c m) := by
  let kept := m.snaps.filter fun s => decide (s.ts ≥ c) || (P.id s.id == m.cur)
  have hsubl : kept.Sublist m.snaps := List.filter_sublist
  have h1 := wf_repoint m h kept (m.log.filter fun e => (kept.map (·.id)).contains e.id)
    (fun s hs => hsubl.subset hs) ((hsubl.map _).nodup h.idsNodup) List.filter_sublist
    (by intro e he; simpa using (List.mem_filter.1 he).2)
    (by
      intro s hs
      obtain ⟨e, he, heid⟩ := h.curLogged s (hsubl.subset hs)
      refine ⟨e, List.mem_filter.2 ⟨he, ?_⟩, heid⟩
      simp only [List.contains_eq_mem, List.mem_map, decide_eq_true_eq]
      exact ⟨s, hs, heid.symm⟩)
  refine wf_setCur _ h1 m.cur ?_
  rcases h.curOk with hc | ⟨hc, hnil⟩ | ⟨s, hs, hc⟩
  · exact Or.inl hc
  · refine Or.inr (Or.inl ⟨hc, ?_⟩)
    show repoint m.snaps kept = []
    simp [repoint, kept, hnil]
  · refine Or.inr (Or.inr ?_)
    have hk : s ∈ kept := List.mem_filter.2 ⟨hs, by simp [hc]⟩
    obtain ⟨s', hs', hss⟩ := repoint_fwd (all := m.snaps) hk
    exact ⟨s', hs', by rw [hss.1]; exact hc⟩


theorem wf_filterIds (m : Meta) (h : WF m) (l : List Snap) (ids : List Nat) (hperm : l.Perm m.snaps)
    (hcur : ∀ c, m.cur = P.id c → c ∈ m.ids → c ∈ ids) :
    WF { m with snaps := repoint m.snaps (l.filter fun s => ids.contains s.id),
                log := m.log.filter fun e => ids.contains e.id } := by
  let kept := l.filter fun s => ids.contains s.id
  have hsubl : kept.Sublist l := List.filter_sublist
  have hsub : ∀ s ∈ kept, s ∈ m.snaps := fun s hs => hperm.mem_iff.1 (hsubl.subset hs)
  have hndl : (l.map (·.id)).Nodup := (hperm.map _).nodup_iff.2 h.idsNodup
  have h1 := wf_repoint m h kept (m.log.filter fun e => ids.contains e.id)
    hsub ((hsubl.map _).nodup hndl) List.filter_sublist
    (by
      intro e he
      obtain ⟨he1, he2⟩ := List.mem_filter.1 he
      obtain ⟨s, hs, hsid, -⟩ := h.logSub e he1
      exact List.mem_map.2 ⟨s, List.mem_filter.2 ⟨hperm.mem_iff.2 hs, by rw [hsid]; exact he2⟩, hsid⟩)
    (by
      intro s hs
      obtain ⟨e, he, heid⟩ := h.curLogged s (hsub s hs)
      exact ⟨e, List.mem_filter.2 ⟨he, by rw [heid]; exact (List.mem_filter.1 hs).2⟩, heid⟩)
  refine wf_setCur _ h1 m.cur ?_
  rcases h.curOk with hc | ⟨hc, hnil⟩ | ⟨s, hs, hc⟩
  · exact Or.inl hc
  · refine Or.inr (Or.inl ⟨hc, ?_⟩)
    show repoint m.snaps kept = []
    have : l = [] := by rw [hnil] at hperm; exact hperm.eq_nil
    simp [repoint, kept, this]
  · refine Or.inr (Or.inr ?_)
    have hk : s ∈ kept := List.mem_filter.2 ⟨hperm.mem_iff.2 hs, by
      simpa using hcur s.id hc (List.mem_map.2 ⟨s, hs, rfl⟩)⟩
    obtain ⟨s', hs', hss⟩ := repoint_fwd (all := m.snaps) hk
    exact ⟨s', hs', by rw [hss.1]; exact hc⟩

theorem retain_ids_cur (m : Meta) (ids0 : List Nat) (c : Nat) (hc : m.cur = P.id c) (hmem : c ∈ m.ids) :
    c ∈ (match m.cur with
        | P.id c => if ids0.contains c then ids0 else
            (match m.snaps.find? (fun (s : Snap) => s.id == c) with | some _ => ids0 ++ [c] | Option.none => ids0)
        | _ => ids0) := by
  rw [hc]
  simp only
  split
  · rename_i hh; simpa using hh
  · split
    · simp
    · rename_i hnone
      rw [List.find?_eq_none] at hnone
      obtain ⟨s, hs, hsid⟩ := List.mem_map.1 hmem
      exact absurd (by simpa using hsid) (hnone s hs)

theorem wf_retain (m : Meta) (h : WF m) : WF (retain m) := by
  unfold retain
  split
  · exact h
  · split
    · exact h
    · exact wf_filterIds m h _ _ (List.mergeSort_perm _ _) (fun c hc hmem => retain_ids_cur m _ c hc hmem)


/-- the metadata right after appending the new snapshot (before expiry / retention) -/
def addRaw (now id : Nat) (base : Meta) : Meta :=
  let seq := base.lastSeq + 1
  let parent := match base.cur with | P.none => P.root | c => c
  let s : Snap := { id := id, ts := now, seq := seq, parent := parent, born := base.commits, orig := parent }
  { base with snaps := base.snaps ++ [s], cur := P.id id, lastSeq := max base.lastSeq seq,
              log := base.log ++ [⟨now, id, base.commits⟩], commits := base.commits + 1,
              hist := base.hist ++ [(id, parent)] }

theorem addSnap_eq (now id : Nat) (cutoff : Option Nat) (base : Meta) :
    addSnap now id cutoff base =
      (let m2 := match cutoff with | some c => expire c (addRaw now id base) | Option.none => addRaw now id base
       if cutoff.isSome && m2.snaps.all (·.id != id) then .error .mutatorRemovedSnapshot
       else .ok (retain m2)) := rfl

theorem wf_addRaw (now id : Nat) (m : Meta) (h : WF m) (hid : id ∉ m.hist.map (·.1)) : WF (addRaw now id m) := by
  have hfresh : ∀ s ∈ m.snaps, s.id ≠ id := by
    intro s hs he
    exact hid (List.mem_map.2 ⟨_, h.histOk s hs, he⟩)
  have hpar : ∀ p, (match m.cur with | P.none => P.root | c => c) = P.id p → ∃ q ∈ m.snaps, q.id = p := by
    intro p hp
    rcases h.curOk with hc | ⟨hc, -⟩ | ⟨s, hs, hc⟩
    · rw [hc] at hp; cases hp
    · rw [hc] at hp; cases hp
    · rw [hc] at hp; cases hp; exact ⟨s, hs, rfl⟩
  constructor
  · show ((m.snaps ++ [_]).map (fun (x : Snap) => x.id)).Nodup
    simp only [List.map_append, List.map_cons, List.map_nil]
    rw [List.nodup_append]
    refine ⟨h.idsNodup, by simp, ?_⟩
    intro a ha b hb
    simp only [List.mem_cons, List.not_mem_nil, or_false] at hb
    obtain ⟨s, hs, rfl⟩ := List.mem_map.1 ha
    rw [hb]; exact hfresh s hs
  · exact Or.inr (Or.inr ⟨_, List.mem_append_right _ (List.mem_singleton.2 rfl), rfl⟩)
  · intro s hs p hp
    simp only [addRaw, List.mem_append, List.mem_singleton] at hs
    rcases hs with hs | rfl
    · obtain ⟨q, hq, hqid, hqb⟩ := h.parentOlder s hs p hp
      exact ⟨q, List.mem_append_left _ hq, hqid, hqb⟩
    · obtain ⟨q, hq, hqid⟩ := hpar p hp
      exact ⟨q, List.mem_append_left _ hq, hqid, h.bornLt q hq⟩
  · intro s hs p hp
    simp only [addRaw, List.mem_append, List.mem_singleton] at hs
    rcases hs with hs | rfl
    · exact (h.parentsAnc s hs p hp).mono (fun x hx => List.mem_append_left _ hx)
    · simp only at hp
      refine Anc.step (p := p) ?_ (Anc.refl _)
      simp only [addRaw, List.mem_append, List.mem_singleton]
      exact Or.inr (by rw [hp])
  · intro s hs
    simp only [addRaw, List.mem_append, List.mem_singleton] at hs ⊢
    rcases hs with hs | rfl
    · have := h.seqLe s hs; omega
    · simp only; omega
  · intro s hs t ht hst
    simp only [addRaw, List.mem_append, List.mem_singleton] at hs ht
    rcases hs with hs | rfl <;> rcases ht with ht | rfl
    · exact h.seqMono s hs t ht hst
    · have := h.seqLe s hs; simp only; omega
    · have := h.bornLt t ht; simp only at hst; omega
    · simp only at hst; omega
  · intro s hs
    simp only [addRaw, List.mem_append, List.mem_singleton] at hs ⊢
    rcases hs with hs | rfl
    · have := h.bornLt s hs; omega
    · simp only; omega
  · intro s hs t ht hst
    simp only [addRaw, List.mem_append, List.mem_singleton] at hs ht
    rcases hs with hs | rfl <;> rcases ht with ht | rfl
    · exact h.bornInj s hs t ht hst
    · have := h.bornLt s hs; simp only at hst; omega
    · have := h.bornLt t ht; simp only at hst; omega
    · rfl
  · intro e he
    simp only [addRaw, List.mem_append, List.mem_singleton] at he ⊢
    rcases he with he | rfl
    · obtain ⟨s, hs, h1, h2⟩ := h.logSub e he
      exact ⟨s, Or.inl hs, h1, h2⟩
    · exact ⟨_, Or.inr rfl, rfl, rfl⟩
  · show (m.log ++ [_]).Pairwise _
    rw [List.pairwise_append]
    refine ⟨h.logOrder, by simp, ?_⟩
    intro a ha b hb
    simp only [List.mem_singleton] at hb
    subst hb
    obtain ⟨s, hs, -, h2⟩ := h.logSub a ha
    have := h.bornLt s hs
    simp only; omega
  · intro s hs
    simp only [addRaw, List.mem_append, List.mem_singleton] at hs ⊢
    rcases hs with hs | rfl
    · exact Or.inl (h.histOk s hs)
    · exact Or.inr rfl
  · intro s hs
    simp only [addRaw, List.mem_append, List.mem_singleton] at hs ⊢
    rcases hs with hs | rfl
    · obtain ⟨e, he, h1⟩ := h.curLogged s hs
      exact ⟨e, Or.inl he, h1⟩
    · exact ⟨_, Or.inr rfl, rfl⟩


theorem mostRecent_spec (m : Meta) (h : WF m) :
    (m.snaps = [] ∧ mostRecent m = P.none) ∨
    (∃ r ∈ m.snaps, mostRecent m = P.id r.id ∧ ∀ s ∈ m.snaps, s.born ≤ r.born) := by
  by_cases hnil : m.snaps = []
  · exact Or.inl ⟨hnil, by simp [mostRecent, hnil]⟩
  · right
    have hne : m.snaps.isEmpty = false := by simpa using hnil
    have hp : ∀ e ∈ m.log, m.ids.contains e.id = true := by
      intro e he
      obtain ⟨s, hs, hsid, -⟩ := h.logSub e he
      simp only [Meta.ids, List.contains_eq_mem, List.mem_map, decide_eq_true_eq]
      exact ⟨s, hs, hsid⟩
    cases hf : m.log.reverse.find? (fun e => m.ids.contains e.id) with
    | none =>
      exfalso
      obtain ⟨a, ha⟩ := List.exists_mem_of_ne_nil _ hnil
      obtain ⟨e, he, -⟩ := h.curLogged a ha
      rw [List.find?_eq_none] at hf
      exact hf e (List.mem_reverse.2 he) (hp e he)
    | some e =>
      simp only [mostRecent, hne, hf, Bool.false_eq_true, if_false]
      obtain ⟨-, as, bs, hrev, has⟩ := List.find?_eq_some_iff_append.1 hf
      have has' : as = [] := by
        cases as with
        | nil => rfl
        | cons a0 as =>
          have h0 : a0 ∈ m.log := List.mem_reverse.1 (by rw [hrev]; simp)
          have := has a0 (List.mem_cons_self)
          rw [hp a0 h0] at this
          cases this
      subst has'
      have hlog : m.log = bs.reverse ++ [e] := by
        have := congrArg List.reverse hrev
        simpa using this
      have hle : ∀ x ∈ m.log, x.born ≤ e.born := by
        intro x hx
        have hord := h.logOrder
        rw [hlog] at hx hord
        rw [List.pairwise_append] at hord
        rcases List.mem_append.1 hx with hx | hx
        · exact Nat.le_of_lt (hord.2.2 x hx e (List.mem_singleton.2 rfl))
        · rw [List.mem_singleton.1 hx]; exact Nat.le_refl _
      have he : e ∈ m.log := by rw [hlog]; simp
      obtain ⟨r, hr, hrid, hrb⟩ := h.logSub e he
      refine ⟨r, hr, by rw [hrid], ?_⟩
      intro s hs
      obtain ⟨es, hes, hesid⟩ := h.curLogged s hs
      obtain ⟨s', hs', hs'id, hs'b⟩ := h.logSub es hes
      have : s' = s := eq_of_id_eq h.idsNodup hs' hs (by rw [hs'id, hesid])
      subst this
      rw [hs'b, hrb]; exact hle es hes

theorem eraseP_id_ne {l : List Snap} (hnd : (l.map (·.id)).Nodup) (i : Nat) :
    ∀ s ∈ l.eraseP (fun x => x.id == i), s.id ≠ i := by
  induction l with
  | nil => intro s hs; cases hs
  | cons a l ih =>
    simp only [List.map_cons, List.nodup_cons, List.mem_map, not_exists, not_and] at hnd
    intro s hs
    rw [List.eraseP_cons] at hs
    cases ha : a.id == i with
    | true =>
      rw [ha] at hs
      simp only [beq_iff_eq] at ha
      intro hsi
      exact hnd.1 s hs (by rw [hsi, ha])
    | false =>
      rw [ha] at hs
      simp only [beq_eq_false_iff_ne, ne_eq] at ha
      rcases List.mem_cons.1 hs with rfl | hs
      · exact ha
      · exact ih hnd.2 s hs

/-- `delSnap` before the current pointer is fixed up -/
def delRaw (id : Nat) (m : Meta) : Meta :=
  { m with snaps := repoint m.snaps (m.snaps.eraseP (fun x => x.id == id)),
           log := m.log.filter (fun e => e.id != id) }

theorem delSnap_spec (id : Nat) (m m' : Meta) (hd : delSnap id m = some m') :
    m.snaps ≠ [] ∧
    m' = (if (delRaw id m).cur == P.id id then { delRaw id m with cur := mostRecent (delRaw id m) }
          else delRaw id m) := by
  unfold delRaw
  unfold delSnap at hd
  split at hd
  · cases hd
  · rename_i i hi
    have he : m.snaps.eraseP (fun x => x.id == id) = m.snaps.eraseIdx i := by
      rw [List.eraseP_eq_eraseIdx, hi]
    rw [he]
    simp only [Option.some.injEq] at hd
    refine ⟨?_, hd.symm⟩
    intro hnil
    rw [hnil] at hi
    simp at hi

theorem wf_delSnap (id : Nat) (m m' : Meta) (h : WF m) (hd : delSnap id m = some m') : WF m' := by
  obtain ⟨hne, rfl⟩ := delSnap_spec id m m' hd
  let kept := m.snaps.eraseP (fun x => x.id == id)
  have hsubl : kept.Sublist m.snaps := List.eraseP_sublist
  have hkne : ∀ s ∈ kept, s.id ≠ id := eraseP_id_ne h.idsNodup id
  have hkmem : ∀ s ∈ m.snaps, s.id ≠ id → s ∈ kept := by
    intro s hs hsi
    exact (List.mem_eraseP_of_neg (by simpa using hsi)).2 hs
  have h1 := wf_repoint m h kept (m.log.filter fun e => e.id != id)
    (fun s hs => hsubl.subset hs) ((hsubl.map _).nodup h.idsNodup) List.filter_sublist
    (by
      intro e he
      obtain ⟨he1, he2⟩ := List.mem_filter.1 he
      obtain ⟨s, hs, hsid, -⟩ := h.logSub e he1
      exact List.mem_map.2 ⟨s, hkmem s hs (by rw [hsid]; simpa using he2), hsid⟩)
    (by
      intro s hs
      obtain ⟨e, he, heid⟩ := h.curLogged s (hsubl.subset hs)
      exact ⟨e, List.mem_filter.2 ⟨he, by rw [heid]; simpa using hkne s hs⟩, heid⟩)
  split
  · refine wf_setCur _ h1 _ ?_
    rcases mostRecent_spec _ h1 with ⟨h2, h3⟩ | ⟨r, hr, hrc, -⟩
    · exact Or.inr (Or.inl ⟨h3, h2⟩)
    · exact Or.inr (Or.inr ⟨r, hr, hrc⟩)
  · rename_i hcne
    refine wf_setCur _ h1 m.cur ?_
    rcases h.curOk with hc | ⟨hc, hnil⟩ | ⟨s, hs, hc⟩
    · exact Or.inl hc
    · exact absurd hnil hne
    · refine Or.inr (Or.inr ?_)
      have hk : s ∈ kept := hkmem s hs (by
        intro hsi
        apply hcne
        show (m.cur == P.id id) = true
        rw [hc, hsi]; exact beq_self_eq_true _)
      obtain ⟨s', hs', hss⟩ := repoint_fwd (all := m.snaps) hk
      exact ⟨s', hs', by rw [hss.1]; exact hc⟩


theorem step_add (m : Meta) (now id : Nat) (cutoff : Option Nat) :
    step m (.add now id cutoff) = m ∨
    step m (.add now id cutoff) =
      retain (match cutoff with | some c => expire c (addRaw now id m) | Option.none => addRaw now id m) := by
  have key : ∀ (b : Bool) (x : Meta),
      (match (if b = true then Except.error Err.mutatorRemovedSnapshot else Except.ok x : Except Err Meta) with
        | .ok m' => m' | .error _ => m) = m ∨
      (match (if b = true then Except.error Err.mutatorRemovedSnapshot else Except.ok x : Except Err Meta) with
        | .ok m' => m' | .error _ => m) = x := by
    intro b x; cases b <;> simp
  exact key _ _

theorem wf_step'' (m : Meta) (op : Op) (h : WF m) (hop : OpOk m op) : WF (step m op) := by
  cases op with
  | add now id cutoff =>
    have hraw := wf_addRaw now id m h hop
    rcases step_add m now id cutoff with he | he
    · rw [he]; exact h
    · rw [he]
      cases cutoff with
      | none => exact wf_retain _ hraw
      | some c => exact wf_retain _ (wf_expire c _ hraw)
  | expireOnly c => exact wf_expire c m h
  | del id =>
    simp only [step]
    cases hd : delSnap id m with
    | none => exact h
    | some m' => exact wf_delSnap id m m' h hd
  | setRetention r => exact { h with }
  | setPrevMax r => exact { h with }

theorem wf_history'' (ops : List Op) : ∀ m, WF m → OpsOk m ops → WF (ops.foldl step m) := by
  induction ops with
  | nil => intro m h _; exact h
  | cons op rest ih =>
    intro m h hok
    exact ih _ (wf_step'' m op h hok.1) hok.2

theorem retain_lastSeq (m : Meta) : (retain m).lastSeq = m.lastSeq := by
  unfold retain
  split
  · rfl
  · split <;> rfl

theorem retain_cur (m : Meta) : (retain m).cur = m.cur := by
  unfold retain
  split
  · rfl
  · split <;> rfl

theorem last_seq_monotone'' (m : Meta) (op : Op) : m.lastSeq ≤ (step m op).lastSeq := by
  cases op with
  | add now id cutoff =>
    rcases step_add m now id cutoff with he | he
    · rw [he]; exact Nat.le_refl _
    · rw [he, retain_lastSeq]
      cases cutoff with
      | none => exact Nat.le_max_left _ _
      | some c => exact Nat.le_max_left _ _
  | expireOnly c => exact Nat.le_refl _
  | del id =>
    simp only [step]
    cases hd : delSnap id m with
    | none => exact Nat.le_refl _
    | some m' =>
      obtain ⟨-, rfl⟩ := delSnap_spec id m m' hd
      simp only
      split <;> exact Nat.le_refl _
  | setRetention r => exact Nat.le_refl _
  | setPrevMax r => exact Nat.le_refl _

theorem lookup_by_id'' (m : Meta) (h : WF m) (s : Snap) (hs : s ∈ m.snaps) : byId s.id m = some s :=
  find?_id h.idsNodup hs

theorem current_never_expired'' (c : Nat) (m : Meta) (i : Nat) (h : m.cur = P.id i) (hi : i ∈ m.ids) :
    (expire c m).cur = P.id i ∧ i ∈ (expire c m).ids := by
  refine ⟨h, ?_⟩
  obtain ⟨s, hs, rfl⟩ := List.mem_map.1 hi
  show s.id ∈ (repoint _ _).map (·.id)
  rw [repoint_ids]
  exact List.mem_map.2 ⟨s, List.mem_filter.2 ⟨hs, by simp [h]⟩, rfl⟩

theorem current_never_retained_away'' (m : Meta) (i : Nat) (h : m.cur = P.id i) (hi : i ∈ m.ids) :
    (retain m).cur = P.id i ∧ i ∈ (retain m).ids := by
  refine ⟨by rw [retain_cur]; exact h, ?_⟩
  unfold retain
  split
  · exact hi
  · split
    · exact hi
    · obtain ⟨s, hs, rfl⟩ := List.mem_map.1 hi
      show s.id ∈ (repoint _ _).map (·.id)
      rw [repoint_ids]
      refine List.mem_map.2 ⟨s, List.mem_filter.2 ⟨(List.mergeSort_perm _ _).mem_iff.2 hs, ?_⟩, rfl⟩
      exact List.contains_iff_mem.2 (retain_ids_cur m _ s.id h hi)

theorem delete_current_repoints'' (m m' : Meta) (h : WF m) (i : Nat) (hc : m.cur = P.id i) (hd : delSnap i m = some m') :
    (m'.snaps = [] ∧ m'.cur = P.none) ∨
    (∃ r ∈ m'.snaps, m'.cur = P.id r.id ∧ ∀ s ∈ m'.snaps, s.born ≤ r.born) := by
  have hwf := wf_delSnap i m m' h hd
  obtain ⟨-, rfl⟩ := delSnap_spec i m m' hd
  have hcur : ((delRaw i m).cur == P.id i) = true := by
    show (m.cur == P.id i) = true
    rw [hc]; exact beq_self_eq_true _
  rw [if_pos hcur] at hwf ⊢
  exact mostRecent_spec _ hwf


def BS (l : List Snap) : Prop := l.Pairwise (fun a b => a.born < b.born)
def TM (l : List Snap) : Prop := ∀ s ∈ l, ∀ t ∈ l, s.born < t.born → s.ts ≤ t.ts

theorem bs_repoint {all kept : List Snap} (h : BS kept) : BS (repoint all kept) := by
  unfold BS repoint
  rw [List.pairwise_map]
  exact h

theorem tm_repoint {all kept : List Snap} (h : TM kept) : TM (repoint all kept) := by
  intro s hs t ht hst
  simp only [repoint, List.mem_map] at hs ht
  obtain ⟨o, ho, rfl⟩ := hs
  obtain ⟨o', ho', rfl⟩ := ht
  exact h o ho o' ho' hst

theorem tm_sub {l kept : List Snap} (hsub : ∀ s ∈ kept, s ∈ l) (h : TM l) : TM kept :=
  fun s hs t ht hst => h s (hsub s hs) t (hsub t ht) hst

theorem sortByTs_eq {l : List Snap} (hb : BS l) (ht : TM l) : sortByTs l = l := by
  unfold sortByTs
  apply List.mergeSort_of_pairwise
  refine List.Pairwise.imp_of_mem ?_ hb
  intro a b ha hb' hab
  simpa using ht a ha b hb' hab

theorem mono_sub (m : Meta) (kept : List Snap) (hsub : kept.Sublist m.snaps) (hb : BornSorted m) (ht : TsMono m) :
    BS (repoint m.snaps kept) ∧ TM (repoint m.snaps kept) :=
  ⟨bs_repoint (List.Pairwise.sublist hsub hb), tm_repoint (tm_sub (fun _ hs => hsub.subset hs) ht)⟩

theorem mono_expire (c : Nat) (m : Meta) (hb : BornSorted m) (ht : TsMono m) :
    BornSorted (expire c m) ∧ TsMono (expire c m) :=
  mono_sub m _ List.filter_sublist hb ht

theorem mono_retain (m : Meta) (hb : BornSorted m) (ht : TsMono m) :
    BornSorted (retain m) ∧ TsMono (retain m) := by
  unfold retain
  split
  · exact ⟨hb, ht⟩
  · split
    · exact ⟨hb, ht⟩
    · have hs : sortByTs m.snaps = m.snaps := sortByTs_eq hb ht
      refine mono_sub m _ ?_ hb ht
      simp only [hs]
      exact List.filter_sublist

theorem mono_addRaw (now id : Nat) (m : Meta) (h : WF m) (hb : BornSorted m) (ht : TsMono m)
    (hm : ∀ s ∈ m.snaps, s.ts ≤ now) :
    BornSorted (addRaw now id m) ∧ TsMono (addRaw now id m) := by
  constructor
  · show (m.snaps ++ [_]).Pairwise _
    rw [List.pairwise_append]
    refine ⟨hb, by simp, ?_⟩
    intro a ha b hb'
    simp only [List.mem_singleton] at hb'
    subst hb'
    exact h.bornLt a ha
  · intro s hs t ht' hst
    simp only [addRaw, List.mem_append, List.mem_singleton] at hs ht'
    rcases hs with hs | rfl <;> rcases ht' with ht' | rfl
    · exact ht s hs t ht' hst
    · exact hm s hs
    · have := h.bornLt t ht'; simp only at hst; omega
    · exact Nat.le_refl _

theorem mono_step'' (m : Meta) (op : Op) (h : WF m) (hb : BornSorted m) (ht : TsMono m) (hop : OpOk m op) (hm : OpMono m op) :
    BornSorted (step m op) ∧ TsMono (step m op) := by
  cases op with
  | add now id cutoff =>
    have hraw := mono_addRaw now id m h hb ht hm
    rcases step_add m now id cutoff with he | he
    · rw [he]; exact ⟨hb, ht⟩
    · rw [he]
      cases cutoff with
      | none => exact mono_retain _ hraw.1 hraw.2
      | some c =>
        have := mono_expire c _ hraw.1 hraw.2
        exact mono_retain _ this.1 this.2
  | expireOnly c => exact mono_expire c m hb ht
  | del id =>
    simp only [step]
    cases hd : delSnap id m with
    | none => exact ⟨hb, ht⟩
    | some m' =>
      show BornSorted m' ∧ TsMono m'
      obtain ⟨-, rfl⟩ := delSnap_spec id m m' hd
      have := mono_sub m (m.snaps.eraseP (fun x => x.id == id)) List.eraseP_sublist hb ht
      split <;> exact this
  | setRetention r => exact ⟨hb, ht⟩
  | setPrevMax r => exact ⟨hb, ht⟩

theorem takeWhile_last (t : Nat) : ∀ (l : List Snap), BS l → TM l →
    (∀ r, (l.takeWhile fun s => decide (s.ts ≤ t)).getLast? = some r →
        r ∈ l ∧ r.ts ≤ t ∧ ∀ s ∈ l, s.ts ≤ t → s.born ≤ r.born) ∧
    ((l.takeWhile fun s => decide (s.ts ≤ t)).getLast? = none → ∀ s ∈ l, ¬ s.ts ≤ t) := by
  intro l
  induction l with
  | nil => intro _ _; simp
  | cons a l ih =>
    intro hb ht
    have hb' : BS l := (List.pairwise_cons.1 hb).2
    have hal : ∀ s ∈ l, a.born < s.born := (List.pairwise_cons.1 hb).1
    have ht' : TM l := tm_sub (fun s hs => List.mem_cons_of_mem _ hs) ht
    have hats : ∀ s ∈ l, a.ts ≤ s.ts := fun s hs => ht a List.mem_cons_self s (List.mem_cons_of_mem _ hs) (hal s hs)
    obtain ⟨ih1, ih2⟩ := ih hb' ht'
    by_cases hat : a.ts ≤ t
    · rw [List.takeWhile_cons_of_pos (by simpa using hat), List.getLast?_cons]
      refine ⟨?_, by simp⟩
      intro r hr
      cases hg : (l.takeWhile fun s => decide (s.ts ≤ t)).getLast? with
      | none =>
        rw [hg] at hr
        simp only [Option.getD_none, Option.some.injEq] at hr
        subst hr
        refine ⟨List.mem_cons_self, hat, ?_⟩
        intro s hs hst
        rcases List.mem_cons.1 hs with rfl | hs
        · exact Nat.le_refl _
        · exact absurd hst (ih2 hg s hs)
      | some r' =>
        rw [hg] at hr
        simp only [Option.getD_some, Option.some.injEq] at hr
        subst hr
        obtain ⟨h1, h2, h3⟩ := ih1 _ hg
        refine ⟨List.mem_cons_of_mem _ h1, h2, ?_⟩
        intro s hs hst
        rcases List.mem_cons.1 hs with rfl | hs
        · exact Nat.le_of_lt (hal _ h1)
        · exact h3 s hs hst
    · rw [List.takeWhile_cons_of_neg (by simpa using hat)]
      refine ⟨by simp, ?_⟩
      intro _ s hs
      rcases List.mem_cons.1 hs with rfl | hs
      · exact hat
      · have := hats s hs; omega

theorem lookup_by_timestamp'' (m : Meta) (_h : WF m) (hs : BornSorted m) (hmono : TsMono m) (t : Nat) :
    (∀ r, byTime t m = some r → r ∈ m.snaps ∧ r.ts ≤ t ∧ ∀ s ∈ m.snaps, s.ts ≤ t → s.born ≤ r.born) ∧
    (byTime t m = none → ∀ s ∈ m.snaps, ¬ s.ts ≤ t) := by
  unfold byTime
  rw [sortByTs_eq hs hmono]
  exact takeWhile_last t m.snaps hs hmono

theorem wf_empty' : WF empty :=
  wf_empty''
/-- with a non-decreasing clock, the snapshot list stays in commit order and timestamps follow commit order -/
theorem mono_step' (m : Meta) (op : Op) (h : WF m) (hb : BornSorted m) (ht : TsMono m) (hop : OpOk m op) (hm : OpMono m op) :
    BornSorted (step m op) ∧ TsMono (step m op) :=
  mono_step'' m op h hb ht hop hm
theorem wf_step' (m : Meta) (op : Op) (h : WF m) (hop : OpOk m op) : WF (step m op) :=
  wf_step'' m op h hop
theorem wf_history' (ops : List Op) (hops : OpsOk empty ops) : WF (run ops) :=
  wf_history'' ops empty wf_empty'' hops
theorem last_seq_monotone' (m : Meta) (op : Op) : m.lastSeq ≤ (step m op).lastSeq :=
  last_seq_monotone'' m op
theorem repoint_correct' (all kept : List Snap) :
    ∀ s ∈ repoint all kept, ∃ o ∈ kept, o.id = s.id ∧ Good all (kept.map (·.id)) o.parent s.parent :=
  repoint_correct'' all kept
theorem current_never_expired' (c : Nat) (m : Meta) (i : Nat) (h : m.cur = P.id i) (hi : i ∈ m.ids) :
    (expire c m).cur = P.id i ∧ i ∈ (expire c m).ids :=
  current_never_expired'' c m i h hi
theorem current_never_retained_away' (m : Meta) (i : Nat) (h : m.cur = P.id i) (hi : i ∈ m.ids) :
    (retain m).cur = P.id i ∧ i ∈ (retain m).ids :=
  current_never_retained_away'' m i h hi
theorem mlog_bounded' (now f : Nat) (base new : Meta) (k : Int) (hk : new.prevMax = some k) (h1 : 1 ≤ k)
    (hlen : (new.mlog.length : Int) ≤ k) :
    ((stamp now (some f) base new).mlog.length : Int) ≤ k ∧
    ((stamp now (some f) base new).mlog <:+ (new.mlog ++ [(base.lastUpdated, f)]) ∨
      (stamp now (some f) base new).mlog = new.mlog) :=
  mlog_bounded'' now f base new k hk h1 hlen
theorem rewrite_preserves_origin' (es : List Entry) (deleted : List Nat) (same : Bool) (out : List Entry)
    (h : rewrite es deleted = some (same, out)) :
    (∀ e' ∈ out, ∃ e ∈ es, e'.file = e.file ∧ e'.addedSnap = e.addedSnap ∧ e'.seq = e.seq) ∧
    out.map (·.file) = (es.map (·.file)).filter (fun f => !deleted.contains f) :=
  rewrite_preserves_origin'' es deleted same out h
theorem rewrite_drops' (es : List Entry) (deleted : List Nat)
    (h : rewrite es deleted = none) : ∀ e ∈ es, e.file ∈ deleted :=
  rewrite_drops'' es deleted h
theorem lookup_by_id' (m : Meta) (h : WF m) (s : Snap) (hs : s ∈ m.snaps) : byId s.id m = some s :=
  lookup_by_id'' m h s hs
theorem lookup_by_timestamp' (m : Meta) (h : WF m) (hs : BornSorted m) (hmono : TsMono m) (t : Nat) :
    (∀ r, byTime t m = some r → r ∈ m.snaps ∧ r.ts ≤ t ∧ ∀ s ∈ m.snaps, s.ts ≤ t → s.born ≤ r.born) ∧
    (byTime t m = none → ∀ s ∈ m.snaps, ¬ s.ts ≤ t) :=
  lookup_by_timestamp'' m h hs hmono t
theorem delete_current_repoints' (m m' : Meta) (h : WF m) (i : Nat) (hc : m.cur = P.id i) (hd : delSnap i m = some m') :
    (m'.snaps = [] ∧ m'.cur = P.none) ∨
    (∃ r ∈ m'.snaps, m'.cur = P.id r.id ∧ ∀ s ∈ m'.snaps, s.born ≤ r.born) :=
  delete_current_repoints'' m m' h i hc hd

end DSV.Meta

