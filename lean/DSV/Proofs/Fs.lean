import DSV.Model.Fs
/-! Proofs behind `DSV/Props/C16.lean`. -/
namespace DSV.Fs

/-- the event does not create, write, rename or unlink path `p` -/
def Untouched (p : Nat) : Ev → Prop
  | .creat q _ => q ≠ p
  | .write q => q ≠ p
  | .fsync _ => True
  | .rename src dst => src ≠ p ∧ dst ≠ p
  | .fsyncDir _ => True
  | .unlink q => q ≠ p

/-- ids of a commit are pairwise distinct and every final path knows its directory -/
structure WfCommit (files : List W) (hint : W) (s : St) : Prop where
  finNodup : ((files ++ [hint]).map (·.fin)).Nodup
  tmpNodup : ((files ++ [hint]).map (·.tmp)).Nodup
  disjoint : ∀ a ∈ files ++ [hint], ∀ b ∈ files ++ [hint], a.tmp ≠ b.fin
  dirs : ∀ w ∈ files ++ [hint], (s w.fin).dir = w.dir

@[simp] theorem set_same (s : St) (p : Nat) (v : PathSt) : set s p v p = v := by simp [set]

@[simp] theorem set_other (s : St) (p x : Nat) (v : PathSt) (h : x ≠ p) : set s p v x = s x := by
  simp [set, h]

theorem run_nil (s : St) : run s [] = s := rfl

theorem run_cons (s : St) (e : Ev) (evs : List Ev) : run s (e :: evs) = run (apply s e) evs := rfl

theorem run_append (s : St) (a b : List Ev) : run s (a ++ b) = run (run s a) b := by
  simp [run, List.foldl_append]

theorem atomic_write_durable' (s : St) (t p d : Nat) (h : t ≠ p) (hd : (s p).dir = d) :
    Durable (run s (lowerWrite t p d)) p := by
  have h' : p ≠ t := Ne.symm h
  subst hd
  simp [run, lowerWrite, List.foldl, apply, Durable, set, h', absent]

theorem durable_stable' (s : St) (p : Nat) (e : Ev) (hd : Durable s p) (hu : Untouched p e) : Durable (apply s e) p := by
  obtain ⟨h1, h2, h3, h4⟩ := hd
  cases e with
  | creat q d => simp [Untouched] at hu; simp [apply, Durable, set, Ne.symm hu, h1, h2, h3, h4]
  | write q => simp [Untouched] at hu; simp [apply, Durable, set, Ne.symm hu, h1, h2, h3, h4]
  | fsync q =>
      by_cases hq : p = q
      · subst hq; simp [apply, Durable, h1, h2, h4]
      · simp [apply, Durable, set, hq, h1, h2, h3, h4]
  | rename a b =>
      simp [Untouched] at hu
      simp [apply, Durable, set, Ne.symm hu.1, Ne.symm hu.2, h1, h2, h3, h4]
  | fsyncDir d =>
      simp only [apply, Durable]
      split <;> simp [h1, h2, h3, h4]
  | unlink q => simp [Untouched] at hu; simp [apply, Durable, set, Ne.symm hu, h1, h2, h3, h4]

/-- before the rename, the lowering of a write does not touch the target at all -/
theorem lower_atomic' (s : St) (t p d : Nat) (h : t ≠ p) (k : Nat) (hk : k ≤ 3) :
    run s ((lowerWrite t p d).take k) p = s p := by
  have h' : p ≠ t := Ne.symm h
  match k, hk with
  | 0, _ => simp [run, lowerWrite]
  | 1, _ => simp [run, lowerWrite, apply, set, h']
  | 2, _ => simp [run, lowerWrite, apply, set, h']
  | 3, _ => simp [run, lowerWrite, apply, set, h']

/-! ### the judge -/

theorem go_nil (hint : Nat) (reach : List Nat) (s : St) (fl : Bool) (i : Nat) :
    judge.go hint reach s fl i [] = none := by
  simp [judge.go]

/-- the event is a rename onto the pointer -/
def isFlip (hint : Nat) : Ev → Bool
  | .rename _ dst => dst == hint
  | _ => false

theorem isFlip_rename (hint src : Nat) : isFlip hint (.rename src hint) = true := by simp [isFlip]

theorem go_cons (hint : Nat) (reach : List Nat) (s : St) (fl : Bool) (i : Nat) (e : Ev) (rest : List Ev) :
    judge.go hint reach s fl i (e :: rest) =
      if ((fl || isFlip hint e) && !(reach.all fun p => decide (Durable (apply s e) p))) = true then some i
      else judge.go hint reach (apply s e) (fl || isFlip hint e) (i + 1) rest := by
  cases e <;> simp [judge.go, isFlip]

theorem go_sound (hint : Nat) (reach : List Nat) :
    ∀ (evs : List Ev) (s : St) (fl : Bool) (i : Nat), judge.go hint reach s fl i evs = none →
      ∀ k, k ≤ evs.length → 1 ≤ k →
        (fl = true ∨ ∃ j, j < k ∧ ∃ src, evs[j]? = some (.rename src hint)) →
        ∀ p ∈ reach, Durable (run s (evs.take k)) p := by
  intro evs
  induction evs with
  | nil => intro s fl i _ k hk hk1; simp at hk; omega
  | cons e rest ih =>
    intro s fl i h k hk hk1 hfl p hp
    rw [go_cons] at h
    by_cases hc : ((fl || isFlip hint e) && !(reach.all fun p => decide (Durable (apply s e) p))) = true
    · rw [if_pos hc] at h; cases h
    · rw [if_neg hc] at h
      have hfl' : (fl = true ∨ ∃ src, e = .rename src hint) → (fl || isFlip hint e) = true := by
        intro hflag
        rcases hflag with hflag | ⟨src, rfl⟩
        · simp [hflag]
        · simp [isFlip_rename]
      match k, hk1 with
      | k' + 1, _ =>
        rw [List.take_succ_cons, run_cons]
        by_cases hk0 : k' = 0
        · subst hk0
          have hflag : fl = true ∨ ∃ src, e = .rename src hint := by
            rcases hfl with hfl | ⟨j, hj, src, hsrc⟩
            · exact Or.inl hfl
            · have : j = 0 := by omega
              subst this
              simp at hsrc
              exact Or.inr ⟨src, hsrc⟩
          rw [hfl' hflag] at hc
          simp at hc
          simpa [run] using hc p hp
        · have hk' : k' ≤ rest.length := by simp at hk; omega
          refine ih (apply s e) _ (i + 1) h k' hk' (by omega) ?_ p hp
          rcases hfl with hfl | ⟨j, hj, src, hsrc⟩
          · exact Or.inl (hfl' (Or.inl hfl))
          · cases j with
            | zero =>
              simp at hsrc
              exact Or.inl (hfl' (Or.inr ⟨src, hsrc⟩))
            | succ j' =>
              simp at hsrc
              exact Or.inr ⟨j', by omega, src, hsrc⟩

theorem judge_sound' (hint : Nat) (reach : List Nat) (s : St) (evs : List Ev) (h : judge hint reach s evs = none) :
    ∀ k, k ≤ evs.length → (∃ j, j < k ∧ ∃ src, evs[j]? = some (.rename src hint)) →
      ∀ p ∈ reach, Durable (run s (evs.take k)) p := by
  intro k hk hj
  have hk1 : 1 ≤ k := by
    obtain ⟨j, hj, _⟩ := hj
    omega
  exact go_sound hint reach evs s false 0 h k hk hk1 (Or.inr hj)

/-! ### the commit trace -/

theorem untouched_dir (s : St) (p : Nat) (e : Ev) (hu : Untouched p e) : (apply s e p).dir = (s p).dir := by
  cases e with
  | creat q d => simp [Untouched] at hu; simp [apply, set, Ne.symm hu]
  | write q => simp [Untouched] at hu; simp [apply, set, Ne.symm hu]
  | fsync q =>
      by_cases hq : p = q
      · subst hq; simp [apply]
      · simp [apply, set, hq]
  | rename a b =>
      simp [Untouched] at hu
      simp [apply, set, Ne.symm hu.1, Ne.symm hu.2]
  | fsyncDir d =>
      simp only [apply]
      split <;> simp
  | unlink q => simp [Untouched] at hu; simp [apply, set, Ne.symm hu]

theorem run_untouched_dir (p : Nat) : ∀ (evs : List Ev) (s : St), (∀ e ∈ evs, Untouched p e) →
    (run s evs p).dir = (s p).dir := by
  intro evs
  induction evs with
  | nil => intro s _; rfl
  | cons e rest ih =>
    intro s h
    rw [run_cons, ih _ (fun e' he' => h e' (List.mem_cons_of_mem _ he')),
      untouched_dir s p e (h e List.mem_cons_self)]

theorem run_durable_stable (p : Nat) : ∀ (evs : List Ev) (s : St), (∀ e ∈ evs, Untouched p e) →
    Durable s p → Durable (run s evs) p := by
  intro evs
  induction evs with
  | nil => intro s _ h; exact h
  | cons e rest ih =>
    intro s h hd
    rw [run_cons]
    exact ih _ (fun e' he' => h e' (List.mem_cons_of_mem _ he'))
      (durable_stable' s p e hd (h e List.mem_cons_self))

theorem lowerWrite_untouched (t p d q : Nat) (ht : t ≠ q) (hp : p ≠ q) : ∀ e ∈ lowerWrite t p d, Untouched q e := by
  intro e he
  simp [lowerWrite] at he
  rcases he with rfl | rfl | rfl | rfl | rfl <;> simp [Untouched, ht, hp]

theorem lowerWrite_noflip (t p d hint : Nat) (hp : p ≠ hint) : ∀ e ∈ lowerWrite t p d, isFlip hint e = false := by
  intro e he
  simp [lowerWrite] at he
  rcases he with rfl | rfl | rfl | rfl | rfl <;> simp [isFlip, hp]

/-- all the files of a commit are durable once their lowerings have run -/
theorem files_durable : ∀ (files : List W) (s : St),
    (∀ a ∈ files, ∀ b ∈ files, a.tmp ≠ b.fin) →
    files.Pairwise (fun a b => a.fin ≠ b.fin) →
    (∀ w ∈ files, (s w.fin).dir = w.dir) →
    ∀ w ∈ files, Durable (run s (files.flatMap (fun w => lowerWrite w.tmp w.fin w.dir))) w.fin := by
  intro files
  induction files with
  | nil => intro s _ _ _ w hw; cases hw
  | cons a rest ih =>
    intro s hdis hfin hdirs w hw
    rw [List.flatMap_cons, run_append]
    rw [List.pairwise_cons] at hfin
    rcases List.mem_cons.1 hw with rfl | hw'
    · -- the head: durable after its own lowering, untouched by the others
      apply run_durable_stable
      · intro e he
        obtain ⟨b, hb, heb⟩ := List.mem_flatMap.1 he
        exact lowerWrite_untouched b.tmp b.fin b.dir w.fin
          (hdis b (List.mem_cons_of_mem _ hb) w List.mem_cons_self)
          (Ne.symm (hfin.1 b hb)) e heb
      · exact atomic_write_durable' s w.tmp w.fin w.dir (hdis w List.mem_cons_self w List.mem_cons_self)
          (hdirs w List.mem_cons_self)
    · apply ih
      · intro x hx y hy
        exact hdis x (List.mem_cons_of_mem _ hx) y (List.mem_cons_of_mem _ hy)
      · exact hfin.2
      · intro b hb
        rw [run_untouched_dir b.fin _ s
          (lowerWrite_untouched a.tmp a.fin a.dir b.fin
            (hdis a List.mem_cons_self b (List.mem_cons_of_mem _ hb)) (hfin.1 b hb))]
        exact hdirs b (List.mem_cons_of_mem _ hb)
      · exact hw'

/-- a prefix without a rename onto the pointer is skipped by the judge -/
theorem go_noflip_append (hint : Nat) (reach : List Nat) (b : List Ev) :
    ∀ (a : List Ev) (s : St) (i : Nat), (∀ e ∈ a, isFlip hint e = false) →
      ∃ i', judge.go hint reach s false i (a ++ b) = judge.go hint reach (run s a) false i' b := by
  intro a
  induction a with
  | nil => intro s i _; exact ⟨i, rfl⟩
  | cons e rest ih =>
    intro s i h
    have he : isFlip hint e = false := h e List.mem_cons_self
    obtain ⟨i', hi'⟩ := ih (apply s e) (i + 1) (fun e' he' => h e' (List.mem_cons_of_mem _ he'))
    refine ⟨i', ?_⟩
    rw [List.cons_append, go_cons, he, run_cons]
    simpa using hi'

theorem all_durable (reach : List Nat) (s : St) (h : ∀ p ∈ reach, Durable s p) :
    (reach.all fun p => decide (Durable s p)) = true := by
  rw [List.all_eq_true]
  intro p hp
  exact decide_eq_true (h p hp)

/-- the pointer's own lowering is accepted when everything reachable is already durable and is not touched by it -/
theorem go_hint (hint : Nat) (reach : List Nat) (s : St) (i t d : Nat)
    (hd : ∀ p ∈ reach, Durable s p) (hu : ∀ p ∈ reach, t ≠ p ∧ hint ≠ p) :
    judge.go hint reach s false i (lowerWrite t hint d) = none := by
  have hun : ∀ p ∈ reach, ∀ e ∈ lowerWrite t hint d, Untouched p e :=
    fun p hp => lowerWrite_untouched t hint d p (hu p hp).1 (hu p hp).2
  have h4 : ∀ p ∈ reach, Durable (run s ((lowerWrite t hint d).take 4)) p := fun p hp =>
    run_durable_stable p _ s (fun e he => hun p hp e (List.mem_of_mem_take he)) (hd p hp)
  have h5 : ∀ p ∈ reach, Durable (run s (lowerWrite t hint d)) p := fun p hp =>
    run_durable_stable p _ s (hun p hp) (hd p hp)
  have a4 := all_durable reach _ h4
  have a5 := all_durable reach _ h5
  simp only [lowerWrite, List.take, run, List.foldl] at a4 a5
  simp [lowerWrite, go_cons, go_nil, isFlip, a4, a5]

theorem commit_durable' (files : List W) (hint : W) (s : St) (hwf : WfCommit files hint s) :
    judge hint.fin (files.map (·.fin)) s (commitTrace files hint) = none := by
  obtain ⟨hfin, _, hdis, hdirs⟩ := hwf
  have hfin' : (files ++ [hint]).Pairwise (fun a b => a.fin ≠ b.fin) := by
    have := hfin
    unfold List.Nodup at this
    rw [List.pairwise_map] at this
    exact this
  rw [List.pairwise_append] at hfin'
  obtain ⟨hfinF, _, hfinH⟩ := hfin'
  have hne : ∀ w ∈ files, w.fin ≠ hint.fin := fun w hw => hfinH w hw hint (List.mem_singleton.2 rfl)
  have hmemF : ∀ w ∈ files, w ∈ files ++ [hint] := fun w hw => List.mem_append_left _ hw
  have hmemH : hint ∈ files ++ [hint] := List.mem_append_right _ (List.mem_singleton.2 rfl)
  unfold judge commitTrace
  obtain ⟨i', hi'⟩ := go_noflip_append hint.fin (files.map (·.fin)) (lowerWrite hint.tmp hint.fin hint.dir)
    (files.flatMap (fun w => lowerWrite w.tmp w.fin w.dir)) s 0 (by
      intro e he
      obtain ⟨w, hw, hew⟩ := List.mem_flatMap.1 he
      exact lowerWrite_noflip w.tmp w.fin w.dir hint.fin (hne w hw) e hew)
  rw [hi']
  apply go_hint
  · intro p hp
    obtain ⟨w, hw, rfl⟩ := List.mem_map.1 hp
    exact files_durable files s (fun a ha b hb => hdis a (hmemF a ha) b (hmemF b hb)) hfinF
      (fun w hw => hdirs w (hmemF w hw)) w hw
  · intro p hp
    obtain ⟨w, hw, rfl⟩ := List.mem_map.1 hp
    exact ⟨hdis hint hmemH w (hmemF w hw), Ne.symm (hne w hw)⟩

end DSV.Fs
