import DSV.Model.Create
/-! Proofs behind `DSV/Props/C18.lean`. -/
namespace DSV.Create

/-- every caller that has finished ended up on table `u` -/
def AllOn (s : Sys) (u : Nat) : Prop := ∀ a v, s.pc a = .done (some v) → v = u

/-! ### projections of the state updates -/

@[simp] theorem setPc_pc (s : Sys) (a : Nat) (p : Pc) (x : Nat) :
    (setPc s a p).pc x = if x = a then p else s.pc x := rfl
@[simp] theorem setPc_files (s : Sys) (a : Nat) (p : Pc) : (setPc s a p).files = s.files := rfl
@[simp] theorem setPc_hint (s : Sys) (a : Nat) (p : Pc) : (setPc s a p).hint = s.hint := rfl
@[simp] theorem setPc_inits (s : Sys) (a : Nat) (p : Pc) : (setPc s a p).inits = s.inits := rfl
@[simp] theorem setPc_holder (s : Sys) (a : Nat) (p : Pc) : (setPc s a p).holder = s.holder := rfl
@[simp] theorem setPc_nextFid (s : Sys) (a : Nat) (p : Pc) : (setPc s a p).nextFid = s.nextFid := rfl

@[simp] theorem releaseLock_pc (s : Sys) (a : Nat) : (releaseLock s a).pc = s.pc := by
  unfold releaseLock; split <;> rfl
@[simp] theorem releaseLock_files (s : Sys) (a : Nat) : (releaseLock s a).files = s.files := by
  unfold releaseLock; split <;> rfl
@[simp] theorem releaseLock_hint (s : Sys) (a : Nat) : (releaseLock s a).hint = s.hint := by
  unfold releaseLock; split <;> rfl
@[simp] theorem releaseLock_inits (s : Sys) (a : Nat) : (releaseLock s a).inits = s.inits := by
  unfold releaseLock; split <;> rfl
theorem releaseLock_holder_ne (s : Sys) (a b : Nat) (h : b ≠ a) (hb : s.holder = some b) :
    (releaseLock s a).holder = some b := by
  unfold releaseLock
  split
  · rename_i h1; rw [hb] at h1; exact absurd (Option.some.inj h1) h
  · exact hb

theorem resolve_congr (s1 s2 : Sys) (hf : s1.files = s2.files) (hh : s1.hint = s2.hint) :
    resolve s1 = resolve s2 := by
  unfold resolve lookup; rw [hf, hh]

theorem resolve_nil (s : Sys) (hf : s.files = []) (hh : s.hint = none) : resolve s = none := by
  unfold resolve lookup; rw [hf, hh]; rfl

theorem resolve_single_none (s : Sys) (f : MFile) (hf : s.files = [f]) (hh : s.hint = none) :
    resolve s = some f := by
  unfold resolve lookup; rw [hf, hh]; rfl

theorem resolve_single_some (s : Sys) (f : MFile) (hf : s.files = [f]) (hh : s.hint = some f.fid) :
    resolve s = some f := by
  unfold resolve lookup; rw [hf, hh]; simp

/-! ### schedules stay inside `Reach` -/

theorem reach_run (cfg : Cfg) (files : List MFile) (hint : Option Nat) (creator : Nat → Bool) (sched : List (Nat × Act)) :
    ∀ s s', Reach cfg files hint creator s → run cfg s sched = some s' → Reach cfg files hint creator s' := by
  induction sched with
  | nil =>
      intro s s' hr h
      simp only [run, Option.some.injEq] at h
      subst h; exact hr
  | cons p rest ih =>
      intro s s' hr h
      obtain ⟨a, act⟩ := p
      simp only [run] at h
      split at h
      · rename_i s1 h1
        exact ih _ _ (Reach.step a act hr h1) h
      · cases h

/-! ### identity_preserved -/

def IdInv (files : List MFile) (hint : Option Nat) (t : MFile) (s : Sys) : Prop :=
  s.files = files ∧ s.hint = hint ∧ s.inits = [] ∧ ∀ a, s.pc a = .idle ∨ s.pc a = .done (some t.uuid)

theorem idInv_step (cfg : Cfg) (files : List MFile) (hint : Option Nat) (creator : Nat → Bool) (t : MFile)
    (h0 : resolve (init files hint creator) = some t) (s s' : Sys) (a : Nat) (act : Act)
    (inv : IdInv files hint t s) (hs : step cfg s a act = some s') : IdInv files hint t s' := by
  obtain ⟨hf, hh, hi, hp⟩ := inv
  have hres : resolve s = some t := (resolve_congr s (init files hint creator) hf hh).trans h0
  cases act
  case open_ =>
    simp only [step] at hs
    rcases hp a with h | h
    · rw [h, hres] at hs
      simp only [Option.some.injEq] at hs
      subst hs
      refine ⟨hf, hh, hi, ?_⟩
      intro x
      simp only [setPc_pc]
      split
      · exact Or.inr rfl
      · exact hp x
    · rw [h] at hs; simp at hs
  all_goals
    simp only [step] at hs
    rcases hp a with h | h <;> rw [h] at hs <;> simp at hs

/-- an existing (resolvable) table is never re-initialised and keeps its identity, whatever the lock and backend -/
theorem identity_preserved' (cfg : Cfg) (files : List MFile) (hint : Option Nat) (creator : Nat → Bool) (t : MFile)
    (h0 : resolve (init files hint creator) = some t) (s : Sys) (hr : Reach cfg files hint creator s) :
    s.inits = [] ∧ resolve s = some t ∧ AllOn s t.uuid ∧ s.files = files ∧ s.hint = hint := by
  have inv : IdInv files hint t s := by
    induction hr with
    | init => exact ⟨rfl, rfl, rfl, fun _ => Or.inl rfl⟩
    | step a act _ hs ih => exact idInv_step cfg files hint creator t h0 _ _ a act ih hs
  obtain ⟨hf, hh, hi, hp⟩ := inv
  refine ⟨hi, (resolve_congr s (init files hint creator) hf hh).trans h0, ?_, hf, hh⟩
  intro a v hv
  rcases hp a with h | h
  · rw [h] at hv; cases hv
  · rw [h] at hv; cases hv; rfl

/-! ### one_init (exclusive lock) -/

def InLock : Pc → Prop
  | .locked | .checked | .wrote _ | .flipped _ | .lost _ => True
  | _ => False

def LockInv (s : Sys) : Prop := ∀ a, InLock (s.pc a) → s.holder = some a

theorem lockInv_step (cfg : Cfg) (hx : cfg.exclusive = true) (s s' : Sys) (a : Nat) (act : Act)
    (hl : LockInv s) (hs : step cfg s a act = some s') : LockInv s' := by
  cases act <;> simp only [step, hx, ↓reduceIte] at hs
  all_goals repeat' (split at hs)
  all_goals first | (cases hs; done) | skip
  all_goals
    cases hs
    intro x hxl
    by_cases hxa : x = a
    · subst hxa
      first
        | (simp [InLock] at hxl; done)
        | rfl
        | (simp; apply hl; simp [*, InLock]; done)
    · simp [hxa] at hxl ⊢
      have := hl x hxl
      first
        | exact this
        | (simp [*] at this; done)
        | exact releaseLock_holder_ne s a x hxa this

def Ok0 : Pc → Prop
  | .idle | .wantInit | .locked | .checked | .done none => True
  | _ => False

def Ok1 (f : MFile) : Pc → Prop
  | .idle | .wantInit | .locked | .done none | .lost none => True
  | .wrote g => g = f
  | .done (some v) => v = f.uuid
  | _ => False

def Ok2 (f : MFile) : Pc → Prop
  | .idle | .wantInit | .locked | .done none | .lost _ => True
  | .flipped g => g = f
  | .done (some v) => v = f.uuid
  | _ => False

theorem ok0_ok1 (f : MFile) (p : Pc) (h : Ok0 p) (hn : ¬ InLock p) : Ok1 f p := by
  cases p with
  | done o => cases o <;> simp_all [Ok0, Ok1, InLock]
  | _ => simp_all [Ok0, Ok1, InLock]

theorem ok1_ok2 (f : MFile) (p : Pc) (h : Ok1 f p) (hn : ¬ InLock p) : Ok2 f p := by
  cases p with
  | done o => cases o <;> simp_all [Ok1, Ok2, InLock]
  | _ => simp_all [Ok1, Ok2, InLock]

theorem forall_setPc (P : Pc → Prop) (s : Sys) (a : Nat) (p : Pc) (h : P p) (hp : ∀ x, x ≠ a → P (s.pc x)) :
    ∀ x, P ((setPc s a p).pc x) := by
  intro x
  simp only [setPc_pc]
  split
  · exact h
  · exact hp x ‹_›

theorem other_not_inLock (s : Sys) (hl : LockInv s) (a : Nat) (ha : InLock (s.pc a)) (x : Nat) (hxa : x ≠ a) :
    ¬ InLock (s.pc x) := by
  intro h
  have h1 := hl x h
  rw [hl a ha] at h1
  exact hxa (Option.some.inj h1).symm

def Phase (s : Sys) : Prop :=
  (s.files = [] ∧ s.hint = none ∧ s.inits = [] ∧ ∀ a, Ok0 (s.pc a)) ∨
  (∃ f, s.files = [f] ∧ s.hint = none ∧ s.inits = [] ∧ ∀ a, Ok1 f (s.pc a)) ∨
  (∃ f w, s.files = [f] ∧ s.hint = some f.fid ∧ s.inits = [w] ∧ ∀ a, Ok2 f (s.pc a))

set_option linter.unusedSimpArgs false in
theorem phase_step (cfg : Cfg) (hx : cfg.exclusive = true) (s s' : Sys) (a : Nat) (act : Act)
    (hl : LockInv s) (ph : Phase s) (hs : step cfg s a act = some s') : Phase s' := by
  rcases ph with ⟨hf, hh, hi, hp⟩ | ⟨f, hf, hh, hi, hp⟩ | ⟨f, w, hf, hh, hi, hp⟩
  · -- nothing on storage yet
    have hres := resolve_nil s hf hh
    have hpa := hp a
    cases act
    case open_ =>
      simp only [step, hx, hres, ↓reduceIte] at hs
      split at hs
      all_goals first | (cases hs; done) | (simp [*, Ok0] at hpa; done) | skip
      split at hs <;> cases hs <;>
        exact Or.inl ⟨hf, hh, hi, forall_setPc Ok0 s a _ trivial (fun x _ => hp x)⟩
    case acquire =>
      simp only [step, hx, hres, ↓reduceIte] at hs
      split at hs
      all_goals first | (cases hs; done) | (simp [*, Ok0] at hpa; done) | skip
      split at hs
      · cases hs
        exact Or.inl ⟨hf, hh, hi, forall_setPc Ok0 s a _ trivial (fun x _ => hp x)⟩
      · cases hs
    case check =>
      simp only [step, hx, hres, ↓reduceIte] at hs
      split at hs
      all_goals first | (cases hs; done) | (simp [*, Ok0] at hpa; done) | skip
      cases hs
      exact Or.inl ⟨hf, hh, hi, forall_setPc Ok0 s a _ trivial (fun x _ => hp x)⟩
    case writeV0 =>
      simp only [step, hx, hres, ↓reduceIte] at hs
      split at hs
      all_goals first | (cases hs; done) | (simp [*, Ok0] at hpa; done) | skip
      rename_i heq
      cases hs
      have ha : InLock (s.pc a) := by rw [heq]; trivial
      refine Or.inr (Or.inl ⟨⟨s.nextFid, a, 0⟩, ?_, hh, hi, ?_⟩)
      · show _ :: s.files = _
        rw [hf]
      · exact forall_setPc (Ok1 _) s a _ rfl
          (fun x hxa => ok0_ok1 _ _ (hp x) (other_not_inLock s hl a ha x hxa))
    case flip =>
      simp only [step, hx, hres, ↓reduceIte] at hs
      split at hs
      all_goals first | (cases hs; done) | (simp [*, Ok0] at hpa; done) | skip
    case release =>
      simp only [step, hx, hres, ↓reduceIte] at hs
      split at hs
      all_goals first | (cases hs; done) | (simp [*, Ok0] at hpa; done) | skip
  · -- one v0 written, pointer not yet
    have hres := resolve_single_none s f hf hh
    have hpa := hp a
    cases act
    case open_ =>
      simp only [step, hx, hres, ↓reduceIte] at hs
      split at hs
      all_goals first | (cases hs; done) | (simp [*, Ok1] at hpa; done) | skip
      cases hs
      exact Or.inr (Or.inl ⟨f, hf, hh, hi, forall_setPc (Ok1 f) s a _ rfl (fun x _ => hp x)⟩)
    case acquire =>
      simp only [step, hx, hres, ↓reduceIte] at hs
      split at hs
      all_goals first | (cases hs; done) | (simp [*, Ok1] at hpa; done) | skip
      split at hs
      · cases hs
        exact Or.inr (Or.inl ⟨f, hf, hh, hi, forall_setPc (Ok1 f) s a _ trivial (fun x _ => hp x)⟩)
      · cases hs
    case check =>
      simp only [step, hx, hres, ↓reduceIte] at hs
      split at hs
      all_goals first | (cases hs; done) | (simp [*, Ok1] at hpa; done) | skip
      cases hs
      exact Or.inr (Or.inl ⟨f, hf, hh, hi, forall_setPc (Ok1 f) s a _ trivial (fun x _ => hp x)⟩)
    case writeV0 =>
      simp only [step, hx, hres, ↓reduceIte] at hs
      split at hs
      all_goals first | (cases hs; done) | (simp [*, Ok1] at hpa; done) | skip
    case flip =>
      simp only [step, hx, hres, ↓reduceIte] at hs
      split at hs
      all_goals first | (cases hs; done) | (simp [*, Ok1] at hpa; done) | skip
      rename_i g heq
      have ha : InLock (s.pc a) := by rw [heq]; trivial
      have hg : g = f := by rw [heq] at hpa; exact hpa
      subst hg
      have key : Phase { setPc s a (.flipped g) with hint := some g.fid, inits := a :: s.inits } := by
        refine Or.inr (Or.inr ⟨g, a, hf, rfl, ?_, ?_⟩)
        · show a :: s.inits = _
          rw [hi]
        · exact forall_setPc (Ok2 g) s a _ rfl
            (fun x hxa => ok1_ok2 _ _ (hp x) (other_not_inLock s hl a ha x hxa))
      rw [hh] at hs
      split at hs <;> cases hs <;> exact key
    case release =>
      simp only [step, hx, hres, ↓reduceIte] at hs
      split at hs
      all_goals first | (cases hs; done) | (simp [*, Ok1] at hpa; done) | skip
      cases hs
      have hres' : resolve (releaseLock s a) = some f :=
        resolve_single_none _ f (by rw [releaseLock_files]; exact hf) (by rw [releaseLock_hint]; exact hh)
      rw [hres']
      refine Or.inr (Or.inl ⟨f, by rw [setPc_files, releaseLock_files]; exact hf,
        by rw [setPc_hint, releaseLock_hint]; exact hh, by rw [setPc_inits, releaseLock_inits]; exact hi, ?_⟩)
      exact forall_setPc (Ok1 f) _ a _ rfl (fun x _ => by rw [releaseLock_pc]; exact hp x)
  · -- pointer set
    have hres := resolve_single_some s f hf hh
    have hpa := hp a
    cases act
    case open_ =>
      simp only [step, hx, hres, ↓reduceIte] at hs
      split at hs
      all_goals first | (cases hs; done) | (simp [*, Ok2] at hpa; done) | skip
      cases hs
      exact Or.inr (Or.inr ⟨f, w, hf, hh, hi, forall_setPc (Ok2 f) s a _ rfl (fun x _ => hp x)⟩)
    case acquire =>
      simp only [step, hx, hres, ↓reduceIte] at hs
      split at hs
      all_goals first | (cases hs; done) | (simp [*, Ok2] at hpa; done) | skip
      split at hs
      · cases hs
        exact Or.inr (Or.inr ⟨f, w, hf, hh, hi, forall_setPc (Ok2 f) s a _ trivial (fun x _ => hp x)⟩)
      · cases hs
    case check =>
      simp only [step, hx, hres, ↓reduceIte] at hs
      split at hs
      all_goals first | (cases hs; done) | (simp [*, Ok2] at hpa; done) | skip
      cases hs
      exact Or.inr (Or.inr ⟨f, w, hf, hh, hi, forall_setPc (Ok2 f) s a _ trivial (fun x _ => hp x)⟩)
    case writeV0 =>
      simp only [step, hx, hres, ↓reduceIte] at hs
      split at hs
      all_goals first | (cases hs; done) | (simp [*, Ok2] at hpa; done) | skip
    case flip =>
      simp only [step, hx, hres, ↓reduceIte] at hs
      split at hs
      all_goals first | (cases hs; done) | (simp [*, Ok2] at hpa; done) | skip
    case release =>
      have hres' : resolve (releaseLock s a) = some f :=
        resolve_single_some _ f (by rw [releaseLock_files]; exact hf) (by rw [releaseLock_hint]; exact hh)
      have key : ∀ v, v = f.uuid → Phase (setPc (releaseLock s a) a (.done (some v))) := by
        intro v hv
        subst hv
        refine Or.inr (Or.inr ⟨f, w, by rw [setPc_files, releaseLock_files]; exact hf,
          by rw [setPc_hint, releaseLock_hint]; exact hh, by rw [setPc_inits, releaseLock_inits]; exact hi, ?_⟩)
        exact forall_setPc (Ok2 f) _ a _ rfl (fun x _ => by rw [releaseLock_pc]; exact hp x)
      simp only [step, hx, hres', ↓reduceIte] at hs
      split at hs
      all_goals first | (cases hs; done) | skip
      · rename_i g heq
        cases hs
        rw [heq] at hpa
        exact key _ (congrArg MFile.uuid hpa)
      · cases hs
        exact key _ rfl

theorem exInv_reach (cfg : Cfg) (hx : cfg.exclusive = true) (creator : Nat → Bool) (s : Sys)
    (hr : Reach cfg [] none creator s) : LockInv s ∧ Phase s := by
  induction hr with
  | init => exact ⟨fun a h => h.elim, Or.inl ⟨rfl, rfl, rfl, fun _ => trivial⟩⟩
  | @step s1 s2 a act _ hs ih =>
      exact ⟨lockInv_step cfg hx s1 s2 a act ih.1 hs, phase_step cfg hx s1 s2 a act ih.1 ih.2 hs⟩

/-- from nothing, with a lock that excludes (either backend): at most one initialisation takes effect, at most one
initial version is ever written, and every caller that finished is on that one table -/
theorem one_init_exclusive' (cfg : Cfg) (hx : cfg.exclusive = true) (creator : Nat → Bool) (s : Sys)
    (hr : Reach cfg [] none creator s) :
    s.inits.length ≤ 1 ∧ s.files.length ≤ 1 ∧
    (∀ m, resolve s = some m → AllOn s m.uuid) ∧ (resolve s = none → ∀ a v, s.pc a ≠ .done (some v)) := by
  rcases (exInv_reach cfg hx creator s hr).2 with ⟨hf, hh, hi, hp⟩ | ⟨f, hf, hh, hi, hp⟩ | ⟨f, w, hf, hh, hi, hp⟩
  · have hres := resolve_nil s hf hh
    refine ⟨by rw [hi]; exact Nat.zero_le _, by rw [hf]; exact Nat.zero_le _, ?_, ?_⟩
    · intro m hm; rw [hres] at hm; cases hm
    · intro _ a v hv
      have := hp a
      rw [hv] at this
      exact this
  · have hres := resolve_single_none s f hf hh
    refine ⟨by rw [hi]; exact Nat.zero_le _, by rw [hf]; exact Nat.le_refl _, ?_, ?_⟩
    · intro m hm a v hv
      rw [hres] at hm; cases hm
      have := hp a
      rw [hv] at this
      exact this
    · intro hn; rw [hres] at hn; cases hn
  · have hres := resolve_single_some s f hf hh
    refine ⟨by rw [hi]; exact Nat.le_refl _, by rw [hf]; exact Nat.le_refl _, ?_, ?_⟩
    · intro m hm a v hv
      rw [hres] at hm; cases hm
      have := hp a
      rw [hv] at this
      exact this
    · intro hn; rw [hres] at hn; cases hn

/-! ### one_init_cas -/

theorem step_hint_cas (cfg : Cfg) (hc : cfg.cas = true) (s s' : Sys) (a : Nat) (act : Act)
    (hs : step cfg s a act = some s') :
    (s'.hint = s.hint ∧ s'.inits = s.inits) ∨ (s.hint = none ∧ ∃ f, s'.hint = some f ∧ s'.inits = a :: s.inits) := by
  cases act <;> simp only [step, hc, ↓reduceIte] at hs
  all_goals repeat' (split at hs)
  all_goals first
    | (cases hs; done)
    | (cases hs; refine Or.inl ⟨?_, ?_⟩ <;> (simp; done))
    | (cases hs; refine Or.inr ⟨?_, _, rfl, rfl⟩; assumption)

def CasInv (s : Sys) : Prop := (s.hint = none ∧ s.inits = []) ∨ (∃ h w, s.hint = some h ∧ s.inits = [w])

theorem casInv_reach (cfg : Cfg) (hc : cfg.cas = true) (creator : Nat → Bool) (s : Sys)
    (hr : Reach cfg [] none creator s) : CasInv s := by
  induction hr with
  | init => exact Or.inl ⟨rfl, rfl⟩
  | @step s1 s2 a act _ hs ih =>
      rcases step_hint_cas cfg hc _ _ a act hs with ⟨h1, h2⟩ | ⟨h1, f, h2, h3⟩
      · unfold CasInv; rw [h1, h2]; exact ih
      · rcases ih with ⟨_, hi⟩ | ⟨h, w, hh, _⟩
        · exact Or.inr ⟨f, a, h2, by rw [h3, hi]⟩
        · rw [hh] at h1; cases h1

/-- from nothing, on a CAS backend with NOTHING assumed about the lock: the create-if-absent pointer write lets at most
one initialisation take effect, and the pointer, once set, never changes -/
theorem one_init_cas' (cfg : Cfg) (hc : cfg.cas = true) (creator : Nat → Bool) (s s' : Sys) (a : Nat) (act : Act)
    (hr : Reach cfg [] none creator s) (hs : step cfg s a act = some s') :
    s.inits.length ≤ 1 ∧ (s.inits.length = 1 ↔ s.hint.isSome) ∧ (s.hint.isSome → s'.hint = s.hint) := by
  have inv : CasInv s := casInv_reach cfg hc creator s hr
  refine ⟨?_, ?_, ?_⟩
  · rcases inv with ⟨_, hi⟩ | ⟨h, w, _, hi⟩ <;> rw [hi] <;> simp
  · rcases inv with ⟨hh, hi⟩ | ⟨h, w, hh, hi⟩ <;> rw [hi, hh] <;> simp
  · intro hsome
    rcases step_hint_cas cfg hc _ _ a act hs with ⟨h1, _⟩ | ⟨h1, _⟩
    · exact h1
    · rw [h1] at hsome; cases hsome

end DSV.Create
