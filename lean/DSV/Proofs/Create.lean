import DSV.Model.Create
/-! Proofs behind `DSV/Props/C18.lean`. -/
namespace DSV.Create

/-- every caller that has finished ended up on table `u` -/
def AllOn (s : Sys) (u : Nat) : Prop := ∀ a v, s.pc a = .done (some v) → v = u

theorem reach_run (cfg : Cfg) (files : List MFile) (hint : Option Nat) (creator : Nat → Bool) (sched : List (Nat × Act)) :
    ∀ s s', Reach cfg files hint creator s → run cfg s sched = some s' → Reach cfg files hint creator s' := by sorry

/-- an existing (resolvable) table is never re-initialised and keeps its identity, whatever the lock and backend -/
theorem identity_preserved' (cfg : Cfg) (files : List MFile) (hint : Option Nat) (creator : Nat → Bool) (t : MFile)
    (h0 : resolve (init files hint creator) = some t) (s : Sys) (hr : Reach cfg files hint creator s) :
    s.inits = [] ∧ resolve s = some t ∧ AllOn s t.uuid ∧ s.files = files ∧ s.hint = hint := by sorry

/-- from nothing, with a lock that excludes (either backend): at most one initialisation takes effect, at most one
initial version is ever written, and every caller that finished is on that one table -/
theorem one_init_exclusive' (cfg : Cfg) (hx : cfg.exclusive = true) (creator : Nat → Bool) (s : Sys)
    (hr : Reach cfg [] none creator s) :
    s.inits.length ≤ 1 ∧ s.files.length ≤ 1 ∧
    (∀ m, resolve s = some m → AllOn s m.uuid) ∧ (resolve s = none → ∀ a v, s.pc a ≠ .done (some v)) := by sorry

/-- from nothing, on a CAS backend with NOTHING assumed about the lock: the create-if-absent pointer write lets at most
one initialisation take effect, and the pointer, once set, never changes -/
theorem one_init_cas' (cfg : Cfg) (hc : cfg.cas = true) (creator : Nat → Bool) (s s' : Sys) (a : Nat) (act : Act)
    (hr : Reach cfg [] none creator s) (hs : step cfg s a act = some s') :
    s.inits.length ≤ 1 ∧ (s.inits.length = 1 ↔ s.hint.isSome) ∧ (s.hint.isSome → s'.hint = s.hint) := by sorry

end DSV.Create
