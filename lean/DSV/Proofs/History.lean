import DSV.Model.History
import DSV.Proofs.Meta
/-!
Proofs for C09 over `DSV.History`.  Statements are restated (and must stay identical) in `DSV/Props/C09.lean`.
-/
namespace DSV.History
open DSV.Meta

/-- precondition the real system guarantees by construction: snapshot ids are fresh (random 63-bit ids) -/
def OpOk (s : St) : Op → Prop
  | .commit _ id _ _ _ => id ∉ s.md.hist.map (·.1)
  | _ => True

instance (s : St) (op : Op) : Decidable (OpOk s op) := by
  cases op <;> unfold OpOk <;> infer_instance

def OpsOk : St → List Op → Prop
  | _, [] => True
  | s, op :: rest => OpOk s op ∧ OpsOk (step s op) rest

instance : (s : St) → (ops : List Op) → Decidable (OpsOk s ops)
  | _, [] => isTrue trivial
  | s, op :: rest => by
      unfold OpsOk
      have := instDecidableOpsOk (step s op) rest
      infer_instance

/-- non-decreasing clock (equal timestamps allowed) -/
def OpMono (s : St) : Op → Prop
  | .commit now _ _ _ _ => ∀ sn ∈ s.md.snaps, sn.ts ≤ now
  | _ => True

def OpsMono : St → List Op → Prop
  | _, [] => True
  | s, op :: rest => OpMono s op ∧ OpsMono (step s op) rest

/-! generic list lemmas -/
theorem lookup_append_some {α β} [BEq α] {l₁ l₂ : List (α × β)} {k : α} {v : β} (h : l₁.lookup k = some v) :
    (l₁ ++ l₂).lookup k = some v := by
  rw [List.lookup_append, h]; rfl

theorem lookup_fresh_none {β} {M : List (Nat × β)} {n k : Nat} (h : ∀ p ∈ M, p.1 < n) (hk : n ≤ k) : M.lookup k = none := by
  rw [List.lookup_eq_none_iff]
  intro p hp
  have := h p hp
  simp; omega

theorem lookup_append_fresh {β} {M : List (Nat × β)} {n k : Nat} (h : ∀ p ∈ M, p.1 < n) (hk : n ≤ k) (W : List (Nat × β)) :
    (M ++ W).lookup k = W.lookup k := by
  rw [List.lookup_append, lookup_fresh_none h hk]; rfl

theorem lookup_notin_none {β} {M : List (Nat × β)} {k : Nat} (h : k ∉ M.map (·.1)) : M.lookup k = none := by
  rw [List.lookup_eq_none_iff]
  intro p hp
  have : p.1 ≠ k := fun e => h (List.mem_map.2 ⟨p, hp, e⟩)
  simp; omega

theorem lookup_filter_key {β} (q : Nat → Bool) (k : Nat) (hq : q k = true) :
    ∀ (M : List (Nat × β)), (M.filter fun p => q p.1).lookup k = M.lookup k
  | [] => rfl
  | (a, b) :: M => by
    by_cases hak : k = a
    · subst hak
      simp [hq]
    · have : (k == a) = false := by simpa using hak
      by_cases hqa : q a = true
      · simp [hqa, List.lookup_cons, this, lookup_filter_key q k hq M]
      · simp [hqa, List.lookup_cons, this, lookup_filter_key q k hq M]

/-! resolution of manifest names -/
def res (M : List (Nat × List Nat)) : List Nat → Option (List (Nat × List Nat))
  | [] => some []
  | m :: r => match M.lookup m, res M r with
    | some ds, some t => some ((m, ds) :: t)
    | _, _ => none

theorem mapM_eq_res (M : List (Nat × List Nat)) : ∀ (l : List Nat),
    l.mapM (fun m => (M.lookup m).map fun ds => (m, ds)) = res M l
  | [] => rfl
  | m :: r => by
    rw [List.mapM_cons, mapM_eq_res M r, res]
    cases M.lookup m <;> cases res M r <;> rfl

theorem manifestsOf_eq (f : Files) (l : Nat) :
    manifestsOf f l = match f.mlists.lookup l with | none => none | some ms => res f.manifests ms := by
  unfold manifestsOf
  split <;> simp [*, mapM_eq_res]

theorem res_cons_some {M : List (Nat × List Nat)} {m : Nat} {r : List Nat} {ds t}
    (h1 : M.lookup m = some ds) (h2 : res M r = some t) : res M (m :: r) = some ((m, ds) :: t) := by
  simp [res, h1, h2]

theorem res_spec {M : List (Nat × List Nat)} : ∀ {l : List Nat} {x}, res M l = some x →
    x.map (·.1) = l ∧ ∀ p ∈ x, M.lookup p.1 = some p.2
  | [], x, h => by simp [res] at h; subst h; simp
  | m :: r, x, h => by
    simp only [res] at h
    split at h
    · rename_i ds t h1 h2
      cases h
      obtain ⟨ih1, ih2⟩ := res_spec h2
      refine ⟨by simp [ih1], ?_⟩
      intro p hp
      rcases List.mem_cons.1 hp with rfl | hp
      · exact h1
      · exact ih2 p hp
    · cases h

theorem res_of_lookup {M : List (Nat × List Nat)} : ∀ (ms : List (Nat × List Nat)), (∀ p ∈ ms, M.lookup p.1 = some p.2) →
    res M (ms.map (·.1)) = some ms
  | [], _ => rfl
  | p :: ms, h => by
    have := res_of_lookup ms (fun q hq => h q (List.mem_cons_of_mem _ hq))
    simp only [List.map_cons]
    rw [res_cons_some (h p (List.mem_cons_self ..)) this]

theorem res_congr {M M' : List (Nat × List Nat)} : ∀ (l : List Nat), (∀ m ∈ l, M'.lookup m = M.lookup m) → res M' l = res M l
  | [], _ => rfl
  | m :: r, h => by
    simp only [res]
    rw [h m (List.mem_cons_self ..), res_congr r (fun q hq => h q (List.mem_cons_of_mem _ hq))]

theorem res_mono {M M' : List (Nat × List Nat)} (hM : ∀ k v, M.lookup k = some v → M'.lookup k = some v) {l : List Nat} {x}
    (h : res M l = some x) : res M' l = some x := by
  obtain ⟨h1, h2⟩ := res_spec h
  rw [← h1]
  exact res_of_lookup x (fun p hp => hM _ _ (h2 p hp))



abbrev nd (deleted : List Nat) : Nat → Bool := fun d => !deleted.contains d
abbrev flat (ms : List (Nat × List Nat)) : List Nat := (ms.map (·.2)).flatten

theorem rewriteAll_spec (deleted : List Nat) : ∀ (ms : List (Nat × List Nat)) (nx : Nat) (written : List (Nat × List Nat)) (final : List Nat)
    (nx' : Nat) (written' : List (Nat × List Nat)) (final' : List Nat),
    rewriteAll deleted ms nx written final = (nx', written', final') →
    ∃ wn fn, written' = written ++ wn ∧ final' = final ++ fn ∧ nx ≤ nx' ∧ (∀ p ∈ wn, p.1 < nx') ∧
      ∀ M : List (Nat × List Nat), (∀ p ∈ M, p.1 < nx) → (∀ p ∈ ms, M.lookup p.1 = some p.2) →
        ∃ r, res (M ++ wn) fn = some r ∧ flat r = (flat ms).filter (nd deleted)
  | [], nx, written, final, nx', written', final', h => by
    simp only [rewriteAll, Prod.mk.injEq] at h
    obtain ⟨rfl, rfl, rfl⟩ := h
    exact ⟨[], [], by simp, by simp, Nat.le_refl _, by simp, fun M _ _ => ⟨[], rfl, rfl⟩⟩
  | m :: rest, nx, written, final, nx', written', final', h => by
    rw [rewriteAll] at h
    split at h
    · rename_i hlen
      obtain ⟨wn, fn, h1, h2, h3, h4, h5⟩ := rewriteAll_spec deleted rest _ _ _ _ _ _ h
      refine ⟨wn, m.1 :: fn, h1, by simp [h2], h3, h4, ?_⟩
      intro M hM hms
      obtain ⟨r, hr1, hr2⟩ := h5 M hM (fun p hp => hms p (List.mem_cons_of_mem _ hp))
      refine ⟨(m.1, m.2) :: r, res_cons_some (lookup_append_some (hms m (List.mem_cons_self ..))) hr1, ?_⟩
      have : m.2.filter (nd deleted) = m.2 := by
        rw [List.filter_eq_self, ← List.length_filter_eq_length_iff]
        simpa using hlen
      simp only [flat, List.map_cons, List.flatten_cons, List.filter_append] at hr2 ⊢
      rw [hr2, this]
    · split at h
      · rename_i hlen hemp
        obtain ⟨wn, fn, h1, h2, h3, h4, h5⟩ := rewriteAll_spec deleted rest _ _ _ _ _ _ h
        refine ⟨wn, fn, h1, h2, h3, h4, ?_⟩
        intro M hM hms
        obtain ⟨r, hr1, hr2⟩ := h5 M hM (fun p hp => hms p (List.mem_cons_of_mem _ hp))
        refine ⟨r, hr1, ?_⟩
        have : m.2.filter (nd deleted) = [] := by simpa using hemp
        simp only [flat, List.map_cons, List.flatten_cons, List.filter_append] at hr2 ⊢
        rw [hr2, this]; rfl
      · rename_i hlen hemp
        obtain ⟨wn, fn, h1, h2, h3, h4, h5⟩ := rewriteAll_spec deleted rest _ _ _ _ _ _ h
        refine ⟨(nx, m.2.filter (nd deleted)) :: wn, nx :: fn, by rw [h1, List.append_assoc]; rfl,
          by rw [h2, List.append_assoc]; rfl, by omega, ?_, ?_⟩
        · intro p hp
          rcases List.mem_cons.1 hp with rfl | hp
          · show nx < nx'; omega
          · exact h4 p hp
        · intro M hM hms
          obtain ⟨r, hr1, hr2⟩ := h5 (M ++ [(nx, m.2.filter (nd deleted))])
            (by
              intro p hp
              rcases List.mem_append.1 hp with hp | hp
              · have := hM p hp; omega
              · simp at hp; subst hp; simp)
            (fun p hp => lookup_append_some (hms p (List.mem_cons_of_mem _ hp)))
          rw [List.append_assoc] at hr1
          refine ⟨(nx, m.2.filter (nd deleted)) :: r, res_cons_some ?_ hr1, ?_⟩
          · rw [lookup_append_fresh hM (Nat.le_refl _)]
            simp
          · simp only [flat, List.map_cons, List.flatten_cons, List.filter_append] at hr2 ⊢
            rw [hr2]



def baseOf (s : St) : Option (List (Nat × List Nat)) :=
  match s.md.cur with
  | P.id c => (match s.mlistOf.lookup c with | none => none | some l => manifestsOf s.files l)
  | _ => some []

abbrev newDataOf (s : St) (nApp : Nat) : List Nat := (List.range nApp).map (· + s.nextD)

def plan (s : St) (nApp : Nat) (deleted : List Nat) (ms : List (Nat × List Nat)) : Nat × List (Nat × List Nat) × List Nat :=
  let p1 := if deleted.isEmpty then (s.nextM, [], ms.map (·.1)) else rewriteAll deleted ms s.nextM [] []
  if nApp == 0 then p1 else (p1.1 + 1, p1.2.1 ++ [(p1.1, newDataOf s nApp)], p1.2.2 ++ [p1.1])

def mkW (s : St) (nApp : Nat) (p : Nat × List (Nat × List Nat) × List Nat) : Written :=
  { files := { manifests := s.files.manifests ++ p.2.1, mlists := s.files.mlists ++ [(s.nextL, p.2.2)],
               data := s.files.data ++ newDataOf s nApp },
    nextD := s.nextD + nApp, nextM := p.1, nextL := s.nextL + 1, mlist := s.nextL, newData := newDataOf s nApp }

theorem writeFiles_eq (s : St) (nApp : Nat) (deleted : List Nat) :
    writeFiles s nApp deleted = (baseOf s).map fun ms => mkW s nApp (plan s nApp deleted ms) := by
  have key : ∀ ms : List (Nat × List Nat),
      (match (if deleted.isEmpty = true then (s.nextM, ([] : List (Nat × List Nat)), List.map (fun x => x.fst) ms)
        else rewriteAll deleted ms s.nextM [] []) with
      | (nm, written, final) =>
        match
          (if (nApp == 0) = true then (nm, written, final) else (nm + 1, written ++ [(nm, newDataOf s nApp)], final ++ [nm])) with
        | (nm', written', final') =>
          some
            ({
              files :=
                { manifests := s.files.manifests ++ written', mlists := s.files.mlists ++ [(s.nextL, final')],
                  data := s.files.data ++ newDataOf s nApp },
              nextD := s.nextD + nApp, nextM := nm', nextL := s.nextL + 1, mlist := s.nextL, newData := newDataOf s nApp } : Written))
        = some (mkW s nApp (plan s nApp deleted ms)) := by
    intro ms
    rfl
  unfold writeFiles baseOf
  cases s.md.cur with
  | id c =>
    simp only []
    cases List.lookup c s.mlistOf with
    | none => rfl
    | some l =>
      simp only []
      cases manifestsOf s.files l with
      | none => rfl
      | some ms => exact key ms
  | none => exact key []
  | root => exact key []



theorem res_append_some {M : List (Nat × List Nat)} : ∀ {a b : List Nat} {x y}, res M a = some x → res M b = some y →
    res M (a ++ b) = some (x ++ y)
  | [], b, x, y, h1, h2 => by simp [res] at h1; subst h1; simpa using h2
  | m :: a, b, x, y, h1, h2 => by
    simp only [res] at h1
    split at h1
    · rename_i ds t e1 e2
      cases h1
      exact res_cons_some e1 (res_append_some e2 h2)
    · cases h1

theorem flat_append (a b : List (Nat × List Nat)) : flat (a ++ b) = flat a ++ flat b := by simp [flat]

theorem plan1_spec (s : St) (deleted : List Nat) (ms : List (Nat × List Nat))
    (hM : ∀ p ∈ s.files.manifests, p.1 < s.nextM) (hms : ∀ p ∈ ms, s.files.manifests.lookup p.1 = some p.2)
    (p1 : Nat × List (Nat × List Nat) × List Nat)
    (hp : p1 = if deleted.isEmpty then (s.nextM, [], ms.map (·.1)) else rewriteAll deleted ms s.nextM [] []) :
    s.nextM ≤ p1.1 ∧ (∀ q ∈ p1.2.1, q.1 < p1.1) ∧
      ∃ r, res (s.files.manifests ++ p1.2.1) p1.2.2 = some r ∧ flat r = (flat ms).filter (nd deleted) := by
  split at hp
  · rename_i hd
    subst hp
    have : deleted = [] := by simpa using hd
    subst this
    refine ⟨Nat.le_refl _, by simp, ms, ?_, (List.filter_eq_self.2 (fun a _ => by simp [nd])).symm⟩
    simpa using res_of_lookup ms hms
  · obtain ⟨a, b, c⟩ := p1
    obtain ⟨wn, fn, h1, h2, h3, h4, h5⟩ := rewriteAll_spec deleted ms s.nextM [] [] a b c hp.symm
    simp only [List.nil_append] at h1 h2
    subst h1 h2
    exact ⟨h3, h4, h5 _ hM hms⟩

theorem plan_spec (s : St) (nApp : Nat) (deleted : List Nat) (ms : List (Nat × List Nat))
    (hM : ∀ p ∈ s.files.manifests, p.1 < s.nextM) (hms : ∀ p ∈ ms, s.files.manifests.lookup p.1 = some p.2) :
    s.nextM ≤ (plan s nApp deleted ms).1 ∧ (∀ q ∈ (plan s nApp deleted ms).2.1, q.1 < (plan s nApp deleted ms).1) ∧
      ∃ r, res (s.files.manifests ++ (plan s nApp deleted ms).2.1) (plan s nApp deleted ms).2.2 = some r ∧
        flat r = (flat ms).filter (nd deleted) ++ newDataOf s nApp := by
  unfold plan
  generalize hp : (if deleted.isEmpty then (s.nextM, [], ms.map (·.1)) else rewriteAll deleted ms s.nextM [] []) = p1
  obtain ⟨h1, h2, r, h3, h4⟩ := plan1_spec s deleted ms hM hms p1 hp.symm
  simp only []
  split
  · rename_i h0
    have : nApp = 0 := by simpa using h0
    subst this
    exact ⟨h1, h2, r, h3, by simp [h4]⟩
  · refine ⟨by simp only []; omega, ?_, r ++ [(p1.1, newDataOf s nApp)], ?_, ?_⟩
    · intro q hq
      simp only [] at hq ⊢
      rcases List.mem_append.1 hq with hq | hq
      · have := h2 q hq; omega
      · simp at hq; subst hq; simp
    · simp only []
      rw [← List.append_assoc]
      refine res_append_some (res_mono (fun k v h => lookup_append_some h) h3) (res_cons_some ?_ rfl)
      rw [lookup_append_fresh (n := p1.1) ?_ (Nat.le_refl _)]
      · simp
      · intro q hq
        rcases List.mem_append.1 hq with hq | hq
        · have := hM q hq; omega
        · exact h2 q hq
    · rw [flat_append, h4]; simp [flat]



theorem filesOf_some {f : Files} {l : Nat} {c : List Nat} :
    filesOf f l = some c ↔ ∃ names ms, f.mlists.lookup l = some names ∧ res f.manifests names = some ms ∧ flat ms = c ∧
      ∀ d ∈ c, d ∈ f.data := by
  unfold filesOf
  rw [manifestsOf_eq]
  cases h1 : f.mlists.lookup l with
  | none => simp
  | some names =>
    simp only []
    cases h2 : res f.manifests names with
    | none => simp [h2]
    | some ms =>
      simp only []
      constructor
      · intro h
        split at h
        · rename_i hall
          cases h
          refine ⟨names, ms, rfl, h2, rfl, ?_⟩
          intro d hd
          have := List.all_eq_true.1 hall d hd
          simpa using this
        · cases h
      · rintro ⟨names', ms', e1, e2, e3, e4⟩
        cases e1; rw [h2] at e2; cases e2
        have : ((ms.map (·.2)).flatten.all f.data.contains) = true := by
          rw [List.all_eq_true]
          intro d hd
          have := e4 d (e3 ▸ hd)
          simpa using this
        rw [if_pos this, ← e3]

structure Ext (f f' : Files) : Prop where
  ml : ∀ k v, f.mlists.lookup k = some v → f'.mlists.lookup k = some v
  mf : ∀ k v, f.manifests.lookup k = some v → f'.manifests.lookup k = some v
  dt : ∀ d ∈ f.data, d ∈ f'.data

theorem filesOf_mono {f f' : Files} (h : Ext f f') {l : Nat} {c : List Nat} (hc : filesOf f l = some c) : filesOf f' l = some c := by
  obtain ⟨names, ms, h1, h2, h3, h4⟩ := filesOf_some.1 hc
  exact filesOf_some.2 ⟨names, ms, h.ml _ _ h1, res_mono h.mf h2, h3, fun d hd => h.dt d (h4 d hd)⟩

structure Inv (s : St) : Prop where
  wf : WF s.md
  mfresh : ∀ p ∈ s.files.manifests, p.1 < s.nextM
  lfresh : ∀ p ∈ s.files.mlists, p.1 < s.nextL
  histC : s.committed.map (·.1) = s.md.hist.map (·.1)
  histL : s.mlistOf.map (·.1) = s.md.hist.map (·.1)
  good : ∀ i ∈ s.md.ids, ∃ c, s.committed.lookup i = some c ∧ content s i = some c

def baseContent (s : St) : List Nat := match s.md.cur with | P.id cur => (content s cur).getD [] | _ => []

theorem base_spec (s : St) (hI : Inv s) (ms : List (Nat × List Nat)) (hb : baseOf s = some ms) :
    (∀ p ∈ ms, s.files.manifests.lookup p.1 = some p.2) ∧ flat ms = baseContent s ∧ ∀ d ∈ flat ms, d ∈ s.files.data := by
  unfold baseOf at hb
  unfold baseContent
  cases hcur : s.md.cur with
  | id c =>
    rw [hcur] at hb
    simp only [] at hb ⊢
    have hc : c ∈ s.md.ids := by
      rcases hI.wf.curOk with h | ⟨h, -⟩ | ⟨sn, hsn, h⟩
      · rw [hcur] at h; cases h
      · rw [hcur] at h; cases h
      · rw [hcur] at h; cases h; exact List.mem_map.2 ⟨sn, hsn, rfl⟩
    obtain ⟨cc, -, h2⟩ := hI.good c hc
    rw [h2]
    unfold content at h2
    cases hl : s.mlistOf.lookup c with
    | none => rw [hl] at h2; cases h2
    | some l =>
      rw [hl] at h2 hb
      simp only [] at h2 hb
      obtain ⟨names, ms', e1, e2, e3, e4⟩ := filesOf_some.1 h2
      rw [manifestsOf_eq, e1] at hb
      simp only [] at hb
      rw [e2] at hb
      cases hb
      exact ⟨(res_spec e2).2, e3, e3 ▸ e4⟩
  | none => rw [hcur] at hb; cases hb; simp [flat]
  | root => rw [hcur] at hb; cases hb; simp [flat]

theorem writeFiles_spec (s : St) (hI : Inv s) (nApp : Nat) (deleted : List Nat) (w : Written)
    (h : writeFiles s nApp deleted = some w) :
    (∀ p ∈ w.files.manifests, p.1 < w.nextM) ∧ (∀ p ∈ w.files.mlists, p.1 < w.nextL) ∧ Ext s.files w.files ∧
    w.mlist = s.nextL ∧ s.nextM ≤ w.nextM ∧ w.nextL = s.nextL + 1 ∧
    filesOf w.files w.mlist = some ((baseContent s).filter (nd deleted) ++ newDataOf s nApp) := by
  rw [writeFiles_eq] at h
  cases hb : baseOf s with
  | none => rw [hb] at h; cases h
  | some ms =>
    rw [hb] at h
    simp only [Option.map, Option.some.injEq] at h
    subst h
    obtain ⟨b1, b2, b3⟩ := base_spec s hI ms hb
    obtain ⟨p1, p2, r, p3, p4⟩ := plan_spec s nApp deleted ms hI.mfresh b1
    refine ⟨?_, ?_, ⟨fun k v h => lookup_append_some h, fun k v h => lookup_append_some h, fun d hd => List.mem_append_left _ hd⟩,
      rfl, p1, rfl, ?_⟩
    · intro p hp
      rcases List.mem_append.1 hp with hp | hp
      · have := hI.mfresh p hp; simp only [mkW]; omega
      · exact p2 p hp
    · intro p hp
      rcases List.mem_append.1 hp with hp | hp
      · have := hI.lfresh p hp; simp only [mkW]; omega
      · simp at hp; subst hp; simp [mkW]
    · refine filesOf_some.2 ⟨_, r, ?_, p3, ?_, ?_⟩
      · simp only [mkW]
        rw [lookup_append_fresh hI.lfresh (Nat.le_refl _)]
        simp
      · rw [p4, b2]
      · intro d hd
        simp only [mkW]
        rcases List.mem_append.1 hd with hd | hd
        · refine List.mem_append_left _ (b3 d ?_)
          rw [b2]
          exact (List.mem_filter.1 hd).1
        · exact List.mem_append_right _ hd



/-! metadata: ids only shrink, hist only grows by the committed id -/
theorem expire_hist (c : Nat) (m : Meta) : (expire c m).hist = m.hist := rfl

theorem expire_ids_sub (c : Nat) (m : Meta) : ∀ i ∈ (expire c m).ids, i ∈ m.ids := by
  intro i hi
  unfold expire Meta.ids at hi
  simp only [repoint_ids] at hi
  obtain ⟨sn, hsn, rfl⟩ := List.mem_map.1 hi
  exact List.mem_map.2 ⟨sn, (List.mem_filter.1 hsn).1, rfl⟩

theorem retain_hist (m : Meta) : (retain m).hist = m.hist := by
  unfold retain
  split
  · rfl
  · split <;> rfl

theorem retain_ids_sub (m : Meta) : ∀ i ∈ (retain m).ids, i ∈ m.ids := by
  intro i hi
  unfold retain at hi
  split at hi
  · exact hi
  · split at hi
    · exact hi
    · unfold Meta.ids at hi
      simp only [repoint_ids] at hi
      obtain ⟨sn, hsn, rfl⟩ := List.mem_map.1 hi
      have := (List.mem_filter.1 hsn).1
      unfold sortByTs at this
      exact List.mem_map.2 ⟨sn, (List.mergeSort_perm _ _).mem_iff.1 this, rfl⟩

theorem delSnap_hist (id : Nat) (m m' : Meta) (hd : delSnap id m = some m') : m'.hist = m.hist := by
  obtain ⟨-, rfl⟩ := delSnap_spec id m m' hd
  split <;> rfl

theorem delSnap_ids_sub (id : Nat) (m m' : Meta) (hd : delSnap id m = some m') : ∀ i ∈ m'.ids, i ∈ m.ids := by
  obtain ⟨-, rfl⟩ := delSnap_spec id m m' hd
  have key : ∀ i ∈ (delRaw id m).ids, i ∈ m.ids := by
    intro i hi
    unfold delRaw Meta.ids at hi
    simp only [repoint_ids] at hi
    obtain ⟨sn, hsn, rfl⟩ := List.mem_map.1 hi
    exact List.mem_map.2 ⟨sn, List.eraseP_sublist.subset hsn, rfl⟩
  split
  · exact key
  · exact key

theorem addSnap_ok_eq (now id : Nat) (cutoff : Option Nat) (m m' : Meta) (h : addSnap now id cutoff m = .ok m') :
    m' = retain (addRaw now id m) ∨ ∃ c, m' = retain (expire c (addRaw now id m)) := by
  rw [addSnap_eq] at h
  cases cutoff with
  | none =>
    simp only [] at h
    split at h
    · cases h
    · cases h; exact Or.inl rfl
  | some c =>
    simp only [] at h
    split at h
    · cases h
    · cases h; exact Or.inr ⟨c, rfl⟩

theorem addSnap_ok (now id : Nat) (cutoff : Option Nat) (m m' : Meta) (h : addSnap now id cutoff m = .ok m') :
    m'.hist.map (·.1) = m.hist.map (·.1) ++ [id] ∧ (∀ i ∈ m'.ids, i ∈ m.ids ∨ i = id) ∧
    m' = Meta.step m (.add now id cutoff) := by
  refine ⟨?_, ?_, by simp [Meta.step, h]⟩
  · rcases addSnap_ok_eq now id cutoff m m' h with rfl | ⟨c, rfl⟩
    · rw [retain_hist]; simp [addRaw]
    · rw [retain_hist, expire_hist]; simp [addRaw]
  · intro i hi
    have h2 : i ∈ (addRaw now id m).ids := by
      rcases addSnap_ok_eq now id cutoff m m' h with rfl | ⟨c, rfl⟩
      · exact retain_ids_sub _ i hi
      · exact expire_ids_sub c _ i (retain_ids_sub _ i hi)
    simp only [addRaw, Meta.ids, List.map_append, List.map_cons, List.map_nil, List.mem_append, List.mem_singleton] at h2
    exact h2



/-! collection -/
def reachF (s : St) (acc : Option Files) (sn : Snap) : Option Files :=
  match acc, s.mlistOf.lookup sn.id with
  | some r, some l =>
    (match manifestsOf s.files l with
     | some ms => some { mlists := r.mlists ++ [(l, [])], manifests := r.manifests ++ ms, data := r.data ++ (ms.map (·.2)).flatten }
     | none => none)
  | _, _ => none

theorem reach_eq (s : St) : reach s = s.md.snaps.foldl (reachF s) (some ⟨[], [], []⟩) := rfl

theorem foldl_reachF_none (s : St) : ∀ (l : List Snap), l.foldl (reachF s) none = none
  | [] => rfl
  | sn :: l => by simp only [List.foldl_cons, reachF]; exact foldl_reachF_none s l

theorem reach_acc (s : St) : ∀ (snaps : List Snap) (acc r : Files), snaps.foldl (reachF s) (some acc) = some r →
    ((∀ p ∈ acc.mlists, p ∈ r.mlists) ∧ (∀ p ∈ acc.manifests, p ∈ r.manifests) ∧ (∀ d ∈ acc.data, d ∈ r.data)) ∧
    ∀ sn ∈ snaps, ∃ l ms, s.mlistOf.lookup sn.id = some l ∧ manifestsOf s.files l = some ms ∧
      (l, []) ∈ r.mlists ∧ (∀ p ∈ ms, p ∈ r.manifests) ∧ ∀ d ∈ flat ms, d ∈ r.data
  | [], acc, r, h => by
    simp only [List.foldl_nil, Option.some.injEq] at h
    subst h
    exact ⟨⟨fun _ h => h, fun _ h => h, fun _ h => h⟩, by simp⟩
  | sn :: rest, acc, r, h => by
    simp only [List.foldl_cons] at h
    cases hl : s.mlistOf.lookup sn.id with
    | none =>
      simp only [reachF, hl] at h
      rw [foldl_reachF_none] at h; cases h
    | some l =>
      cases hm : manifestsOf s.files l with
      | none =>
        simp only [reachF, hl, hm] at h
        rw [foldl_reachF_none] at h; cases h
      | some ms =>
        simp only [reachF, hl, hm] at h
        obtain ⟨⟨a1, a2, a3⟩, a4⟩ := reach_acc s rest _ r h
        refine ⟨⟨fun p hp => a1 p (List.mem_append_left _ hp), fun p hp => a2 p (List.mem_append_left _ hp),
          fun p hp => a3 p (List.mem_append_left _ hp)⟩, ?_⟩
        intro sn' hsn'
        rcases List.mem_cons.1 hsn' with rfl | hsn'
        · exact ⟨l, ms, hl, hm, a1 _ (List.mem_append_right _ (List.mem_singleton.2 rfl)),
            fun p hp => a2 p (List.mem_append_right _ hp), fun d hd => a3 d (List.mem_append_right _ hd)⟩
        · exact a4 sn' hsn'

theorem all_congr_mem {l : List Nat} {p q : Nat → Bool} (h : ∀ d ∈ l, p d = q d) : l.all p = l.all q := by
  induction l with
  | nil => rfl
  | cons a l ih =>
    simp only [List.all_cons]
    rw [h a (List.mem_cons_self ..), ih (fun d hd => h d (List.mem_cons_of_mem _ hd))]

theorem gc_keeps_gen (s : St) (cands : Files) : ∀ i ∈ s.md.ids, content (collect s cands) i = content s i := by
  intro i hi
  unfold collect
  cases hr : reach s with
  | none => rfl
  | some r =>
    obtain ⟨sn, hsn, rfl⟩ := List.mem_map.1 hi
    rw [reach_eq] at hr
    obtain ⟨-, h⟩ := reach_acc s _ _ r hr
    obtain ⟨l, ms, h1, h2, h3, h4, h5⟩ := h sn hsn
    unfold content
    simp only [collectWith, h1]
    rw [manifestsOf_eq] at h2
    cases hn : s.files.mlists.lookup l with
    | none => rw [hn] at h2; cases h2
    | some names =>
      rw [hn] at h2
      simp only [] at h2
      obtain ⟨e1, e2⟩ := res_spec h2
      unfold filesOf
      rw [manifestsOf_eq, manifestsOf_eq]
      simp only []
      rw [lookup_filter_key (fun k => !((cands.mlists.map (·.1)).filter fun l => !(r.mlists.map (·.1)).contains l).contains k) l
        (by
          have : l ∈ r.mlists.map (·.1) := List.mem_map.2 ⟨_, h3, rfl⟩
          simp [this]), hn]
      simp only []
      rw [res_congr (M := s.files.manifests) names (by
        intro m hm
        refine lookup_filter_key (fun k => !((cands.manifests.map (·.1)).filter fun m => !(r.manifests.map (·.1)).contains m).contains k) m ?_ _
        rw [← e1] at hm
        obtain ⟨p, hp, rfl⟩ := List.mem_map.1 hm
        have : p.1 ∈ r.manifests.map (·.1) := List.mem_map.2 ⟨_, h4 p hp, rfl⟩
        simp [this]), h2]
      simp only []
      rw [all_congr_mem (q := s.files.data.contains)]
      intro d hd
      have : d ∈ r.data := h5 d hd
      simp [this]


/-! the invariant is preserved -/
theorem Ext.refl (f : Files) : Ext f f := ⟨fun _ _ h => h, fun _ _ h => h, fun _ h => h⟩

theorem content_mono {s s' : St} (hm : ∀ i l, s.mlistOf.lookup i = some l → s'.mlistOf.lookup i = some l)
    (hf : Ext s.files s'.files) {i : Nat} {c : List Nat} (h : content s i = some c) : content s' i = some c := by
  unfold content at h ⊢
  cases hl : s.mlistOf.lookup i with
  | none => rw [hl] at h; cases h
  | some l =>
    rw [hl] at h
    rw [hm i l hl]
    exact filesOf_mono hf h

theorem good_transfer {s s' : St} (hids : ∀ i ∈ s'.md.ids, i ∈ s.md.ids)
    (hm : ∀ i l, s.mlistOf.lookup i = some l → s'.mlistOf.lookup i = some l) (hf : Ext s.files s'.files)
    (hc : ∀ i c, s.committed.lookup i = some c → s'.committed.lookup i = some c)
    (hg : ∀ i ∈ s.md.ids, ∃ c, s.committed.lookup i = some c ∧ content s i = some c) :
    ∀ i ∈ s'.md.ids, ∃ c, s'.committed.lookup i = some c ∧ content s' i = some c := by
  intro i hi
  obtain ⟨c, h1, h2⟩ := hg i (hids i hi)
  exact ⟨c, hc i c h1, content_mono hm hf h2⟩

theorem inv_init : Inv init :=
  ⟨wf_empty'', by simp [init], by simp [init], rfl, rfl, by simp [init, Meta.empty, Meta.ids]⟩

theorem inv_step (s : St) (op : Op) (hI : Inv s) (hop : OpOk s op) : Inv (step s op) := by
  cases op with
  | commit now id cutoff nApp deleted =>
    simp only [step]
    cases hw : writeFiles s nApp deleted with
    | none => exact hI
    | some w =>
      obtain ⟨w1, w2, w3, w4, w5, w6, w7⟩ := writeFiles_spec s hI nApp deleted w hw
      simp only []
      cases ha : addSnap now id cutoff s.md with
      | error e =>
        simp only []
        exact ⟨hI.wf, w1, w2, hI.histC, hI.histL, good_transfer (s := s) (fun _ h => h) (fun _ _ h => h) w3 (fun _ _ h => h) hI.good⟩
      | ok md' =>
        simp only []
        obtain ⟨a1, a2, a3⟩ := addSnap_ok now id cutoff s.md md' ha
        have hid : id ∉ s.md.hist.map (·.1) := hop
        refine ⟨?_, w1, w2, ?_, ?_, ?_⟩
        · show WF md'
          rw [a3]; exact wf_step'' s.md (.add now id cutoff) hI.wf hop
        · show (s.committed ++ [(id, _)]).map (fun x : Nat × List Nat => x.1) = md'.hist.map (fun x => x.1)
          rw [a1, List.map_append, hI.histC]; rfl
        · show (s.mlistOf ++ [(id, _)]).map (fun x : Nat × Nat => x.1) = md'.hist.map (fun x => x.1)
          rw [a1, List.map_append, hI.histL]; rfl
        · intro i hi
          have hi' : i ∈ md'.ids := hi
          by_cases him : i ∈ s.md.ids
          · obtain ⟨c, h1, h2⟩ := hI.good i him
            refine ⟨c, lookup_append_some h1, ?_⟩
            exact content_mono (s := s) (fun _ _ h => lookup_append_some h) w3 h2
          · have : i = id := (a2 i hi').resolve_left him
            subst this
            refine ⟨(baseContent s).filter (nd deleted) ++ newDataOf s nApp, ?_, ?_⟩
            · show (s.committed ++ [(i, (filesOf w.files w.mlist).getD [])]).lookup i = _
              rw [List.lookup_append, lookup_notin_none (by rw [hI.histC]; exact hid), w7]
              simp only [Option.or, List.lookup_cons, beq_self_eq_true]
              rfl
            · show content _ i = _
              unfold content
              simp only []
              rw [List.lookup_append, lookup_notin_none (by rw [hI.histL]; exact hid)]
              simp only [Option.or, List.lookup_cons, beq_self_eq_true]
              exact w7
  | expire c =>
    exact ⟨wf_expire c _ hI.wf, hI.mfresh, hI.lfresh, hI.histC, hI.histL,
      good_transfer (s := s) (s' := { s with md := expireOnly c s.md }) (expire_ids_sub c s.md) (fun _ _ h => h) (Ext.refl _)
        (fun _ _ h => h) hI.good⟩
  | delSnap id =>
    simp only [step]
    cases hd : Meta.delSnap id s.md with
    | none => exact hI
    | some md' =>
      exact ⟨wf_delSnap id _ _ hI.wf hd, hI.mfresh, hI.lfresh, by rw [hI.histC]; exact (congrArg _ (delSnap_hist id _ _ hd)).symm,
        by rw [hI.histL]; exact (congrArg _ (delSnap_hist id _ _ hd)).symm,
        good_transfer (s := s) (s' := { s with md := md' }) (delSnap_ids_sub id _ _ hd) (fun _ _ h => h) (Ext.refl _)
          (fun _ _ h => h) hI.good⟩
  | failed nApp deleted cleaned =>
    simp only [step]
    cases hw : writeFiles s nApp deleted with
    | none => exact hI
    | some w =>
      obtain ⟨w1, w2, w3, w4, w5, w6, w7⟩ := writeFiles_spec s hI nApp deleted w hw
      simp only []
      cases cleaned with
      | true =>
        simp only [↓reduceIte]
        refine ⟨hI.wf, ?_, ?_, hI.histC, hI.histL, good_transfer (fun _ h => h) (fun _ _ h => h) (Ext.refl _) (fun _ _ h => h) hI.good⟩
        · intro p hp; have := hI.mfresh p hp; show p.1 < w.nextM; omega
        · intro p hp; have := hI.lfresh p hp; show p.1 < w.nextL; omega
      | false =>
        simp only [Bool.false_eq_true, ↓reduceIte]
        exact ⟨hI.wf, w1, w2, hI.histC, hI.histL, good_transfer (s := s) (fun _ h => h) (fun _ _ h => h) w3 (fun _ _ h => h) hI.good⟩
  | gc cands =>
    have hk := gc_keeps_gen s cands
    simp only [step]
    unfold collect at hk ⊢
    cases hr : reach s with
    | none => exact hI
    | some r =>
      rw [hr] at hk
      refine ⟨hI.wf, fun p hp => hI.mfresh p (List.mem_filter.1 hp).1, fun p hp => hI.lfresh p (List.mem_filter.1 hp).1,
        hI.histC, hI.histL, ?_⟩
      intro i hi
      obtain ⟨c, h1, h2⟩ := hI.good i hi
      exact ⟨c, h1, (hk i hi).trans h2⟩


/-! histories -/
theorem opsOk_append : ∀ (a b : List Op) (s : St), OpsOk s (a ++ b) ↔ OpsOk s a ∧ OpsOk (a.foldl step s) b
  | [], b, s => by simp [OpsOk]
  | op :: a, b, s => by
    simp only [List.cons_append, OpsOk, List.foldl_cons, opsOk_append a b (step s op), and_assoc]

theorem inv_foldl : ∀ (ops : List Op) (s : St), Inv s → OpsOk s ops → Inv (ops.foldl step s)
  | [], _, h, _ => h
  | op :: ops, s, h, hok => inv_foldl ops (step s op) (inv_step s op h hok.1) hok.2

theorem inv_run (ops : List Op) (h : OpsOk init ops) : Inv (run ops) := inv_foldl ops init inv_init h

theorem run_append (a b : List Op) : run (a ++ b) = b.foldl step (run a) := by
  unfold run; rw [List.foldl_append]

theorem collect_md (s : St) (cands : Files) : (collect s cands).md = s.md := by
  unfold collect collectWith; split <;> rfl

theorem collect_committed (s : St) (cands : Files) : (collect s cands).committed = s.committed := by
  unfold collect collectWith; split <;> rfl

theorem step_committed (s : St) (op : Op) (i : Nat) (c : List Nat) (h : s.committed.lookup i = some c) :
    (step s op).committed.lookup i = some c := by
  cases op with
  | commit now id cutoff nApp deleted =>
    simp only [step]
    split
    · exact h
    · split
      · exact h
      · exact lookup_append_some h
  | expire c => exact h
  | delSnap id => simp only [step]; split <;> exact h
  | failed nApp deleted cleaned =>
    simp only [step]
    split
    · exact h
    · split <;> exact h
  | gc cands => simp only [step]; rw [collect_committed]; exact h

theorem foldl_committed : ∀ (ops : List Op) (s : St) (i : Nat) (c : List Nat), s.committed.lookup i = some c →
    (ops.foldl step s).committed.lookup i = some c
  | [], _, _, _, h => h
  | op :: ops, s, i, c, h => foldl_committed ops (step s op) i c (step_committed s op i c h)

theorem step_md (s : St) (op : Op) :
    (step s op).md = s.md ∨ ∃ op', (step s op).md = Meta.step s.md op' ∧ (OpOk s op → Meta.OpOk s.md op') ∧
      (OpMono s op → Meta.OpMono s.md op') := by
  cases op with
  | commit now id cutoff nApp deleted =>
    simp only [step]
    split
    · exact Or.inl rfl
    · split
      · exact Or.inl rfl
      · rename_i md' ha
        exact Or.inr ⟨.add now id cutoff, (addSnap_ok now id cutoff s.md md' ha).2.2, fun h => h, fun h => h⟩
  | expire c => exact Or.inr ⟨.expireOnly c, rfl, fun _ => trivial, fun _ => trivial⟩
  | delSnap id =>
    refine Or.inr ⟨.del id, ?_, fun _ => trivial, fun _ => trivial⟩
    simp only [step, Meta.step]
    cases Meta.delSnap id s.md <;> rfl
  | failed nApp deleted cleaned =>
    simp only [step]
    split
    · exact Or.inl rfl
    · split <;> exact Or.inl rfl
  | gc cands => exact Or.inl (collect_md s cands)

theorem mono_foldl : ∀ (ops : List Op) (s : St), Inv s → BornSorted s.md → TsMono s.md → OpsOk s ops → OpsMono s ops →
    BornSorted (ops.foldl step s).md ∧ TsMono (ops.foldl step s).md
  | [], _, _, hb, ht, _, _ => ⟨hb, ht⟩
  | op :: ops, s, hI, hb, ht, hok, hm => by
    have h2 : BornSorted (step s op).md ∧ TsMono (step s op).md := by
      rcases step_md s op with e | ⟨op', e, h1, h2⟩
      · rw [e]; exact ⟨hb, ht⟩
      · rw [e]; exact mono_step'' s.md op' hI.wf hb ht (h1 hok.1) (h2 hm.1)
    exact mono_foldl ops (step s op) (inv_step s op hI hok.1) h2.1 h2.2 hok.2 hm.2

/-- every retained snapshot reads back exactly what was recorded at its commit -/
theorem content_stable' (ops : List Op) (h : OpsOk init ops) :
    ∀ i ∈ (run ops).md.ids, ∃ c, (run ops).committed.lookup i = some c ∧ content (run ops) i = some c := by
  exact (inv_run ops h).good

/-- the record made at a commit is never changed by anything later -/
theorem committed_frozen' (ops1 ops2 : List Op) (h : OpsOk init (ops1 ++ ops2)) (i : Nat) (c : List Nat)
    (hc : (run ops1).committed.lookup i = some c) : (run (ops1 ++ ops2)).committed.lookup i = some c := by
  have _ := h
  rw [run_append]; exact foldl_committed ops2 _ i c hc

/-- time travel is stable -/
theorem time_travel_stable' (ops1 ops2 : List Op) (h : OpsOk init (ops1 ++ ops2)) (i : Nat)
    (h1 : i ∈ (run ops1).md.ids) (h2 : i ∈ (run (ops1 ++ ops2)).md.ids) :
    content (run (ops1 ++ ops2)) i = content (run ops1) i ∧ (content (run ops1) i).isSome = true := by
  obtain ⟨c1, a1, a2⟩ := (inv_run ops1 ((opsOk_append ops1 ops2 init).1 h).1).good i h1
  obtain ⟨c2, b1, b2⟩ := (inv_run (ops1 ++ ops2) h).good i h2
  have := committed_frozen' ops1 ops2 h i c1 a1
  rw [this] at b1
  cases b1
  rw [a2, b2]; exact ⟨rfl, rfl⟩

/-- what a commit records: the base snapshot's files minus exactly the deleted ones, plus exactly the new ones -/
theorem commit_spec' (ops : List Op) (now id : Nat) (cutoff : Option Nat) (nApp : Nat) (deleted : List Nat)
    (h : OpsOk init (ops ++ [.commit now id cutoff nApp deleted])) (c : List Nat)
    (hc : (run (ops ++ [.commit now id cutoff nApp deleted])).committed.lookup id = some c) :
    c = ((match (run ops).md.cur with | P.id cur => (content (run ops) cur).getD [] | _ => []).filter fun d => !deleted.contains d)
        ++ (List.range nApp).map (· + (run ops).nextD) := by
  have hok := (opsOk_append ops [.commit now id cutoff nApp deleted] init).1 h
  have hI := inv_run ops hok.1
  have hop : id ∉ (run ops).md.hist.map (·.1) := hok.2.1
  have hnone : (run ops).committed.lookup id = none := lookup_notin_none (by rw [hI.histC]; exact hop)
  rw [run_append] at hc
  simp only [List.foldl_cons, List.foldl_nil, step] at hc
  cases hw : writeFiles (run ops) nApp deleted with
  | none => rw [hw] at hc; simp only [] at hc; rw [hnone] at hc; cases hc
  | some w =>
    rw [hw] at hc
    simp only [] at hc
    obtain ⟨-, -, -, -, -, -, w7⟩ := writeFiles_spec (run ops) hI nApp deleted w hw
    cases ha : addSnap now id cutoff (run ops).md with
    | error e => rw [ha] at hc; simp only [] at hc; rw [hnone] at hc; cases hc
    | ok md' =>
      rw [ha] at hc
      simp only [] at hc
      rw [List.lookup_append, hnone, w7] at hc
      simp only [Option.or, List.lookup_cons, beq_self_eq_true, Option.getD_some, Option.some.injEq] at hc
      exact hc.symm

/-- the metadata of every reachable state is well-formed (so the C15 lookup theorems apply to it) -/
theorem md_wf' (ops : List Op) (h : OpsOk init ops) : WF (run ops).md := by
  exact (inv_run ops h).wf

/-- with a non-decreasing clock the snapshot list stays in commit order with non-decreasing timestamps -/
theorem md_mono' (ops : List Op) (h : OpsOk init ops) (hm : OpsMono init ops) :
    BornSorted (run ops).md ∧ TsMono (run ops).md := by
  refine mono_foldl ops init inv_init ?_ ?_ h hm
  · exact List.Pairwise.nil
  · intro s hs; cases hs

/-- a collection never changes what a retained snapshot reads (one step, any candidate set) -/
theorem gc_keeps' (ops : List Op) (h : OpsOk init ops) (cands : Files) :
    ∀ i ∈ (run ops).md.ids, content (collect (run ops) cands) i = content (run ops) i := by
  have _ := h
  exact gc_keeps_gen (run ops) cands

end DSV.History
