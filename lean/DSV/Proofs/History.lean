import DSV.Model.History
import DSV.Proofs.Meta
/-!
Proofs for C09 over `DSV.History`.  Statements are restated (and must stay identical) in `DSV/Props/C09.lean`.
-/
namespace DSV.History
open DSV.Meta

/-- precondition the real system guarantees by construction: snapshot ids are fresh (random 63-bit ids) -/
def OpOk (s : St) : Op → Prop
  | .commit _ id _ _ _ => id ∉ s.md.hist.map (·.1)
  | _ => True

instance (s : St) (op : Op) : Decidable (OpOk s op) := by
  cases op <;> unfold OpOk <;> infer_instance

def OpsOk : St → List Op → Prop
  | _, [] => True
  | s, op :: rest => OpOk s op ∧ OpsOk (step s op) rest

instance : (s : St) → (ops : List Op) → Decidable (OpsOk s ops)
  | _, [] => isTrue trivial
  | s, op :: rest => by
      unfold OpsOk
      have := instDecidableOpsOk (step s op) rest
      infer_instance

/-- non-decreasing clock (equal timestamps allowed) -/
def OpMono (s : St) : Op → Prop
  | .commit now _ _ _ _ => ∀ sn ∈ s.md.snaps, sn.ts ≤ now
  | _ => True

def OpsMono : St → List Op → Prop
  | _, [] => True
  | s, op :: rest => OpMono s op ∧ OpsMono (step s op) rest

/-- every retained snapshot reads back exactly what was recorded at its commit -/
theorem content_stable' (ops : List Op) (h : OpsOk init ops) :
    ∀ i ∈ (run ops).md.ids, ∃ c, (run ops).committed.lookup i = some c ∧ content (run ops) i = some c := by
  sorry

/-- the record made at a commit is never changed by anything later -/
theorem committed_frozen' (ops1 ops2 : List Op) (h : OpsOk init (ops1 ++ ops2)) (i : Nat) (c : List Nat)
    (hc : (run ops1).committed.lookup i = some c) : (run (ops1 ++ ops2)).committed.lookup i = some c := by
  sorry

/-- time travel is stable -/
theorem time_travel_stable' (ops1 ops2 : List Op) (h : OpsOk init (ops1 ++ ops2)) (i : Nat)
    (h1 : i ∈ (run ops1).md.ids) (h2 : i ∈ (run (ops1 ++ ops2)).md.ids) :
    content (run (ops1 ++ ops2)) i = content (run ops1) i ∧ (content (run ops1) i).isSome = true := by
  sorry

/-- what a commit records: the base snapshot's files minus exactly the deleted ones, plus exactly the new ones -/
theorem commit_spec' (ops : List Op) (now id : Nat) (cutoff : Option Nat) (nApp : Nat) (deleted : List Nat)
    (h : OpsOk init (ops ++ [.commit now id cutoff nApp deleted])) (c : List Nat)
    (hc : (run (ops ++ [.commit now id cutoff nApp deleted])).committed.lookup id = some c) :
    c = ((match (run ops).md.cur with | P.id cur => (content (run ops) cur).getD [] | _ => []).filter fun d => !deleted.contains d)
        ++ (List.range nApp).map (· + (run ops).nextD) := by
  sorry

/-- the metadata of every reachable state is well-formed (so the C15 lookup theorems apply to it) -/
theorem md_wf' (ops : List Op) (h : OpsOk init ops) : WF (run ops).md := by
  sorry

/-- with a non-decreasing clock the snapshot list stays in commit order with non-decreasing timestamps -/
theorem md_mono' (ops : List Op) (h : OpsOk init ops) (hm : OpsMono init ops) :
    BornSorted (run ops).md ∧ TsMono (run ops).md := by
  sorry

/-- a collection never changes what a retained snapshot reads (one step, any candidate set) -/
theorem gc_keeps' (ops : List Op) (h : OpsOk init ops) (cands : Files) :
    ∀ i ∈ (run ops).md.ids, content (collect (run ops) cands) i = content (run ops) i := by
  sorry

end DSV.History
