import DSV.Model.Backend
/-! Path-string lemmas for the listing theorem of C20. -/
namespace DSV.Backend

def WfName (n : Name) : Prop := n ≠ [] ∧ '/' ∉ n
def WfPath (p : Path) : Prop := ∀ n ∈ p, WfName n

theorem sep_prefix (n : List Char) : ∀ (m x y : List Char), '/' ∉ n → '/' ∉ m →
    ((n ++ '/' :: x) <+: (m ++ '/' :: y) ↔ n = m ∧ x <+: y) := by
  induction n with
  | nil =>
    intro m x y _ hm
    cases m with
    | nil => simp [List.cons_prefix_cons]
    | cons c m' =>
      have hc : c ≠ '/' := fun e => hm (by simp [e])
      simp only [List.nil_append, List.cons_append, List.cons_prefix_cons]
      constructor
      · intro h; exact absurd h.1.symm hc
      · intro h; cases h.1
  | cons a n' ih =>
    intro m x y hn hm
    have ha : a ≠ '/' := fun e => hn (by simp [e])
    have hn' : '/' ∉ n' := fun h => hn (by simp [h])
    cases m with
    | nil =>
      simp only [List.cons_append, List.nil_append, List.cons_prefix_cons]
      constructor
      · intro h; exact absurd h.1 ha
      · intro h; cases h.1
    | cons c m' =>
      have hm' : '/' ∉ m' := fun h => hm (by simp [h])
      simp only [List.cons_append, List.cons_prefix_cons, ih m' x y hn' hm', List.cons.injEq]
      constructor
      · rintro ⟨rfl, rfl, h⟩; exact ⟨⟨rfl, rfl⟩, h⟩
      · rintro ⟨⟨rfl, rfl⟩, h⟩; exact ⟨rfl, rfl, h⟩

theorem sep_not_prefix_name (n x m : List Char) (hm : '/' ∉ m) : ¬ (n ++ '/' :: x) <+: m := by
  intro h
  obtain ⟨t, ht⟩ := h
  apply hm
  rw [← ht]
  simp

theorem joinPath_cons2 (m m2 : Name) (rest : Path) :
    joinPath (m :: m2 :: rest) = m ++ '/' :: joinPath (m2 :: rest) := rfl

/-- string-level directory matching = component-level proper prefix, for well-formed names -/
theorem dir_prefix_iff (d : Path) : ∀ (f : Path), d ≠ [] → WfPath d → WfPath f →
    ((joinPath d ++ ['/']) <+: joinPath f ↔ d <+: f ∧ d.length < f.length) := by
  induction d with
  | nil => intro f h; exact absurd rfl h
  | cons n dr ih =>
    intro f _ hd hf
    have hn : '/' ∉ n := (hd n (by simp)).2
    cases dr with
    | nil =>
      cases f with
      | nil => simp [joinPath]
      | cons m fr =>
        have hm : '/' ∉ m := (hf m (by simp)).2
        cases fr with
        | nil =>
          simp only [joinPath, List.length_cons, List.length_nil, Nat.lt_irrefl, and_false, iff_false]
          exact sep_not_prefix_name n [] m hm
        | cons m2 rest =>
          rw [joinPath_cons2]
          show (n ++ '/' :: []) <+: _ ↔ _
          rw [sep_prefix n m [] _ hn hm]
          simp [List.cons_prefix_cons]
    | cons n2 dr' =>
      have hd' : WfPath (n2 :: dr') := fun x hx => hd x (by simp [hx])
      cases f with
      | nil => simp [joinPath]
      | cons m fr =>
        have hm : '/' ∉ m := (hf m (by simp)).2
        cases fr with
        | nil =>
          rw [joinPath_cons2]
          simp only [joinPath, List.length_cons, List.length_nil]
          constructor
          · intro h
            rw [List.append_assoc, List.cons_append] at h
            exact absurd h (sep_not_prefix_name n _ m hm)
          · intro h; omega
        | cons m2 rest =>
          have hf' : WfPath (m2 :: rest) := fun x hx => hf x (by simp [hx])
          rw [joinPath_cons2, joinPath_cons2, List.append_assoc, List.cons_append,
            sep_prefix n m _ _ hn hm, ih (m2 :: rest) (by simp) hd' hf']
          simp only [List.cons_prefix_cons, List.length_cons]
          constructor
          · rintro ⟨rfl, h1, h2⟩; exact ⟨⟨rfl, h1⟩, by omega⟩
          · rintro ⟨⟨rfl, h1⟩, h2⟩; exact ⟨rfl, h1, by omega⟩

end DSV.Backend
