import DSV.Model.Lock
set_option linter.unusedVariables false
/-! Invariants and proofs behind `DSV/Props/C19.lean`. -/
namespace DSV.Lock

/-! ### flock -/

@[simp] theorem setInst_inst (s : FSys) (a : Nat) (f : FL) (x : Nat) :
    (setInst s a f).inst x = if x = a then f else s.inst x := rfl
@[simp] theorem setInst_k (s : FSys) (a : Nat) (f : FL) : (setInst s a f).k = s.k := rfl
@[simp] theorem setInst_now (s : FSys) (a : Nat) (f : FL) : (setInst s a f).now = s.now := rfl

structure FInv (s : FSys) : Prop where
  inode : ∀ h ∈ s.k.holders, h.inode = s.k.pathInode
  uniq : ∀ h1 ∈ s.k.holders, ∀ h2 ∈ s.k.holders, h1 = h2
  backed : ∀ a, (s.inst a).locked = true →
    ∃ ofd, (s.inst a).fd = some ofd ∧ ofd ∈ s.k.holders ∧ ofd.owner = a

theorem holders_nil_of_not_busy (s : FSys) (h1 : ∀ h ∈ s.k.holders, h.inode = s.k.pathInode)
    (hb : ¬ (s.k.holders.any (fun h => h.inode == s.k.pathInode) = true)) : s.k.holders = [] := by
  cases hh : s.k.holders with
  | nil => rfl
  | cons x t =>
    exfalso; apply hb
    rw [List.any_eq_true]
    refine ⟨x, ?_, ?_⟩
    · rw [hh]; exact List.mem_cons_self
    · have := h1 x (by rw [hh]; exact List.mem_cons_self)
      simp [this]

theorem busy_of_mem (s : FSys) (h1 : ∀ h ∈ s.k.holders, h.inode = s.k.pathInode) (x : Ofd) (hx : x ∈ s.k.holders) :
    s.k.holders.any (fun h => h.inode == s.k.pathInode) = true := by
  rw [List.any_eq_true]
  exact ⟨x, hx, by simp [h1 x hx]⟩

theorem finv_step {s s' : FSys} (a : Nat) (act : FAct) (hi : FInv s) (hs : fstep s a act = some s') : FInv s' := by
  obtain ⟨h1, h2, h3⟩ := hi
  cases act with
  | tick d =>
    simp only [fstep, Option.some.injEq] at hs; subst hs
    exact ⟨h1, h2, h3⟩
  | begin t =>
    simp only [fstep] at hs
    split at hs
    · contradiction
    · simp only [Option.some.injEq] at hs; subst hs
      refine ⟨h1, h2, ?_⟩
      intro x
      by_cases hxa : x = a
      · subst hxa; simpa using h3 x
      · simpa [hxa] using h3 x
  | attempt =>
    simp only [fstep] at hs
    split at hs
    · contradiction
    · split at hs
      · split at hs
        · simp only [Option.some.injEq] at hs; subst hs
          refine ⟨h1, h2, ?_⟩
          intro x
          by_cases hxa : x = a
          · subst hxa; simpa using h3 x
          · simpa [hxa] using h3 x
        · simp only [Option.some.injEq] at hs; subst hs
          exact ⟨h1, h2, h3⟩
      · rename_i hb
        have hnil := holders_nil_of_not_busy s h1 hb
        simp only [Option.some.injEq] at hs; subst hs
        refine ⟨?_, ?_, ?_⟩
        · intro h hh; simp [hnil] at hh; subst hh; rfl
        · intro x hx y hy; simp [hnil] at hx hy; rw [hx, hy]
        · intro x
          by_cases hxa : x = a
          · subst hxa; intro _; simp
          · intro hl
            simp [hxa] at hl
            obtain ⟨ofd, _, hm, _⟩ := h3 x hl
            rw [hnil] at hm; cases hm
  | release =>
    simp only [fstep] at hs
    split at hs
    · rename_i ofd hl hfd
      simp only [Option.some.injEq] at hs; subst hs
      obtain ⟨ofd', hfd', hm', ho'⟩ := h3 a hl
      rw [hfd] at hfd'; cases hfd'
      refine ⟨?_, ?_, ?_⟩
      · intro h hh; simp at hh; exact h1 h hh.1
      · intro x hx y hy; simp at hx hy; exact h2 x hx.1 y hy.1
      · intro x
        by_cases hxa : x = a
        · subst hxa; simp
        · intro hl'
          simp [hxa] at hl'
          obtain ⟨o, hf, hm, ho⟩ := h3 x hl'
          refine ⟨o, by simpa [hxa] using hf, ?_, ho⟩
          simp; refine ⟨hm, ?_⟩
          intro he; subst he; exact hxa (ho.symm.trans ho')
    · simp only [Option.some.injEq] at hs; subst hs
      exact ⟨h1, h2, h3⟩
  | die =>
    simp only [fstep, Option.some.injEq] at hs; subst hs
    refine ⟨?_, ?_, ?_⟩
    · intro h hh; simp at hh; exact h1 h hh.1
    · intro x hx y hy; simp at hx hy; exact h2 x hx.1 y hy.1
    · intro x
      by_cases hxa : x = a
      · subst hxa; simp
      · intro hl'
        simp [hxa] at hl'
        obtain ⟨o, hf, hm, ho⟩ := h3 x hl'
        refine ⟨o, by simpa [hxa] using hf, ?_, ho⟩
        simp; exact ⟨hm, by rw [ho]; exact hxa⟩

theorem finv_init : FInv finit := by
  refine ⟨?_, ?_, ?_⟩
  · intro h hh; simp [finit] at hh
  · intro h hh; simp [finit] at hh
  · intro a hl; simp [finit] at hl

theorem finv_reach {s : FSys} (h : FReach s) : FInv s := by
  induction h with
  | init => exact finv_init
  | step a act _ hs ih => exact finv_step a act ih hs

/-- actor `a` believes it holds the lock AND the kernel agrees -/
def KernelBacked (s : FSys) (a : Nat) : Prop :=
  (s.inst a).locked = true → ∃ ofd, (s.inst a).fd = some ofd ∧ ofd ∈ s.k.holders ∧ ofd.owner = a ∧ ofd.inode = s.k.pathInode

theorem flock_mutex' (s : FSys) (h : FReach s) :
    (∀ a b, (s.inst a).locked = true → (s.inst b).locked = true → a = b) ∧ (∀ a, KernelBacked s a) := by
  obtain ⟨h1, h2, h3⟩ := finv_reach h
  refine ⟨?_, ?_⟩
  · intro a b ha hb
    obtain ⟨oa, _, hma, hoa⟩ := h3 a ha
    obtain ⟨ob, _, hmb, hob⟩ := h3 b hb
    have := h2 oa hma ob hmb
    subst this; exact hoa.symm.trans hob
  · intro a hl
    obtain ⟨oa, hf, hma, hoa⟩ := h3 a hl
    exact ⟨oa, hf, hma, hoa, h1 oa hma⟩

theorem death_releases' (s s' : FSys) (h : FReach s) (a : Nat) (hs : fstep s a .die = some s') :
    (s'.inst a).locked = false ∧ ∀ ofd ∈ s'.k.holders, ofd.owner ≠ a := by
  simp only [fstep, Option.some.injEq] at hs; subst hs
  refine ⟨by simp, ?_⟩
  intro ofd hm
  simp at hm
  exact hm.2

/-- an attempt succeeds only if no OFD holds the lock on the inode; it raises TimeoutError exactly when the lock is
busy and the deadline has passed; otherwise it keeps waiting -/
theorem attempt_outcome' (s s' : FSys) (a : Nat) (dl : Nat) (hd : (s.inst a).deadline = some dl)
    (hs : fstep s a .attempt = some s') :
    let busy := s.k.holders.any (fun h => h.inode == s.k.pathInode)
    ((s'.inst a).locked = true ∧ (s.inst a).locked = false → busy = false) ∧
    (busy = true ∧ s.now ≥ dl → (s'.inst a).timedOut = true ∧ (s'.inst a).deadline = none ∧ (s'.inst a).locked = (s.inst a).locked) ∧
    (busy = true ∧ s.now < dl → s'.inst a = s.inst a) ∧
    (busy = false → (s'.inst a).locked = true) := by
  dsimp only
  simp only [fstep, hd] at hs
  by_cases hb : s.k.holders.any (fun h => h.inode == s.k.pathInode) = true
  · rw [if_pos hb] at hs
    by_cases hn : s.now ≥ dl
    · rw [if_pos hn] at hs
      simp only [Option.some.injEq] at hs; subst hs
      refine ⟨fun h => ?_, fun _ => by simp, fun h => absurd hn (Nat.not_le.mpr h.2), fun h => ?_⟩
      · have := h.1; simp [h.2] at this
      · rw [hb] at h; cases h
    · rw [if_neg hn] at hs
      simp only [Option.some.injEq] at hs; subst hs
      refine ⟨fun h => ?_, fun h => absurd h.2 hn, fun _ => rfl, fun h => ?_⟩
      · have := h.1; simp [h.2] at this
      · rw [hb] at h; cases h
  · rw [if_neg hb] at hs
    simp only [Option.some.injEq] at hs; subst hs
    refine ⟨fun _ => by simpa using hb, fun h => absurd h.1 hb, fun h => absurd h.1 hb, fun _ => by simp⟩

/-- no success while another holder is live: a successful attempt by `a` implies nobody else believed to hold it -/
theorem no_success_while_held' (s s' : FSys) (h : FReach s) (a b : Nat) (hab : a ≠ b)
    (hs : fstep s a .attempt = some s') (hb : (s.inst b).locked = true) : (s'.inst a).locked = (s.inst a).locked := by
  obtain ⟨h1, _, h3⟩ := finv_reach h
  obtain ⟨ofd, _, hm, _⟩ := h3 b hb
  have hbusy := busy_of_mem s h1 ofd hm
  simp only [fstep] at hs
  split at hs
  · contradiction
  · rw [if_pos hbusy] at hs
    split at hs
    · simp only [Option.some.injEq] at hs; subst hs; simp
    · simp only [Option.some.injEq] at hs; subst hs; rfl

/-! ### S3 lock -/

/-- `a` owns the lock object: the object carries its id and the ETag it last wrote -/
def Owns (s : SSys) (a : Nat) : Prop := ∃ o, s.obj = some o ∧ o.owner = a ∧ (s.cl a).etag = some o.etag


@[simp] theorem setCl_cl (s : SSys) (a : Nat) (c : Cl) (x : Nat) :
    (setCl s a c).cl x = if x = a then c else s.cl x := rfl
@[simp] theorem setCl_obj (s : SSys) (a : Nat) (c : Cl) : (setCl s a c).obj = s.obj := rfl
@[simp] theorem setCl_nextEtag (s : SSys) (a : Nat) (c : Cl) : (setCl s a c).nextEtag = s.nextEtag := rfl
@[simp] theorem setCl_now (s : SSys) (a : Nat) (c : Cl) : (setCl s a c).now = s.now := rfl
@[simp] theorem setCl_lease (s : SSys) (a : Nat) (c : Cl) : (setCl s a c).lease = s.lease := rfl
@[simp] theorem setCl_condDelete (s : SSys) (a : Nat) (c : Cl) : (setCl s a c).condDelete = s.condDelete := rfl
@[simp] theorem setCl_log (s : SSys) (a : Nat) (c : Cl) : (setCl s a c).log = s.log := rfl

structure SInv (lease : Nat) (cd : Bool) (s : SSys) : Prop where
  objLt : ∀ o, s.obj = some o → o.etag < s.nextEtag
  etagLt : ∀ a e, (s.cl a).etag = some e → e < s.nextEtag
  seenLt : ∀ a e m, (s.cl a).seen = some (e, m) → e < s.nextEtag
  own : ∀ a e o, (s.cl a).etag = some e → s.obj = some o → o.etag = e → o.owner = a
  seenLapsed : ∀ a e m o, (s.cl a).seen = some (e, m) → s.obj = some o → o.etag = e → s.now - o.mtime > s.lease
  lease_eq : s.lease = lease
  cd_eq : s.condDelete = cd

theorem sinv_init (lease : Nat) (cd : Bool) : SInv lease cd (sinit lease cd) := by
  refine ⟨?_, ?_, ?_, ?_, ?_, rfl, rfl⟩ <;> intros <;> simp [sinit] at *

/-- steps that write nothing new: the object stays or disappears, clients only forget -/
theorem sinv_weaken {lease : Nat} {cd : Bool} {s s' : SSys} (hi : SInv lease cd s)
    (hobj : s'.obj = s.obj ∨ s'.obj = none) (hn : s'.nextEtag = s.nextEtag) (hnow : s'.now = s.now)
    (hl : s'.lease = s.lease) (hc : s'.condDelete = s.condDelete)
    (he : ∀ x, (s'.cl x).etag = (s.cl x).etag ∨ (s'.cl x).etag = none)
    (hsn : ∀ x, (s'.cl x).seen = (s.cl x).seen ∨ (s'.cl x).seen = none) : SInv lease cd s' := by
  obtain ⟨i1, i2, i3, i4, i5, i6, i7⟩ := hi
  have hobj' : ∀ o, s'.obj = some o → s.obj = some o := by
    intro o ho
    rcases hobj with h | h
    · rw [← h]; exact ho
    · rw [h] at ho; cases ho
  have he' : ∀ x e, (s'.cl x).etag = some e → (s.cl x).etag = some e := by
    intro x e h
    rcases he x with h' | h'
    · rw [← h']; exact h
    · rw [h'] at h; cases h
  have hsn' : ∀ x e, (s'.cl x).seen = some e → (s.cl x).seen = some e := by
    intro x e h
    rcases hsn x with h' | h'
    · rw [← h']; exact h
    · rw [h'] at h; cases h
  refine ⟨?_, ?_, ?_, ?_, ?_, ?_, ?_⟩
  · intro o ho; rw [hn]; exact i1 o (hobj' o ho)
  · intro a e h; rw [hn]; exact i2 a e (he' a e h)
  · intro a e m h; rw [hn]; exact i3 a e m (hsn' a _ h)
  · intro a e o h ho; exact i4 a e o (he' a e h) (hobj' o ho)
  · intro a e m o h ho hoe; rw [hnow, hl]; exact i5 a e m o (hsn' a _ h) (hobj' o ho) hoe
  · rw [hl]; exact i6
  · rw [hc]; exact i7

/-- a successful conditional PUT by `a` -/
theorem sinv_write {lease : Nat} {cd : Bool} {s s' : SSys} (a : Nat) (hi : SInv lease cd s)
    (hobj : s'.obj = some ⟨a, s.nextEtag, s.now⟩) (hn : s'.nextEtag = s.nextEtag + 1)
    (hl : s'.lease = s.lease) (hc : s'.condDelete = s.condDelete)
    (hea : (s'.cl a).etag = some s.nextEtag)
    (he : ∀ x, x ≠ a → (s'.cl x).etag = (s.cl x).etag)
    (hsn : ∀ x, (s'.cl x).seen = (s.cl x).seen ∨ (s'.cl x).seen = none) : SInv lease cd s' := by
  obtain ⟨i1, i2, i3, i4, i5, i6, i7⟩ := hi
  have hsn' : ∀ x e, (s'.cl x).seen = some e → (s.cl x).seen = some e := by
    intro x e h
    rcases hsn x with h' | h'
    · rw [← h']; exact h
    · rw [h'] at h; cases h
  refine ⟨?_, ?_, ?_, ?_, ?_, ?_, ?_⟩
  · intro o ho; rw [hobj] at ho; cases ho; rw [hn]; exact Nat.lt_succ_self _
  · intro x e h
    rw [hn]
    by_cases hxa : x = a
    · subst hxa; rw [hea] at h; cases h; exact Nat.lt_succ_self _
    · rw [he x hxa] at h; exact Nat.lt_succ_of_lt (i2 x e h)
  · intro x e m h; rw [hn]; exact Nat.lt_succ_of_lt (i3 x e m (hsn' x _ h))
  · intro x e o h ho hoe
    rw [hobj] at ho; cases ho
    by_cases hxa : x = a
    · exact hxa.symm
    · rw [he x hxa] at h
      have := i2 x e h
      simp at hoe; omega
  · intro x e m o h ho hoe
    rw [hobj] at ho; cases ho
    have := i3 x e m (hsn' x _ h)
    simp at hoe; omega
  · rw [hl]; exact i6
  · rw [hc]; exact i7

macro "scl_side" a:ident : tactic =>
  `(tactic| first
    | rfl
    | (left; rfl)
    | (right; rfl)
    | (intro x; by_cases hxa : x = $a <;> simp [hxa])
    | (intro x hxa; simp [hxa])
    | simp)

theorem sinv_step {lease : Nat} {cd : Bool} {s s' : SSys} (a : Nat) (act : SAct) (hi : SInv lease cd s)
    (hs : sstep s a act = some s') : SInv lease cd s' := by
  cases act with
  | tick d =>
    simp only [sstep, Option.some.injEq] at hs; subst hs
    obtain ⟨i1, i2, i3, i4, i5, i6, i7⟩ := hi
    refine ⟨i1, i2, i3, i4, ?_, i6, i7⟩
    intro x e m o h ho hoe
    have := i5 x e m o h ho hoe
    show s.now + d - o.mtime > s.lease
    omega
  | create =>
    simp only [sstep] at hs
    split at hs
    · contradiction
    · split at hs
      · simp only [Option.some.injEq] at hs; subst hs
        apply sinv_write a hi <;> scl_side a
      · simp only [Option.some.injEq] at hs; subst hs; exact hi
  | head =>
    simp only [sstep] at hs
    split at hs
    · contradiction
    · split at hs
      · simp only [Option.some.injEq] at hs; subst hs
        apply sinv_weaken hi <;> scl_side a
      · rename_i o hobj
        split at hs
        · rename_i hlap
          simp only [Option.some.injEq] at hs; subst hs
          obtain ⟨i1, i2, i3, i4, i5, i6, i7⟩ := hi
          refine ⟨i1, ?_, ?_, ?_, ?_, i6, i7⟩
          · intro x e h
            by_cases hxa : x = a
            · subst hxa; simp at h; exact i2 x e h
            · simp [hxa] at h; exact i2 x e h
          · intro x e m h
            by_cases hxa : x = a
            · subst hxa; simp at h; rw [← h.1]; exact i1 o hobj
            · simp [hxa] at h; exact i3 x e m h
          · intro x e o' h ho' hoe
            by_cases hxa : x = a
            · subst hxa; simp at h; exact i4 x e o' h ho' hoe
            · simp [hxa] at h; exact i4 x e o' h ho' hoe
          · intro x e m o' h ho' hoe
            by_cases hxa : x = a
            · subst hxa
              simp at h ho'
              rw [hobj] at ho'; cases ho'
              simpa using hlap
            · simp [hxa] at h; exact i5 x e m o' h ho' hoe
        · simp only [Option.some.injEq] at hs; subst hs
          apply sinv_weaken hi <;> scl_side a
  | takeover =>
    simp only [sstep] at hs
    split at hs
    · split at hs
      · split at hs
        · simp only [Option.some.injEq] at hs; subst hs
          apply sinv_write a hi <;> scl_side a
        · simp only [Option.some.injEq] at hs; subst hs
          apply sinv_weaken hi <;> scl_side a
      · simp only [Option.some.injEq] at hs; subst hs
        apply sinv_weaken hi <;> scl_side a
    · contradiction
  | renew =>
    simp only [sstep] at hs
    split at hs
    · split at hs
      · split at hs
        · simp only [Option.some.injEq] at hs; subst hs
          apply sinv_write a hi <;> scl_side a
        · simp only [Option.some.injEq] at hs; subst hs
          apply sinv_weaken hi <;> scl_side a
      · simp only [Option.some.injEq] at hs; subst hs
        apply sinv_weaken hi <;> scl_side a
    · contradiction
  | isHeld =>
    simp only [sstep] at hs
    split at hs
    · simp only [Option.some.injEq] at hs; subst hs; exact hi
    · split at hs
      · split at hs
        · simp only [Option.some.injEq] at hs; subst hs; exact hi
        · simp only [Option.some.injEq] at hs; subst hs
          apply sinv_weaken hi <;> scl_side a
      · simp only [Option.some.injEq] at hs; subst hs; exact hi
  | relGet =>
    simp only [sstep] at hs
    split at hs
    · contradiction
    · split at hs
      · split at hs
        · simp only [Option.some.injEq] at hs; subst hs
          apply sinv_weaken hi <;> scl_side a
        · simp only [Option.some.injEq] at hs; subst hs
          apply sinv_weaken hi <;> scl_side a
      · simp only [Option.some.injEq] at hs; subst hs
        apply sinv_weaken hi <;> scl_side a
  | relDelete =>
    simp only [sstep] at hs
    split at hs
    · contradiction
    · simp only [Option.some.injEq] at hs; subst hs
      have key : ∀ del : Bool, SInv lease cd (setCl (if del then { s with obj := none } else s) a
          { s.cl a with isLocked := false, etag := none, rel := .idle }) := by
        intro del
        cases del
        · apply sinv_weaken hi <;> scl_side a
        · apply sinv_weaken hi <;> scl_side a
      exact key _

theorem sinv_reach {lease : Nat} {cd : Bool} {s : SSys} (h : SReach lease cd s) : SInv lease cd s := by
  induction h with
  | init => exact sinv_init lease cd
  | step a act _ hs ih => exact sinv_step a act ih hs

def Lapsed (s : SSys) : Prop := ∃ o, s.obj = some o ∧ s.now - o.mtime > s.lease

/-- acquisition event: the ghost log grew -/
def Acquired (s s' : SSys) (a : Nat) : Prop := ∃ t, s'.log = (a, t) :: s.log

theorem acq_excludes' (lease : Nat) (cd : Bool) (s s' : SSys) (h : SReach lease cd s) (a : Nat) (act : SAct)
    (hs : sstep s a act = some s') (hacq : Acquired s s' a) :
    s.obj = none ∨ Lapsed s := by
  obtain ⟨t, ht⟩ := hacq
  have inv := sinv_reach h
  have nolog : ∀ {l : List (Nat × Nat)} {x : Nat × Nat}, l = x :: l → False := by
    intro l x hl
    have := congrArg List.length hl
    simp at this
  cases act with
  | tick d => simp only [sstep, Option.some.injEq] at hs; subst hs; exact (nolog ht).elim
  | create =>
    simp only [sstep] at hs
    split at hs
    · contradiction
    · split at hs
      · left; assumption
      · simp only [Option.some.injEq] at hs; subst hs; exact (nolog ht).elim
  | head =>
    simp only [sstep] at hs
    split at hs
    · contradiction
    · split at hs
      · simp only [Option.some.injEq] at hs; subst hs; exact (nolog ht).elim
      · split at hs <;> (simp only [Option.some.injEq] at hs; subst hs; exact (nolog ht).elim)
  | takeover =>
    simp only [sstep] at hs
    split at hs
    · rename_i e m hlk hseen
      split at hs
      · rename_i o hobj
        split at hs
        · rename_i hoe
          right
          exact ⟨o, hobj, inv.seenLapsed a e m o hseen hobj hoe⟩
        · simp only [Option.some.injEq] at hs; subst hs; exact (nolog ht).elim
      · simp only [Option.some.injEq] at hs; subst hs; exact (nolog ht).elim
    · contradiction
  | renew =>
    simp only [sstep] at hs
    split at hs
    · split at hs
      · split at hs <;> (simp only [Option.some.injEq] at hs; subst hs; exact (nolog ht).elim)
      · simp only [Option.some.injEq] at hs; subst hs; exact (nolog ht).elim
    · contradiction
  | isHeld =>
    simp only [sstep] at hs
    split at hs
    · simp only [Option.some.injEq] at hs; subst hs; exact (nolog ht).elim
    · split at hs
      · split at hs <;> (simp only [Option.some.injEq] at hs; subst hs; exact (nolog ht).elim)
      · simp only [Option.some.injEq] at hs; subst hs; exact (nolog ht).elim
  | relGet =>
    simp only [sstep] at hs
    split at hs
    · contradiction
    · split at hs
      · split at hs <;> (simp only [Option.some.injEq] at hs; subst hs; exact (nolog ht).elim)
      · simp only [Option.some.injEq] at hs; subst hs; exact (nolog ht).elim
  | relDelete =>
    simp only [sstep] at hs
    split at hs
    · contradiction
    · simp only [Option.some.injEq] at hs; subst hs
      simp only [setCl_log] at ht
      have key : ∀ del : Bool, (if del then { s with obj := none } else s).log = s.log := by
        intro del; cases del <;> rfl
      rw [key] at ht
      exact (nolog ht).elim

theorem superseded_observes_loss' (lease : Nat) (cd : Bool) (s : SSys) (h : SReach lease cd s) (a : Nat)
    (hl : (s.cl a).isLocked = true) (ho : ∃ o, s.obj = some o ∧ o.owner ≠ a) :
    heldAnswer s a = false ∧
    (∀ s', sstep s a .isHeld = some s' → (s'.cl a).isLocked = false) ∧
    (∀ s', sstep s a .renew = some s' → (s'.cl a).isLocked = false ∧ s'.obj = s.obj) := by
  have inv := sinv_reach h
  obtain ⟨o, hobj, hne⟩ := ho
  refine ⟨?_, ?_, ?_⟩
  · simp [heldAnswer, hl, hobj, hne]
  · intro s' hs
    simp only [sstep, hl, hobj] at hs
    simp [hne] at hs
    subst hs; simp
  · intro s' hs
    simp only [sstep, hl, hobj] at hs
    split at hs
    · rename_i e _ hetag
      split at hs
      · rename_i hoe
        exact absurd (inv.own a e o hetag hobj hoe) hne
      · simp only [Option.some.injEq] at hs; subst hs; simp [hobj]
    · contradiction

theorem held_answer_sound' (lease : Nat) (cd : Bool) (s : SSys) (h : SReach lease cd s) (a : Nat)
    (hh : heldAnswer s a = true) : ∃ o, s.obj = some o ∧ o.owner = a := by
  unfold heldAnswer at hh
  cases hobj : s.obj with
  | none => simp [hobj] at hh
  | some o => simp [hobj] at hh; exact ⟨o, rfl, hh.2⟩

theorem owns_setCl {s : SSys} {a b : Nat} (hab : a ≠ b) (c : Cl) (ho : Owns s b) : Owns (setCl s a c) b := by
  obtain ⟨o, hobj, hw, he⟩ := ho
  refine ⟨o, hobj, hw, ?_⟩
  simp [Ne.symm hab, he]

/-- with a conditional delete, a step of ANOTHER actor never takes the object away from its owner unless the lease lapsed -/
theorem owned_object_persists' (lease : Nat) (s s' : SSys) (h : SReach lease true s) (a b : Nat) (hab : a ≠ b) (act : SAct)
    (hs : sstep s a act = some s') (ho : Owns s b) : Owns s' b ∨ Lapsed s := by
  have inv := sinv_reach h
  have hcd : s.condDelete = true := inv.cd_eq
  obtain ⟨o, hobj, hw, he⟩ := ho
  have ho : Owns s b := ⟨o, hobj, hw, he⟩
  cases act with
  | tick d =>
    simp only [sstep, Option.some.injEq] at hs; subst hs
    left; exact ⟨o, hobj, hw, he⟩
  | create =>
    simp only [sstep, hobj] at hs
    split at hs
    · contradiction
    · simp only [Option.some.injEq] at hs; subst hs; left; exact ho
  | head =>
    simp only [sstep, hobj] at hs
    split at hs
    · contradiction
    · split at hs <;> (simp only [Option.some.injEq] at hs; subst hs; left; exact owns_setCl hab _ ho)
  | takeover =>
    simp only [sstep, hobj] at hs
    split at hs
    · rename_i e m hlk hseen
      split at hs
      · rename_i hoe
        right
        exact ⟨o, hobj, inv.seenLapsed a e m o hseen hobj hoe⟩
      · simp only [Option.some.injEq] at hs; subst hs; left; exact owns_setCl hab _ ho
    · contradiction
  | renew =>
    simp only [sstep, hobj] at hs
    split at hs
    · rename_i e hlk hetag
      split at hs
      · rename_i hoe
        exact absurd ((inv.own a e o hetag hobj hoe).symm.trans hw) hab
      · simp only [Option.some.injEq] at hs; subst hs; left; exact owns_setCl hab _ ho
    · contradiction
  | isHeld =>
    simp only [sstep, hobj] at hs
    split at hs
    · simp only [Option.some.injEq] at hs; subst hs; left; exact ho
    · split at hs
      · simp only [Option.some.injEq] at hs; subst hs; left; exact ho
      · simp only [Option.some.injEq] at hs; subst hs; left; exact owns_setCl hab _ ho
  | relGet =>
    simp only [sstep, hobj] at hs
    split at hs
    · contradiction
    · split at hs <;> (simp only [Option.some.injEq] at hs; subst hs; left; exact owns_setCl hab _ ho)
  | relDelete =>
    simp only [sstep, hobj, hcd] at hs
    split at hs
    · contradiction
    · simp only [Option.some.injEq] at hs; subst hs
      left
      cases hea : (s.cl a).etag with
      | none => simp only [if_true]; exact owns_setCl hab _ ho
      | some e =>
        simp only [if_true]
        by_cases hoe : o.etag = e
        · exact absurd ((inv.own a e o hea hobj hoe).symm.trans hw) hab
        · have : (o.etag == e) = false := by simp [hoe]
          simp only [this]
          exact owns_setCl hab _ ho

/-- Full statement: a live owner keeps its lock object until its lease lapses, whatever the OTHER actors do. -/
def OwnedObjectPersists (cd : Bool) : Prop :=
  ∀ (lease : Nat) (s s' : SSys), SReach lease cd s → ∀ (a b : Nat), a ≠ b → ∀ act, sstep s a act = some s' →
    Owns s b → Owns s' b ∨ Lapsed s

/-- the release-spans-takeover schedule: 1 acquires, starts releasing (GET says "mine"), is paused past the lease,
2 takes over, 1's unconditional DELETE removes 2's fresh lock -/
def releaseSpansTakeover : List (Nat × SAct) :=
  [(1, .create), (1, .relGet), (0, .tick 61), (2, .create), (2, .head), (2, .takeover), (1, .relDelete)]

theorem sreach_srun_aux (lease : Nat) (cd : Bool) (sched : List (Nat × SAct)) :
    ∀ s s', SReach lease cd s → srun s sched = some s' → SReach lease cd s' := by
  induction sched with
  | nil => intro s s' h hr; simp only [srun, Option.some.injEq] at hr; subst hr; exact h
  | cons x rest ih =>
    intro s s' h hr
    obtain ⟨a, act⟩ := x
    simp only [srun] at hr
    split at hr
    · rename_i s1 hs1; exact ih s1 s' (SReach.step a act h hs1) hr
    · contradiction

theorem owned_object_persists_refuted' : ¬ OwnedObjectPersists false := by
  intro hP
  have hsome : (srun (sinit 60 false) releaseSpansTakeover.dropLast).isSome = true := by decide
  cases hr : srun (sinit 60 false) releaseSpansTakeover.dropLast with
  | none => rw [hr] at hsome; cases hsome
  | some s =>
    have hreach : SReach 60 false s := sreach_srun_aux 60 false _ _ _ (SReach.init) hr
    have facts : (srun (sinit 60 false) releaseSpansTakeover.dropLast).map
        (fun s => (s.obj, (s.cl 2).etag, s.now, s.lease, (s.cl 1).rel, s.condDelete)) =
        some (some ⟨2, 1, 61⟩, some 1, 61, 60, RelPc.gotOwn, false) := by decide
    rw [hr] at facts
    simp only [Option.map_some, Option.some.injEq, Prod.mk.injEq] at facts
    obtain ⟨hobj, hetag, hnow, hlease, hrel, hcd⟩ := facts
    have hstep : sstep s 1 .relDelete = some (setCl { s with obj := none } 1
        { s.cl 1 with isLocked := false, etag := none, rel := .idle }) := by
      simp [sstep, hrel, hcd]
    have howns : Owns s 2 := ⟨⟨2, 1, 61⟩, hobj, rfl, hetag⟩
    rcases hP 60 s _ hreach 1 2 (by decide) .relDelete hstep howns with h | h
    · obtain ⟨o, ho, _⟩ := h
      simp at ho
    · obtain ⟨o, ho, hl⟩ := h
      rw [hobj] at ho; cases ho
      rw [hnow, hlease] at hl
      simp at hl

theorem sreach_srun (lease : Nat) (cd : Bool) (sched : List (Nat × SAct)) :
    ∀ s s', SReach lease cd s → srun s sched = some s' → SReach lease cd s' := sreach_srun_aux lease cd sched

theorem freach_frun (sched : List (Nat × FAct)) :
    ∀ s s', FReach s → frun s sched = some s' → FReach s' := by
  induction sched with
  | nil => intro s s' h hr; simp only [frun, Option.some.injEq] at hr; subst hr; exact h
  | cons x rest ih =>
    intro s s' h hr
    obtain ⟨a, act⟩ := x
    simp only [frun] at hr
    split at hr
    · rename_i s1 hs1; exact ih s1 s' (FReach.step a act h hs1) hr
    · contradiction

end DSV.Lock
