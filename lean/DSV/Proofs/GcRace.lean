import DSV.Model.GcRace
/-! Proofs behind `DSV/Props/C06.lean`. -/
namespace DSV.GcRace

theorem reach_run (mf : Bool) (u : List Nat) (files : Nat → Option FileSt) (committed : List Nat) (sched : List (Nat × Act)) :
    ∀ s s', Reach mf u files committed s → (∀ p ∈ sched, p.1 ≥ 1 ∧ ∀ f o, p.2 = .txMarker f o → f ∈ u) →
      run mf u s sched = some s' → Reach mf u files committed s' := by sorry

theorem gc_concurrent_safe' (u : List Nat) (files : Nat → Option FileSt) (committed : List Nat)
    (h0 : InitOk files committed u) (s : Sys) (hr : Reach true u files committed s) :
    ∀ f ∈ s.committed, f ∉ s.deleted ∧ ∃ st, s.files f = some st ∧ st.exists_ = true := by sorry

/-- files of a transaction that has not flipped yet are not deleted by the collector while their marker stands -/
theorem inflight_protected' (u : List Nat) (files : Nat → Option FileSt) (committed : List Nat)
    (h0 : InitOk files committed u) (s : Sys) (hr : Reach true u files committed s) (f : Nat) (st : FileSt)
    (hf : s.files f = some st) (ho : st.owner ≥ 1) : f ∉ s.deleted := by sorry

end DSV.GcRace
