import DSV.Model.GcRace
/-! Proofs behind `DSV/Props/C06.lean`. -/
namespace DSV.GcRace

theorem reach_run (mf : Bool) (u : List Nat) (files : Nat → Option FileSt) (committed : List Nat) (sched : List (Nat × Act)) :
    ∀ s s', Reach mf u files committed s → (∀ p ∈ sched, p.1 ≥ 1 ∧ ∀ f o, p.2 = .txMarker f o → f ∈ u) →
      run mf u s sched = some s' → Reach mf u files committed s' := by
  induction sched with
  | nil =>
    intro s s' hr _ h
    simp only [run, Option.some.injEq] at h
    exact h ▸ hr
  | cons p rest ih =>
    intro s s' hr hall h
    obtain ⟨a, act⟩ := p
    simp only [run] at h
    split at h
    · rename_i s1 hstep
      have hp := hall (a, act) (List.mem_cons_self ..)
      exact ih s1 s' (Reach.step a act hr hp.1 hp.2 hstep)
        (fun q hq => hall q (List.mem_cons_of_mem _ hq)) h
    · cases h

/-- a file the collector's age test lets through is not `Young` -/
def Young (st : FileSt) : Prop := st.oldAtStart = false ∨ st.bornInRun = true

/-- inductive invariant of the markers-first system -/
structure Inv (u : List Nat) (s : Sys) : Prop where
  C : ∀ f ∈ s.committed, ∃ st, s.files f = some st ∧ st.exists_ = true ∧ (st.owner = 0 ∨ s.tx st.owner ≠ .active)
  Del : ∀ f ∈ s.deleted, s.files f = none
  M1 : ∀ f st, s.files f = some st → f ∈ u
  M2 : ∀ f st, s.files f = some st → st.owner ≥ 1 → s.tx st.owner = .active → st.marker = true
  M3 : ∀ f st, s.files f = some st → st.owner ≥ 1 → st.exists_ = true → s.tx st.owner ≠ .active → f ∈ s.committed
  R : s.gc = .start ∨ s.running = true
  GM : ∀ p, s.gc = .gotMarkers p → ∀ f st, s.files f = some st → st.exists_ = true → st.owner ≥ 1 →
        f ∈ s.committed ∨ f ∈ p ∨ Young st
  GD : ∀ r p, s.gc = .deleting r p → ∀ f st, s.files f = some st → st.exists_ = true → (f ∈ s.committed ∨ st.owner ≥ 1) →
        f ∈ r ∨ f ∈ p ∨ Young st

theorem inv_init (u : List Nat) (files : Nat → Option FileSt) (committed : List Nat) (h0 : InitOk files committed u) :
    Inv u (init files committed) := by
  obtain ⟨h1, h2⟩ := h0
  refine ⟨?_, ?_, ?_, ?_, ?_, ?_, ?_, ?_⟩
  · intro f hf
    obtain ⟨st, hst⟩ := h2 f hf
    have := h1 f st hst
    exact ⟨st, hst, this.2.2.1, Or.inl this.1⟩
  · intro f hf; cases hf
  · intro f st hst; exact (h1 f st hst).2.2.2.2
  · intro f st hst ho; have := (h1 f st hst).1; omega
  · intro f st hst ho; have := (h1 f st hst).1; omega
  · exact Or.inl rfl
  · intro p hp; cases hp
  · intro r p hp; cases hp

theorem inv_step (u : List Nat) (s s' : Sys) (a : Nat) (act : Act) (h : Inv u s) (ha : a ≥ 1)
    (hu : ∀ f o, act = .txMarker f o → f ∈ u) (hs : step true u s a act = some s') : Inv u s' := by
  cases act with
  | txMarker f old =>
    simp only [step] at hs
    split at hs
    · rename_i htx hfn
      split at hs
      · cases hs
      · rename_i hc
        injection hs with hs; subst hs
        have hfd : f ∉ s.deleted := by
          intro hm; apply hc; simp [hm]
        refine ⟨?_, ?_, ?_, ?_, ?_, ?_, ?_, ?_⟩
        · intro x hx
          obtain ⟨st, e1, e2, e3⟩ := h.C x hx
          have hne : x ≠ f := by intro e; subst e; rw [hfn] at e1; cases e1
          exact ⟨st, by simp [setFile, hne, e1], e2, e3⟩
        · intro x hx
          have hne : x ≠ f := by intro e; subst e; exact hfd hx
          simp [setFile, hne, h.Del x hx]
        · intro x st hx
          by_cases e : x = f
          · subst e; exact hu x old rfl
          · simp [setFile, e] at hx; exact h.M1 x st hx
        · intro x st hx
          by_cases e : x = f
          · subst e; simp [setFile] at hx; subst hx; intros; rfl
          · simp [setFile, e] at hx; exact h.M2 x st hx
        · intro x st hx
          by_cases e : x = f
          · subst e; simp [setFile] at hx; subst hx; intro _ hh; cases hh
          · simp [setFile, e] at hx; exact h.M3 x st hx
        · exact h.R
        · intro p hp x st hx
          by_cases e : x = f
          · subst e; simp [setFile] at hx; subst hx; intro hh; cases hh
          · simp [setFile, e] at hx; exact h.GM p hp x st hx
        · intro r p hp x st hx
          by_cases e : x = f
          · subst e; simp [setFile] at hx; subst hx; intro hh; cases hh
          · simp [setFile, e] at hx; exact h.GD r p hp x st hx
    · cases hs
  | txWrite f =>
    simp only [step] at hs
    split at hs
    · rename_i st0 htx hfs
      split at hs
      · rename_i hc
        injection hs with hs; subst hs
        obtain ⟨hc1, hc2, hc3⟩ := hc
        refine ⟨?_, ?_, ?_, ?_, ?_, ?_, ?_, ?_⟩
        · intro x hx
          obtain ⟨st, e1, e2, e3⟩ := h.C x hx
          by_cases e : x = f
          · subst e; rw [hfs] at e1; cases e1; simp [e2] at hc3
          · exact ⟨st, by simp [setFile, e, e1], e2, e3⟩
        · intro x hx
          have hne : x ≠ f := by intro e; subst e; rw [h.Del x hx] at hfs; cases hfs
          simp [setFile, hne, h.Del x hx]
        · intro x st hx
          by_cases e : x = f
          · subst e; exact h.M1 x st0 hfs
          · simp [setFile, e] at hx; exact h.M1 x st hx
        · intro x st hx
          by_cases e : x = f
          · subst e; simp [setFile] at hx; subst hx; intros; exact hc2
          · simp [setFile, e] at hx; exact h.M2 x st hx
        · intro x st hx
          by_cases e : x = f
          · subst e; simp [setFile] at hx; subst hx
            intro _ _ hh; exact absurd (hc1 ▸ htx) hh
          · simp [setFile, e] at hx; exact h.M3 x st hx
        · exact h.R
        · intro p hp x st hx
          by_cases e : x = f
          · subst e; simp [setFile] at hx; subst hx
            intro _ _
            rcases h.R with hr | hr
            · replace hp : s.gc = _ := hp
              rw [hr] at hp; cases hp
            · exact Or.inr (Or.inr (Or.inr hr))
          · simp [setFile, e] at hx; exact h.GM p hp x st hx
        · intro r p hp x st hx
          by_cases e : x = f
          · subst e; simp [setFile] at hx; subst hx
            intro _ _
            rcases h.R with hr | hr
            · replace hp : s.gc = _ := hp
              rw [hr] at hp; cases hp
            · exact Or.inr (Or.inr (Or.inr hr))
          · simp [setFile, e] at hx; exact h.GD r p hp x st hx
      · cases hs
    · cases hs
  | txFlip =>
    simp only [step] at hs
    split at hs
    · rename_i htx
      injection hs with hs; subst hs
      have hfilt : ∀ x, x ∈ u.filter (fun f => ownedBy s a f && ((s.files f).map (·.exists_)).getD false) →
          ∃ st, s.files x = some st ∧ st.owner = a ∧ st.exists_ = true := by
        intro x hx
        rw [List.mem_filter] at hx
        obtain ⟨_, hx⟩ := hx
        unfold ownedBy at hx
        cases hfx : s.files x with
        | none => rw [hfx] at hx; simp at hx
        | some st => rw [hfx] at hx; simp at hx; exact ⟨st, rfl, hx.1, hx.2⟩
      refine ⟨?_, ?_, ?_, ?_, ?_, ?_, ?_, ?_⟩
      · intro x hx
        replace hx : x ∈ s.committed ++ _ := hx
        rw [List.mem_append] at hx
        rcases hx with hx | hx
        · obtain ⟨st, e1, e2, e3⟩ := h.C x hx
          refine ⟨st, e1, e2, ?_⟩
          rcases e3 with e3 | e3
          · exact Or.inl e3
          · right
            show (if st.owner = a then TxPc.flipped else s.tx st.owner) ≠ TxPc.active
            split
            · intro hh; cases hh
            · exact e3
        · obtain ⟨st, e1, e2, e3⟩ := hfilt x hx
          refine ⟨st, e1, e3, Or.inr ?_⟩
          show (if st.owner = a then TxPc.flipped else s.tx st.owner) ≠ TxPc.active
          rw [if_pos e2]; intro hh; cases hh
      · exact h.Del
      · exact h.M1
      · intro x st hx ho ht
        replace ht : (if st.owner = a then TxPc.flipped else s.tx st.owner) = TxPc.active := ht
        split at ht
        · cases ht
        · exact h.M2 x st hx ho ht
      · intro x st hx ho he ht
        replace hx : s.files x = some st := hx
        replace ht : (if st.owner = a then TxPc.flipped else s.tx st.owner) ≠ TxPc.active := ht
        show x ∈ s.committed ++ _
        rw [List.mem_append]
        by_cases e : st.owner = a
        · right
          rw [List.mem_filter]
          refine ⟨h.M1 x st hx, ?_⟩
          simp [ownedBy, hx, e, he]
        · rw [if_neg e] at ht
          exact Or.inl (h.M3 x st hx ho he ht)
      · exact h.R
      · intro p hp x st hx he ho
        rcases h.GM p hp x st hx he ho with hh | hh
        · left; show x ∈ s.committed ++ _; exact List.mem_append_left _ hh
        · exact Or.inr hh
      · intro r p hp x st hx he hco
        replace hx : s.files x = some st := hx
        apply h.GD r p hp x st hx he
        rcases hco with hco | hco
        · replace hco : x ∈ s.committed ++ _ := hco
          rw [List.mem_append] at hco
          rcases hco with hco | hco
          · exact Or.inl hco
          · obtain ⟨st', e1, e2, e3⟩ := hfilt x hco
            rw [hx] at e1; cases e1
            right; omega
        · exact Or.inr hco
    · cases hs
  | txUnmark f =>
    simp only [step] at hs
    split at hs
    · rename_i st0 htx hfs
      split at hs
      · rename_i hc1
        injection hs with hs; subst hs
        have hta : s.tx st0.owner ≠ TxPc.active := by rw [hc1, htx]; intro hh; cases hh
        refine ⟨?_, ?_, ?_, ?_, ?_, ?_, ?_, ?_⟩
        · intro x hx
          obtain ⟨st, e1, e2, e3⟩ := h.C x hx
          by_cases e : x = f
          · subst e; rw [hfs] at e1; cases e1
            exact ⟨{ st0 with marker := false }, by simp [setFile], e2, e3⟩
          · exact ⟨st, by simp [setFile, e, e1], e2, e3⟩
        · intro x hx
          have hne : x ≠ f := by intro e; subst e; rw [h.Del x hx] at hfs; cases hfs
          simp [setFile, hne, h.Del x hx]
        · intro x st hx
          by_cases e : x = f
          · subst e; exact h.M1 x st0 hfs
          · simp [setFile, e] at hx; exact h.M1 x st hx
        · intro x st hx
          by_cases e : x = f
          · subst e; simp [setFile] at hx; subst hx
            intro _ hh; exact absurd hh hta
          · simp [setFile, e] at hx; exact h.M2 x st hx
        · intro x st hx
          by_cases e : x = f
          · subst e; simp [setFile] at hx; subst hx
            intro ho he ht; exact h.M3 x st0 hfs ho he ht
          · simp [setFile, e] at hx; exact h.M3 x st hx
        · exact h.R
        · intro p hp x st hx
          by_cases e : x = f
          · subst e; simp [setFile] at hx; subst hx
            exact h.GM p hp x st0 hfs
          · simp [setFile, e] at hx; exact h.GM p hp x st hx
        · intro r p hp x st hx
          by_cases e : x = f
          · subst e; simp [setFile] at hx; subst hx
            exact h.GD r p hp x st0 hfs
          · simp [setFile, e] at hx; exact h.GD r p hp x st hx
      · cases hs
    · cases hs
  | txFinish =>
    simp only [step] at hs
    split at hs
    · rename_i htx
      injection hs with hs; subst hs
      refine ⟨?_, h.Del, h.M1, ?_, ?_, h.R, h.GM, h.GD⟩
      · intro x hx
        obtain ⟨st, e1, e2, e3⟩ := h.C x hx
        refine ⟨st, e1, e2, ?_⟩
        rcases e3 with e3 | e3
        · exact Or.inl e3
        · right
          show (if st.owner = a then TxPc.finished else s.tx st.owner) ≠ TxPc.active
          split
          · intro hh; cases hh
          · exact e3
      · intro x st hx ho ht
        replace ht : (if st.owner = a then TxPc.finished else s.tx st.owner) = TxPc.active := ht
        split at ht
        · cases ht
        · exact h.M2 x st hx ho ht
      · intro x st hx ho he ht
        replace ht : (if st.owner = a then TxPc.finished else s.tx st.owner) ≠ TxPc.active := ht
        by_cases e : st.owner = a
        · exact h.M3 x st hx ho he (by rw [e, htx]; intro hh; cases hh)
        · rw [if_neg e] at ht
          exact h.M3 x st hx ho he ht
    · cases hs
  | txRollback =>
    simp only [step] at hs
    split at hs
    · rename_i htx
      injection hs with hs; subst hs
      have hkeep : ∀ x st, (if ownedBy s a x then none else s.files x) = some st →
          s.files x = some st ∧ st.owner ≠ a := by
        intro x st hx
        split at hx
        · cases hx
        · rename_i hno
          refine ⟨hx, ?_⟩
          intro e; apply hno; simp [ownedBy, hx, e]
      refine ⟨?_, ?_, ?_, ?_, ?_, h.R, ?_, ?_⟩
      · intro x hx
        obtain ⟨st, e1, e2, e3⟩ := h.C x hx
        have hne : st.owner ≠ a := by
          rcases e3 with e3 | e3
          · omega
          · intro e; rw [e] at e3; exact e3 htx
        refine ⟨st, ?_, e2, ?_⟩
        · show (if ownedBy s a x then none else s.files x) = some st
          have : ownedBy s a x = false := by simp [ownedBy, e1, hne]
          simp [this, e1]
        · rcases e3 with e3 | e3
          · exact Or.inl e3
          · right
            show (if st.owner = a then TxPc.rolledBack else s.tx st.owner) ≠ TxPc.active
            rw [if_neg hne]; exact e3
      · intro x hx
        show (if ownedBy s a x then none else s.files x) = none
        simp [h.Del x hx]
      · intro x st hx
        exact h.M1 x st (hkeep x st hx).1
      · intro x st hx ho ht
        obtain ⟨k1, k2⟩ := hkeep x st hx
        replace ht : (if st.owner = a then TxPc.rolledBack else s.tx st.owner) = TxPc.active := ht
        rw [if_neg k2] at ht
        exact h.M2 x st k1 ho ht
      · intro x st hx ho he ht
        obtain ⟨k1, k2⟩ := hkeep x st hx
        replace ht : (if st.owner = a then TxPc.rolledBack else s.tx st.owner) ≠ TxPc.active := ht
        rw [if_neg k2] at ht
        exact h.M3 x st k1 ho he ht
      · intro p hp x st hx
        exact h.GM p hp x st (hkeep x st hx).1
      · intro r p hp x st hx
        exact h.GD r p hp x st (hkeep x st hx).1
    · cases hs
  | gcReadMeta =>
    simp only [step] at hs
    split at hs
    · simp at hs
    · rename_i p hgc
      simp only [if_true] at hs
      injection hs with hs; subst hs
      refine ⟨h.C, h.Del, h.M1, h.M2, h.M3, ?_, ?_, ?_⟩
      · rcases h.R with hr | hr
        · rw [hr] at hgc; cases hgc
        · exact Or.inr hr
      · intro p' hp'; cases hp'
      · intro r p' hp' x st hx he hco
        replace hp' : GcPc.deleting s.committed p = GcPc.deleting r p' := hp'
        injection hp' with hr hp'; subst hr; subst hp'
        rcases hco with hco | hco
        · exact Or.inl hco
        · exact h.GM p hgc x st hx he hco
    · cases hs
  | gcReadMarkers =>
    simp only [step] at hs
    split at hs
    · rename_i hgc
      simp only [if_true] at hs
      injection hs with hs; subst hs
      refine ⟨h.C, h.Del, h.M1, h.M2, h.M3, Or.inr rfl, ?_, ?_⟩
      · intro p' hp' x st hx he ho
        replace hx : s.files x = some st := hx
        replace hp' : GcPc.gotMarkers _ = GcPc.gotMarkers p' := hp'
        injection hp' with hp'; subst hp'
        by_cases ht : s.tx st.owner = TxPc.active
        · right; left
          rw [List.mem_filter]
          exact ⟨h.M1 x st hx, by simp [hx, h.M2 x st hx ho ht]⟩
        · exact Or.inl (h.M3 x st hx ho he ht)
      · intro r p' hp'; cases hp'
    · simp at hs
    · cases hs
  | gcDelete f =>
    simp only [step] at hs
    split at hs
    · rename_i r p st0 hgc hfs
      split at hs
      · rename_i hc
        injection hs with hs; subst hs
        simp only [Bool.and_eq_true, Bool.not_eq_true', List.contains_eq_mem, decide_eq_false_iff_not] at hc
        obtain ⟨⟨⟨⟨c1, c2⟩, c3⟩, c4⟩, c5⟩ := hc
        have hnc : f ∉ s.committed := by
          intro hm
          rcases h.GD r p hgc f st0 hfs c1 (Or.inl hm) with hh | hh | hh | hh
          · exact c2 hh
          · exact c3 hh
          · rw [c4] at hh; cases hh
          · rw [c5] at hh; cases hh
        have hkeep : ∀ x st, (if x = f then none else s.files x) = some st → s.files x = some st := by
          intro x st hx
          split at hx
          · cases hx
          · exact hx
        refine ⟨?_, ?_, ?_, ?_, ?_, h.R, ?_, ?_⟩
        · intro x hx
          obtain ⟨st, e1, e2, e3⟩ := h.C x hx
          have hne : x ≠ f := by intro e; subst e; exact hnc hx
          exact ⟨st, by simp [setFile, hne, e1], e2, e3⟩
        · intro x hx
          replace hx : x ∈ f :: s.deleted := hx
          show (if x = f then none else s.files x) = none
          rcases List.mem_cons.mp hx with hx | hx
          · simp [hx]
          · simp [h.Del x hx]
        · intro x st hx; exact h.M1 x st (hkeep x st hx)
        · intro x st hx; exact h.M2 x st (hkeep x st hx)
        · intro x st hx; exact h.M3 x st (hkeep x st hx)
        · intro p' hp' x st hx; exact h.GM p' hp' x st (hkeep x st hx)
        · intro r' p' hp' x st hx; exact h.GD r' p' hp' x st (hkeep x st hx)
      · injection hs with hs; subst hs; exact h
    · cases hs
  | gcFinish =>
    simp only [step] at hs
    split at hs
    · rename_i r p hgc
      injection hs with hs; subst hs
      refine ⟨h.C, h.Del, h.M1, h.M2, h.M3, ?_, ?_, ?_⟩
      · rcases h.R with hr | hr
        · rw [hr] at hgc; cases hgc
        · exact Or.inr hr
      · intro p' hp'; cases hp'
      · intro r' p' hp'; cases hp'
    · cases hs

theorem inv_reach (u : List Nat) (files : Nat → Option FileSt) (committed : List Nat)
    (h0 : InitOk files committed u) (s : Sys) (hr : Reach true u files committed s) : Inv u s := by
  induction hr with
  | init => exact inv_init u files committed h0
  | step a act _ ha hu hs ih => exact inv_step u _ _ a act ih ha hu hs

theorem gc_concurrent_safe' (u : List Nat) (files : Nat → Option FileSt) (committed : List Nat)
    (h0 : InitOk files committed u) (s : Sys) (hr : Reach true u files committed s) :
    ∀ f ∈ s.committed, f ∉ s.deleted ∧ ∃ st, s.files f = some st ∧ st.exists_ = true := by
  have h := inv_reach u files committed h0 s hr
  intro f hf
  obtain ⟨st, e1, e2, _⟩ := h.C f hf
  refine ⟨?_, st, e1, e2⟩
  intro hd
  rw [h.Del f hd] at e1; cases e1

/-- files of a transaction that has not flipped yet are not deleted by the collector while their marker stands -/
theorem inflight_protected' (u : List Nat) (files : Nat → Option FileSt) (committed : List Nat)
    (h0 : InitOk files committed u) (s : Sys) (hr : Reach true u files committed s) (f : Nat) (st : FileSt)
    (hf : s.files f = some st) (ho : st.owner ≥ 1) : f ∉ s.deleted := by
  have h := inv_reach u files committed h0 s hr
  have _ := ho
  intro hd
  rw [h.Del f hd] at hf; cases hf

end DSV.GcRace
