import DSV.Model.Marker
namespace DSV.Marker

theorem register_fst_mem (name : Str → Str) (paths : List Str) : ∀ (h : List Str) (done : List Str) (p : Str), p ∈ paths →
    name p ∈ (paths.foldl (fun (acc : List Str × List Str) p =>
      if acc.1.contains (name p) then acc else (acc.1 ++ [name p], acc.2 ++ [p])) (h, done)).1 := by
  induction paths with
  | nil => intro h done p hp; cases hp
  | cons q rest ih =>
    intro h done p hp
    simp only [List.foldl_cons]
    have mono : ∀ (l : List Str) (h' d' : List Str) (x : Str), x ∈ h' →
        x ∈ (l.foldl (fun (acc : List Str × List Str) p =>
          if acc.1.contains (name p) then acc else (acc.1 ++ [name p], acc.2 ++ [p])) (h', d')).1 := by
      intro l
      induction l with
      | nil => intro h' d' x hx; exact hx
      | cons y ys ihy =>
        intro h' d' x hx
        simp only [List.foldl_cons]
        split
        · exact ihy h' d' x hx
        · exact ihy _ _ x (List.mem_append_left _ hx)
    rcases List.mem_cons.mp hp with rfl | hp
    · split
      · rename_i hc
        exact mono rest h done (name p) (by simpa using hc)
      · exact mono rest _ _ (name p) (by simp)
    · split
      · exact ih h done p hp
      · exact ih _ _ p hp

/-- a path whose marker name is new (not yet held, not shared with an earlier path of the batch) is registered itself -/
theorem register_snd_mem (name : Str → Str) : ∀ (paths : List Str) (h done : List Str) (p : Str), p ∈ paths →
    name p ∉ h → (∀ q ∈ paths, name q = name p → q = p) →
    p ∈ (paths.foldl (fun (acc : List Str × List Str) p =>
      if acc.1.contains (name p) then acc else (acc.1 ++ [name p], acc.2 ++ [p])) (h, done)).2 := by
  intro paths
  induction paths with
  | nil => intro h done p hp; cases hp
  | cons q rest ih =>
    intro h done p hp hnew hinj
    have mono : ∀ (l : List Str) (h' d' : List Str) (x : Str), x ∈ d' →
        x ∈ (l.foldl (fun (acc : List Str × List Str) p =>
          if acc.1.contains (name p) then acc else (acc.1 ++ [name p], acc.2 ++ [p])) (h', d')).2 := by
      intro l
      induction l with
      | nil => intro h' d' x hx; exact hx
      | cons y ys ihy =>
        intro h' d' x hx
        simp only [List.foldl_cons]
        split
        · exact ihy h' d' x hx
        · exact ihy _ _ x (List.mem_append_left _ hx)
    simp only [List.foldl_cons]
    by_cases hqp : q = p
    · subst hqp
      have : (h.contains (name q)) = false := by simpa using hnew
      simp only [this, Bool.false_eq_true, if_false]
      exact mono rest _ _ q (by simp)
    · have hp' : p ∈ rest := by
        rcases List.mem_cons.mp hp with h1 | h1
        · exact absurd h1.symm hqp
        · exact h1
      have hne : name q ≠ name p := fun e => hqp (hinj q List.mem_cons_self e)
      split
      · exact ih h done p hp' hnew (fun r hr => hinj r (List.mem_cons_of_mem _ hr))
      · refine ih _ _ p hp' ?_ (fun r hr => hinj r (List.mem_cons_of_mem _ hr))
        intro hm
        rcases List.mem_append.mp hm with hm | hm
        · exact hnew hm
        · simp at hm; exact hne hm.symm

end DSV.Marker
