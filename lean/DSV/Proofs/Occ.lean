import DSV.Model.Occ
/-! Invariants and proofs behind `DSV/Props/C01.lean` and `DSV/Props/C08.lean`. -/
namespace DSV.Occ

/-- every flip replaced exactly the version its new version was derived from: no committed update is overwritten -/
def FlipsOk (s : Sys) : Prop := ∀ fl ∈ s.flips, fl.base = fl.replaced

/-- the flips (newest first) form one chain starting at the initial version 0 -/
def Chain : List Flip → Prop
  | [] => True
  | [f] => f.replaced = 0
  | f :: g :: rest => f.replaced = g.new ∧ Chain (g :: rest)

/-- the fid the hint should name given the flips so far -/
def headFid (fl : List Flip) : Nat := match fl with | [] => 0 | f :: _ => f.new

/-- configuration of the repaired local backend: exclusive lock, unconditional flip, strictly increasing stamp -/
def LocalCfg (cfg : Cfg) : Prop := cfg.cas = false ∧ cfg.exclusive = true ∧ cfg.strictStamp = true
/-- configuration of the repaired CAS backend: conditional flip on the ETag read together with the validated version;
NOTHING is assumed about the lock (`exclusive` arbitrary) -/
def CasCfg (cfg : Cfg) : Prop := cfg.cas = true ∧ cfg.singleRead = true ∧ cfg.strictStamp = true

/-! ## inversion lemmas for `step` -/

theorem step_readBase {cfg : Cfg} {s s' : Sys} {a : Nat} (h : step cfg s a .readBase = some s') :
    ∃ b, s.pc a = .idle ∧ current s = some b ∧ s' = setPc s a (.based b) := by
  simp only [step] at h
  split at h
  · next b hp hc => exact ⟨b, hp, hc, by simpa using h.symm⟩
  · simp at h

theorem step_acquire {cfg : Cfg} {s s' : Sys} {a : Nat} (h : step cfg s a .acquire = some s') :
    ∃ b, s.pc a = .based b ∧
      ((cfg.exclusive = true ∧ s.holder = none ∧ s' = { setPc s a (.locked b) with holder := some a }) ∨
       (cfg.exclusive = false ∧ s' = setPc s a (.locked b))) := by
  simp only [step] at h
  split at h
  · next b hp =>
    refine ⟨b, hp, ?_⟩
    split at h
    · next hx =>
      split at h
      · next hh => exact Or.inl ⟨hx, hh, by simpa using h.symm⟩
      · simp at h
    · next hx => exact Or.inr ⟨by simpa using hx, by simpa using h.symm⟩
  · simp at h

theorem step_validate {cfg : Cfg} {s s' : Sys} {a : Nat} (h : step cfg s a .validate = some s') :
    ∃ b c, s.pc a = .locked b ∧ current s = some c ∧
      ((c.cur = b.cur ∧ c.lu = b.lu ∧
          s' = setPc s a (.validated b c (if cfg.cas && cfg.singleRead then some s.hint.etag else none))) ∨
       s' = setPc s a .conflict) := by
  simp only [step] at h
  split at h
  · next b c hp hc =>
    refine ⟨b, c, hp, hc, ?_⟩
    split at h
    · next hx => exact Or.inl ⟨hx.1, hx.2, by simpa using h.symm⟩
    · exact Or.inr (by simpa using h.symm)
  · simp at h

theorem step_etagRead {cfg : Cfg} {s s' : Sys} {a : Nat} (h : step cfg s a .etagRead = some s') :
    ∃ b c, s.pc a = .validated b c none ∧ (cfg.cas && !cfg.singleRead) = true ∧
      s' = setPc s a (.validated b c (some s.hint.etag)) := by
  simp only [step] at h
  split at h
  · next b c hp =>
    split at h
    · next hx => exact ⟨b, c, hp, hx, by simpa using h.symm⟩
    · simp at h
  · simp at h

def newVer (cfg : Cfg) (s : Sys) (a : Nat) (t : Nat) (b c : Ver) : Ver :=
  { fid := s.nextFid,
    cur := (match s.kind a with | .snap => s.nextCur | .metaOnly => b.cur),
    lu := if cfg.strictStamp then max t (c.lu + 1) else t,
    applied := b.applied ++ [a] }

theorem step_writeMeta {cfg : Cfg} {s s' : Sys} {a t : Nat} (h : step cfg s a (.writeMeta t) = some s') :
    ∃ b c e, s.pc a = .validated b c e ∧ ¬ (((cfg.cas && e.isNone) || decide (s.now < t)) = true) ∧
      s' = { setPc s a (.wrote b (newVer cfg s a t b c) e) with
             files := newVer cfg s a t b c :: s.files, nextFid := s.nextFid + 1, nextCur := s.nextCur + 1 } := by
  simp only [step] at h
  split at h
  · next b c e hp =>
    split at h
    · simp at h
    · next hx => exact ⟨b, c, e, hp, hx, (Option.some.inj h).symm⟩
  · simp at h

theorem step_fence {cfg : Cfg} {s s' : Sys} {a : Nat} {held : Bool} (h : step cfg s a (.fence held) = some s') :
    ∃ b n e, s.pc a = .wrote b n e ∧
      ((held = true ∧ s' = setPc s a (.fenced b n e)) ∨
       (held = false ∧ cfg.exclusive = false ∧ s' = setPc s a .conflict)) := by
  simp only [step] at h
  split at h
  · next b n e hp =>
    refine ⟨b, n, e, hp, ?_⟩
    cases held <;> cases hx : cfg.exclusive <;> simp [hx] at h <;> simp [h.symm]
  · simp at h

theorem step_flip {cfg : Cfg} {s s' : Sys} {a : Nat} (h : step cfg s a .flip = some s') :
    ∃ b n e, s.pc a = .fenced b n e ∧
      (((cfg.cas = true → e = some s.hint.etag) ∧
        s' = { setPc s a (.flipped n) with hint := ⟨n.fid, s.nextEtag⟩, nextEtag := s.nextEtag + 1,
                                           flips := ⟨a, b.fid, s.hint.fid, n.fid⟩ :: s.flips }) ∨
       (cfg.cas = true ∧ e ≠ some s.hint.etag ∧ s' = setPc s a .conflict)) := by
  simp only [step] at h
  split at h
  · next b n e hp =>
    refine ⟨b, n, e, hp, ?_⟩
    split at h
    · next hc =>
      split at h
      · next he => exact Or.inl ⟨fun _ => he, by simpa using h.symm⟩
      · next he => exact Or.inr ⟨hc, he, by simpa using h.symm⟩
    · next hc => exact Or.inl ⟨fun h' => absurd h' hc, by simpa using h.symm⟩
  · simp at h

theorem step_release {cfg : Cfg} {s s' : Sys} {a : Nat} {retry : Bool} (h : step cfg s a (.release retry) = some s') :
    ((∃ n, s.pc a = .flipped n) ∧ s' = setPc (releaseLock s a) a (.done true)) ∨
    (s.pc a = .conflict ∧ s' = setPc (releaseLock s a) a (if retry then .idle else .done false)) := by
  simp only [step] at h
  split at h
  · next n hp => exact Or.inl ⟨⟨n, hp⟩, by simpa using h.symm⟩
  · next hp => exact Or.inr ⟨hp, by simpa using h.symm⟩
  · simp at h


/-! ## field lemmas -/

@[simp] theorem setPc_files (s : Sys) (a : Nat) (p : Pc) : (setPc s a p).files = s.files := rfl
@[simp] theorem setPc_hint (s : Sys) (a : Nat) (p : Pc) : (setPc s a p).hint = s.hint := rfl
@[simp] theorem setPc_nextFid (s : Sys) (a : Nat) (p : Pc) : (setPc s a p).nextFid = s.nextFid := rfl
@[simp] theorem setPc_nextEtag (s : Sys) (a : Nat) (p : Pc) : (setPc s a p).nextEtag = s.nextEtag := rfl
@[simp] theorem setPc_holder (s : Sys) (a : Nat) (p : Pc) : (setPc s a p).holder = s.holder := rfl
@[simp] theorem setPc_flips (s : Sys) (a : Nat) (p : Pc) : (setPc s a p).flips = s.flips := rfl
@[simp] theorem setPc_pc (s : Sys) (a : Nat) (p : Pc) (x : Nat) :
    (setPc s a p).pc x = if x = a then p else s.pc x := rfl

@[simp] theorem releaseLock_files (s : Sys) (a : Nat) : (releaseLock s a).files = s.files := by
  unfold releaseLock; split <;> rfl
@[simp] theorem releaseLock_hint (s : Sys) (a : Nat) : (releaseLock s a).hint = s.hint := by
  unfold releaseLock; split <;> rfl
@[simp] theorem releaseLock_nextFid (s : Sys) (a : Nat) : (releaseLock s a).nextFid = s.nextFid := by
  unfold releaseLock; split <;> rfl
@[simp] theorem releaseLock_nextEtag (s : Sys) (a : Nat) : (releaseLock s a).nextEtag = s.nextEtag := by
  unfold releaseLock; split <;> rfl
@[simp] theorem releaseLock_flips (s : Sys) (a : Nat) : (releaseLock s a).flips = s.flips := by
  unfold releaseLock; split <;> rfl
@[simp] theorem releaseLock_pc (s : Sys) (a : Nat) : (releaseLock s a).pc = s.pc := by
  unfold releaseLock; split <;> rfl
theorem releaseLock_holder (s : Sys) (a : Nat) :
    (releaseLock s a).holder = if s.holder = some a then none else s.holder := by
  unfold releaseLock; split <;> simp [*]

/-! ## `reach_runSched`, `lost_lock_is_conflict'` -/

theorem reach_runSched (cfg : Cfg) (kind : Nat → Kind) (sched : List (Nat × Act)) :
    ∀ s s', Reach cfg kind s → runSched cfg s sched = some s' → Reach cfg kind s' := by
  induction sched with
  | nil =>
    intro s s' hr h
    simp only [runSched, Option.some.injEq] at h
    exact h ▸ hr
  | cons x rest ih =>
    intro s s' hr h
    obtain ⟨a, act⟩ := x
    simp only [runSched] at h
    split at h
    · next s1 h1 => exact ih s1 s' (Reach.step a act hr h1) h
    · simp at h

set_option linter.unusedVariables false in
theorem lost_lock_is_conflict' (cfg : Cfg) (s s' : Sys) (a : Nat) (hx : cfg.exclusive = false)
    (h : step cfg s a (.fence false) = some s') : s'.pc a = .conflict ∧ s'.flips = s.flips ∧ s'.hint = s.hint := by
  obtain ⟨b, n, e, _, h | h⟩ := step_fence h
  · simp at h
  · obtain ⟨_, _, rfl⟩ := h
    simp

/-! ## `ack_iff_flip'` -/

def Acked : Pc → Prop
  | .flipped _ => True
  | .done true => True
  | _ => False

theorem acked_iff (p : Pc) : Acked p ↔ (∃ n, p = .flipped n) ∨ p = .done true := by
  cases p with
  | done ok => cases ok <;> simp [Acked]
  | _ => simp [Acked]

def AckInv (s : Sys) : Prop :=
  (∀ x, x ∈ s.flips.map (·.actor) ↔ Acked (s.pc x)) ∧ (s.flips.map (·.actor)).Nodup

theorem AckInv.frame {s s' : Sys} {a : Nat} {p : Pc} (hi : AckInv s) (hf : s'.flips = s.flips)
    (hpc : ∀ x, s'.pc x = if x = a then p else s.pc x) (hp : Acked p ↔ Acked (s.pc a)) : AckInv s' := by
  refine ⟨fun x => ?_, by rw [hf]; exact hi.2⟩
  rw [hf, hpc, hi.1 x]
  by_cases hx : x = a
  · subst hx; simp [hp]
  · simp [hx]

theorem AckInv.step {cfg : Cfg} {s s' : Sys} {a : Nat} {act : Act} (hi : AckInv s)
    (h : step cfg s a act = some s') : AckInv s' := by
  cases act with
  | tick d =>
    simp only [DSV.Occ.step, Option.some.injEq] at h
    subst h
    exact hi
  | readBase =>
    obtain ⟨b, hp, _, rfl⟩ := step_readBase h
    exact hi.frame rfl (fun _ => rfl) (by simp [hp, Acked])
  | acquire =>
    obtain ⟨b, hp, ⟨_, _, rfl⟩ | ⟨_, rfl⟩⟩ := step_acquire h
    · exact hi.frame (a := a) (p := .locked b) rfl (fun _ => rfl) (by simp [hp, Acked])
    · exact hi.frame rfl (fun _ => rfl) (by simp [hp, Acked])
  | validate =>
    obtain ⟨b, c, hp, _, ⟨_, _, rfl⟩ | rfl⟩ := step_validate h
    · exact hi.frame rfl (fun _ => rfl) (by simp [hp, Acked])
    · exact hi.frame rfl (fun _ => rfl) (by simp [hp, Acked])
  | etagRead =>
    obtain ⟨b, c, hp, _, rfl⟩ := step_etagRead h
    exact hi.frame rfl (fun _ => rfl) (by simp [hp, Acked])
  | writeMeta t =>
    obtain ⟨b, c, e, hp, _, rfl⟩ := step_writeMeta h
    exact hi.frame (a := a) (p := .wrote b (newVer cfg s a t b c) e) rfl (fun _ => rfl) (by simp [hp, Acked])
  | fence held =>
    obtain ⟨b, n, e, hp, ⟨_, rfl⟩ | ⟨_, _, rfl⟩⟩ := step_fence h
    · exact hi.frame rfl (fun _ => rfl) (by simp [hp, Acked])
    · exact hi.frame rfl (fun _ => rfl) (by simp [hp, Acked])
  | flip =>
    obtain ⟨b, n, e, hp, ⟨_, rfl⟩ | ⟨_, _, rfl⟩⟩ := step_flip h
    · have hna : a ∉ s.flips.map (·.actor) := by
        rw [hi.1 a, hp]; simp [Acked]
      refine ⟨fun x => ?_, ?_⟩
      · by_cases hx : x = a
        · subst hx; simp [Acked]
        · simp [hx, hi.1 x]
      · simp only [List.map_cons, List.nodup_cons]
        exact ⟨hna, hi.2⟩
    · exact hi.frame rfl (fun _ => rfl) (by simp [hp, Acked])
  | release retry =>
    obtain ⟨⟨n, hp⟩, rfl⟩ | ⟨hp, rfl⟩ := step_release h
    · exact hi.frame (a := a) (p := .done true) (by simp) (fun x => by simp) (by simp [hp, Acked])
    · refine hi.frame (a := a) (p := if retry then .idle else .done false) (by simp) (fun x => by simp) ?_
      cases retry <;> simp [hp, Acked]

theorem ackInv_init (kind : Nat → Kind) : AckInv (init kind) := by
  refine ⟨fun x => ?_, ?_⟩ <;> simp [init, Acked]

theorem ack_iff_flip' (cfg : Cfg) (kind : Nat → Kind) (s : Sys) (hr : Reach cfg kind s) (a : Nat) :
    (a ∈ s.flips.map (·.actor) ↔ (∃ n, s.pc a = .flipped n) ∨ s.pc a = .done true) ∧ (s.flips.map (·.actor)).Nodup := by
  have hi : AckInv s := by
    induction hr with
    | init => exact ackInv_init kind
    | step a act _ hs ih => exact ih.step hs
  exact ⟨(hi.1 a).trans (acked_iff _), hi.2⟩

/-! ## the main invariant -/

/-- `v` is a stored file that the hint has named at some time -/
def OnChain (files : List Ver) (flips : List Flip) (v : Ver) : Prop :=
  v ∈ files ∧ (v.fid = 0 ∨ ∃ fl ∈ flips, fl.new = v.fid)

def EtagOk (nextEtag : Nat) (e : Option Nat) : Prop := ∀ e0, e = some e0 → e0 < nextEtag

/-- the flip of an actor holding ETag `e` would go through -/
def StillCur (cfg : Cfg) (hint : Hint) (e : Option Nat) : Prop := cfg.cas = true → e = some hint.etag

def InCrit : Pc → Prop
  | .locked _ => True
  | .validated _ _ _ => True
  | .wrote _ _ _ => True
  | .fenced _ _ _ => True
  | .flipped _ => True
  | .conflict => True
  | _ => False

def PcInv (cfg : Cfg) (files : List Ver) (hint : Hint) (nextEtag : Nat) (flips : List Flip) (a : Nat) : Pc → Prop
  | .based b => OnChain files flips b
  | .locked b => OnChain files flips b
  | .validated b c e => b = c ∧ OnChain files flips b ∧ EtagOk nextEtag e ∧ (StillCur cfg hint e → hint.fid = b.fid)
  | .wrote b n e => OnChain files flips b ∧ n ∈ files ∧ b.lu < n.lu ∧ n.applied = b.applied ++ [a] ∧
      EtagOk nextEtag e ∧ (StillCur cfg hint e → hint.fid = b.fid)
  | .fenced b n e => OnChain files flips b ∧ n ∈ files ∧ b.lu < n.lu ∧ n.applied = b.applied ++ [a] ∧
      EtagOk nextEtag e ∧ (StillCur cfg hint e → hint.fid = b.fid)
  | _ => True

structure Inv (cfg : Cfg) (s : Sys) : Prop where
  look : ∀ v ∈ s.files, s.files.find? (·.fid == v.fid) = some v
  fidLt : ∀ v ∈ s.files, v.fid < s.nextFid
  zeroLt : 0 < s.nextFid
  newLt : ∀ fl ∈ s.flips, fl.new < s.nextFid
  etagLt : s.hint.etag < s.nextEtag
  flipsOk : ∀ fl ∈ s.flips, fl.base = fl.replaced
  chain : Chain s.flips
  head : s.hint.fid = headFid s.flips
  cur : ∃ v, s.files.find? (·.fid == s.hint.fid) = some v ∧ v.applied = (s.flips.map (·.actor)).reverse ∧
          ∀ w, OnChain s.files s.flips w → w.lu ≤ v.lu
  inj : ∀ v w, OnChain s.files s.flips v → OnChain s.files s.flips w → v.lu = w.lu → v = w
  excl : cfg.exclusive = true → ∀ x, InCrit (s.pc x) → s.holder = some x
  pcs : ∀ x, PcInv cfg s.files s.hint s.nextEtag s.flips x (s.pc x)

theorem find_some {files : List Ver} {f : Nat} {v : Ver} (h : files.find? (·.fid == f) = some v) :
    v ∈ files ∧ v.fid = f := by
  refine ⟨List.mem_of_find?_eq_some h, ?_⟩
  have := List.find?_some h
  simpa using this

theorem OnChain.mono {files files' : List Ver} {flips flips' : List Flip} {v : Ver}
    (h : OnChain files flips v) (h1 : ∀ w ∈ files, w ∈ files') (h2 : ∀ fl ∈ flips, fl ∈ flips') :
    OnChain files' flips' v := by
  refine ⟨h1 _ h.1, ?_⟩
  rcases h.2 with h0 | ⟨fl, hm, hf⟩
  · exact Or.inl h0
  · exact Or.inr ⟨fl, h2 _ hm, hf⟩

theorem EtagOk.mono {n n' : Nat} {e : Option Nat} (h : EtagOk n e) (hn : n ≤ n') : EtagOk n' e :=
  fun e0 he => Nat.lt_of_lt_of_le (h e0 he) hn

theorem pcs_set {P : Nat → Pc → Prop} {pc : Nat → Pc} {a : Nat} {p : Pc} (h : ∀ x, P x (pc x)) (hp : P a p) :
    ∀ x, P x (if x = a then p else pc x) := by
  intro x
  by_cases hx : x = a
  · subst hx; simpa using hp
  · simpa [hx] using h x

/-- the version the hint names is on the chain -/
theorem Inv.cur_onChain {cfg : Cfg} {s : Sys} (hi : Inv cfg s) {c : Ver} (hc : current s = some c) :
    OnChain s.files s.flips c ∧ c.fid = s.hint.fid := by
  have hc' : s.files.find? (·.fid == s.hint.fid) = some c := hc
  obtain ⟨hm, hf⟩ := find_some hc'
  refine ⟨⟨hm, ?_⟩, hf⟩
  rw [hf, hi.head]
  cases hfl : s.flips with
  | nil => exact Or.inl rfl
  | cons f rest => exact Or.inr ⟨f, by simp, rfl⟩

theorem Inv.frame {cfg : Cfg} {s s' : Sys} (hi : Inv cfg s) (h1 : s'.files = s.files) (h2 : s'.hint = s.hint)
    (h3 : s'.nextFid = s.nextFid) (h4 : s'.nextEtag = s.nextEtag) (h5 : s'.flips = s.flips)
    (hx : cfg.exclusive = true → ∀ x, InCrit (s'.pc x) → s'.holder = some x)
    (hp : ∀ x, PcInv cfg s.files s.hint s.nextEtag s.flips x (s'.pc x)) : Inv cfg s' := by
  constructor
  · rw [h1]; exact hi.look
  · rw [h1, h3]; exact hi.fidLt
  · rw [h3]; exact hi.zeroLt
  · rw [h5, h3]; exact hi.newLt
  · rw [h2, h4]; exact hi.etagLt
  · rw [h5]; exact hi.flipsOk
  · rw [h5]; exact hi.chain
  · rw [h2, h5]; exact hi.head
  · rw [h1, h2, h5]; exact hi.cur
  · rw [h1, h5]; exact hi.inj
  · exact hx
  · rw [h1, h2, h4, h5]; exact hp

theorem PcInv.mono_files {cfg : Cfg} {files files' : List Ver} {hint : Hint} {ne : Nat} {flips : List Flip}
    {x : Nat} {p : Pc} (h : PcInv cfg files hint ne flips x p) (h1 : ∀ w ∈ files, w ∈ files') :
    PcInv cfg files' hint ne flips x p := by
  cases p with
  | based b => exact OnChain.mono h h1 (fun _ h => h)
  | locked b => exact OnChain.mono h h1 (fun _ h => h)
  | validated b c e =>
    obtain ⟨h1', h2, h3, h4⟩ := h
    exact ⟨h1', h2.mono h1 (fun _ h => h), h3, h4⟩
  | wrote b n e =>
    obtain ⟨h2, hn, h3⟩ := h
    exact ⟨h2.mono h1 (fun _ h => h), h1 _ hn, h3⟩
  | fenced b n e =>
    obtain ⟨h2, hn, h3⟩ := h
    exact ⟨h2.mono h1 (fun _ h => h), h1 _ hn, h3⟩
  | _ => trivial

/-- the pc invariant of a bystander survives somebody else's flip -/
theorem PcInv.flip_other {cfg : Cfg} {files : List Ver} {hint hint' : Hint} {ne : Nat} {flips : List Flip} {f : Flip}
    {x : Nat} {p : Pc} (h : PcInv cfg files hint ne flips x p) (he : hint'.etag = ne)
    (hc : cfg.cas = true ∨ ¬ InCrit p) :
    PcInv cfg files hint' (ne + 1) (f :: flips) x p := by
  have hm : ∀ fl ∈ flips, fl ∈ f :: flips := fun _ h => List.mem_cons_of_mem _ h
  have key : ∀ e, EtagOk ne e → InCrit p → ∀ b : Ver, StillCur cfg hint' e → hint'.fid = b.fid := by
    intro e hok hcrit b hs
    rcases hc with hc | hc
    · have := hok _ (hs hc)
      rw [he] at this
      exact absurd this (Nat.lt_irrefl _)
    · exact absurd hcrit hc
  cases p with
  | based b => exact OnChain.mono h (fun _ h => h) hm
  | locked b => exact OnChain.mono h (fun _ h => h) hm
  | validated b c e =>
    obtain ⟨h1, h2, h3, _⟩ := h
    exact ⟨h1, h2.mono (fun _ h => h) hm, h3.mono (Nat.le_succ _), key e h3 trivial b⟩
  | wrote b n e =>
    obtain ⟨h2, hn, hl, ha, h3, _⟩ := h
    exact ⟨h2.mono (fun _ h => h) hm, hn, hl, ha, h3.mono (Nat.le_succ _), key e h3 trivial b⟩
  | fenced b n e =>
    obtain ⟨h2, hn, hl, ha, h3, _⟩ := h
    exact ⟨h2.mono (fun _ h => h) hm, hn, hl, ha, h3.mono (Nat.le_succ _), key e h3 trivial b⟩
  | _ => trivial

theorem inv_init (cfg : Cfg) (kind : Nat → Kind) : Inv cfg (init kind) := by
  constructor
  · intro v hv; simp [init] at hv; subst hv; simp [init]
  · intro v hv; simp [init] at hv; subst hv; simp [init]
  · simp [init]
  · simp [init]
  · simp [init]
  · simp [init]
  · simp [init, Chain]
  · simp [init, headFid]
  · refine ⟨⟨0, 0, 0, []⟩, by simp [init], by simp [init], ?_⟩
    intro w hw
    have := hw.1
    simp [init] at this
    subst this
    simp
  · intro v w hv hw _
    have h1 := hv.1
    have h2 := hw.1
    simp [init] at h1 h2
    rw [h1, h2]
  · intro _ x hx
    simp [init, InCrit] at hx
  · intro x
    simp [init, PcInv]

theorem Inv.step {cfg : Cfg} (hcfg : LocalCfg cfg ∨ CasCfg cfg) {s s' : Sys} {a : Nat} {act : Act}
    (hi : Inv cfg s) (h : step cfg s a act = some s') : Inv cfg s' := by
  have hstrict : cfg.strictStamp = true := by
    rcases hcfg with h | h
    · exact h.2.2
    · exact h.2.2
  cases act with
  | tick d =>
    simp only [DSV.Occ.step, Option.some.injEq] at h
    subst h
    exact hi.frame rfl rfl rfl rfl rfl hi.excl hi.pcs
  | readBase =>
    obtain ⟨b, hp, hc, rfl⟩ := step_readBase h
    refine hi.frame rfl rfl rfl rfl rfl ?_ (pcs_set hi.pcs (hi.cur_onChain hc).1)
    intro hx x hcr
    by_cases hxa : x = a
    · subst hxa; simp [InCrit] at hcr
    · simp only [setPc_pc, if_neg hxa] at hcr
      exact hi.excl hx x hcr
  | acquire =>
    obtain ⟨b, hp, ⟨hex, hh, rfl⟩ | ⟨hex, rfl⟩⟩ := step_acquire h
    · have hb := hi.pcs a
      rw [hp] at hb
      refine hi.frame rfl rfl rfl rfl rfl ?_ (pcs_set (a := a) (p := .locked b) hi.pcs hb)
      intro hx x hcr
      by_cases hxa : x = a
      · subst hxa; rfl
      · have hcr' : InCrit (s.pc x) := by simpa [hxa] using hcr
        have := hi.excl hx x hcr'
        rw [hh] at this
        exact absurd this (by simp)
    · have hb := hi.pcs a
      rw [hp] at hb
      refine hi.frame rfl rfl rfl rfl rfl ?_ (pcs_set (a := a) (p := .locked b) hi.pcs hb)
      intro hx
      rw [hex] at hx
      exact absurd hx (by simp)
  | validate =>
    obtain ⟨b, c, hp, hc, hv⟩ := step_validate h
    have hb := hi.pcs a
    rw [hp] at hb
    have hxl : cfg.exclusive = true → ∀ p : Pc, InCrit p → ∀ x, InCrit ((setPc s a p).pc x) → s.holder = some x := by
      intro hx p _ x hcr
      by_cases hxa : x = a
      · subst hxa; exact hi.excl hx x (by rw [hp]; trivial)
      · exact hi.excl hx x (by simpa [hxa] using hcr)
    rcases hv with ⟨h1, h2, rfl⟩ | rfl
    · refine hi.frame rfl rfl rfl rfl rfl (fun hx => hxl hx _ trivial) (pcs_set hi.pcs ?_)
      obtain ⟨hoc, hcf⟩ := hi.cur_onChain hc
      have hbc : b = c := hi.inj b c hb hoc h2.symm
      refine ⟨hbc, hb, ?_, fun _ => by rw [hbc, hcf]⟩
      intro e0 he
      split at he
      · simp only [Option.some.injEq] at he
        rw [← he]; exact hi.etagLt
      · simp at he
    · exact hi.frame rfl rfl rfl rfl rfl (fun hx => hxl hx _ trivial) (pcs_set hi.pcs trivial)
  | etagRead =>
    obtain ⟨b, c, hp, hx, rfl⟩ := step_etagRead h
    rcases hcfg with h | h
    · simp [h.1] at hx
    · simp [h.2.1] at hx
  | writeMeta t =>
    obtain ⟨b, c, e, hp, _, rfl⟩ := step_writeMeta h
    have hb := hi.pcs a
    rw [hp] at hb
    obtain ⟨hbc, hob, hek, hsc⟩ := hb
    subst hbc
    have hsub : ∀ w ∈ s.files, w ∈ newVer cfg s a t b b :: s.files := fun _ h => List.mem_cons_of_mem _ h
    have hnfid : (newVer cfg s a t b b).fid = s.nextFid := rfl
    -- the new file is not on the chain
    have hback : ∀ w, OnChain (newVer cfg s a t b b :: s.files) s.flips w → OnChain s.files s.flips w := by
      intro w hw
      refine ⟨?_, hw.2⟩
      rcases List.mem_cons.mp hw.1 with hwn | hwm
      · exfalso
        rcases hw.2 with h0 | ⟨fl, hm, hf⟩
        · rw [hwn, hnfid] at h0
          exact absurd hi.zeroLt (by rw [h0]; exact Nat.lt_irrefl _)
        · rw [hwn, hnfid] at hf
          exact absurd (hi.newLt fl hm) (by rw [hf]; exact Nat.lt_irrefl _)
      · exact hwm
    have hfind : ∀ f, f < s.nextFid →
        (newVer cfg s a t b b :: s.files).find? (·.fid == f) = s.files.find? (·.fid == f) := by
      intro f hf
      rw [List.find?_cons]
      have : ((newVer cfg s a t b b).fid == f) = false := by
        rw [hnfid]; simp; exact Nat.ne_of_gt hf
      rw [this]
    constructor
    · intro v hv
      rcases List.mem_cons.mp hv with hvn | hvm
      · subst hvn
        show (newVer cfg s a t b b :: s.files).find? _ = _
        simp
      · show (newVer cfg s a t b b :: s.files).find? _ = _
        rw [hfind _ (hi.fidLt v hvm)]
        exact hi.look v hvm
    · intro v hv
      show v.fid < s.nextFid + 1
      rcases List.mem_cons.mp hv with hvn | hvm
      · rw [hvn, hnfid]; exact Nat.lt_succ_self _
      · exact Nat.lt_succ_of_lt (hi.fidLt v hvm)
    · exact Nat.succ_pos _
    · intro fl hfl
      exact Nat.lt_succ_of_lt (hi.newLt fl hfl)
    · exact hi.etagLt
    · exact hi.flipsOk
    · exact hi.chain
    · exact hi.head
    · obtain ⟨v, hv1, hv2, hv3⟩ := hi.cur
      refine ⟨v, ?_, hv2, fun w hw => hv3 w (hback w hw)⟩
      show (newVer cfg s a t b b :: s.files).find? (·.fid == s.hint.fid) = some v
      have hlt : s.hint.fid < s.nextFid := by
        rw [← (find_some hv1).2]; exact hi.fidLt v (find_some hv1).1
      rw [hfind _ hlt]
      exact hv1
    · intro v w hv hw
      exact hi.inj v w (hback v hv) (hback w hw)
    · intro hx x hcr
      show s.holder = some x
      by_cases hxa : x = a
      · subst hxa; exact hi.excl hx x (by rw [hp]; trivial)
      · exact hi.excl hx x (by simpa [hxa] using hcr)
    · refine pcs_set (fun x => (hi.pcs x).mono_files hsub) ?_
      refine ⟨hob.mono hsub (fun _ h => h), List.mem_cons_self, ?_, rfl, hek, hsc⟩
      show b.lu < (if cfg.strictStamp = true then max t (b.lu + 1) else t)
      rw [if_pos hstrict]
      exact Nat.lt_of_lt_of_le (Nat.lt_succ_self _) (Nat.le_max_right _ _)
  | fence held =>
    obtain ⟨b, n, e, hp, ⟨_, rfl⟩ | ⟨_, hex, rfl⟩⟩ := step_fence h
    · have hb := hi.pcs a
      rw [hp] at hb
      refine hi.frame rfl rfl rfl rfl rfl ?_ (pcs_set (a := a) (p := .fenced b n e) hi.pcs hb)
      intro hx x hcr
      by_cases hxa : x = a
      · subst hxa; exact hi.excl hx x (by rw [hp]; trivial)
      · exact hi.excl hx x (by simpa [hxa] using hcr)
    · refine hi.frame rfl rfl rfl rfl rfl ?_ (pcs_set hi.pcs trivial)
      intro hx
      rw [hex] at hx
      exact absurd hx (by simp)
  | flip =>
    obtain ⟨b, n, e, hp, ⟨hs, rfl⟩ | ⟨_, _, rfl⟩⟩ := step_flip h
    · have hb := hi.pcs a
      rw [hp] at hb
      obtain ⟨hob, hn, hlu, happ, hek, hsc⟩ := hb
      have hfid : s.hint.fid = b.fid := hsc hs
      obtain ⟨v, hv1, hv2, hv3⟩ := hi.cur
      have hvb : v = b := by
        have := hi.look b hob.1
        rw [← hfid, hv1] at this
        exact Option.some.inj this
      subst hvb
      have hm : ∀ fl ∈ s.flips, fl ∈ (⟨a, v.fid, s.hint.fid, n.fid⟩ : Flip) :: s.flips :=
        fun _ h => List.mem_cons_of_mem _ h
      -- a chain version of the new state is either the new head or an old chain version
      have hsplit : ∀ w, OnChain s.files ((⟨a, v.fid, s.hint.fid, n.fid⟩ : Flip) :: s.flips) w →
          w = n ∨ OnChain s.files s.flips w := by
        intro w hw
        rcases hw.2 with h0 | ⟨fl, hfl, hf⟩
        · exact Or.inr ⟨hw.1, Or.inl h0⟩
        · rcases List.mem_cons.mp hfl with hfl | hfl
          · left
            have h1 := hi.look w hw.1
            have h2 := hi.look n hn
            rw [← hf, hfl] at h1
            rw [h2] at h1
            exact (Option.some.inj h1).symm
          · exact Or.inr ⟨hw.1, Or.inr ⟨fl, hfl, hf⟩⟩
      have hholder : cfg.exclusive = true → s.holder = some a :=
        fun hx => hi.excl hx a (by rw [hp]; trivial)
      constructor
      · exact hi.look
      · exact hi.fidLt
      · exact hi.zeroLt
      · intro fl hfl
        rcases List.mem_cons.mp hfl with hfl | hfl
        · rw [hfl]; exact hi.fidLt n hn
        · exact hi.newLt fl hfl
      · exact Nat.lt_succ_self _
      · intro fl hfl
        rcases List.mem_cons.mp hfl with hfl | hfl
        · rw [hfl]; exact hfid.symm
        · exact hi.flipsOk fl hfl
      · show Chain (_ :: s.flips)
        have hh := hi.head
        have hc := hi.chain
        cases hfl : s.flips with
        | nil => rw [hfl] at hh; exact hh
        | cons g rest =>
          rw [hfl] at hh hc
          exact ⟨hh, hc⟩
      · rfl
      · refine ⟨n, hi.look n hn, ?_, ?_⟩
        · show n.applied = (List.map (·.actor) (_ :: s.flips)).reverse
          rw [happ, hv2]
          simp
        · intro w hw
          rcases hsplit w hw with hwn | hwo
          · rw [hwn]; exact Nat.le_refl _
          · exact Nat.le_of_lt (Nat.lt_of_le_of_lt (hv3 w hwo) hlu)
      · intro u w hu hw hl
        rcases hsplit u hu with hun | huo <;> rcases hsplit w hw with hwn | hwo
        · rw [hun, hwn]
        · exfalso
          have := Nat.lt_of_le_of_lt (hv3 w hwo) hlu
          rw [hun] at hl
          rw [hl] at this
          exact Nat.lt_irrefl _ this
        · exfalso
          have := Nat.lt_of_le_of_lt (hv3 u huo) hlu
          rw [hwn] at hl
          rw [hl] at this
          exact Nat.lt_irrefl _ this
        · exact hi.inj u w huo hwo hl
      · intro hx x hcr
        show s.holder = some x
        by_cases hxa : x = a
        · subst hxa; exact hholder hx
        · exact hi.excl hx x (by simpa [hxa] using hcr)
      · intro x
        show PcInv cfg s.files _ (s.nextEtag + 1) (_ :: s.flips) x (if x = a then .flipped n else s.pc x)
        by_cases hxa : x = a
        · subst hxa; simp [PcInv]
        · rw [if_neg hxa]
          refine (hi.pcs x).flip_other rfl ?_
          rcases hcfg with hl | hc
          · right
            intro hcr
            have h1 := hi.excl hl.2.1 x hcr
            rw [hholder hl.2.1] at h1
            exact hxa (Option.some.inj h1).symm
          · exact Or.inl hc.1
    · refine hi.frame rfl rfl rfl rfl rfl ?_ (pcs_set hi.pcs trivial)
      intro hx x hcr
      by_cases hxa : x = a
      · subst hxa; exact hi.excl hx x (by rw [hp]; trivial)
      · exact hi.excl hx x (by simpa [hxa] using hcr)
  | release retry =>
    have key : ∀ p : Pc, InCrit (s.pc a) → ¬ InCrit p → PcInv cfg s.files s.hint s.nextEtag s.flips a p →
        Inv cfg (setPc (releaseLock s a) a p) := by
      intro p hcr hnp hpp
      refine hi.frame (by simp) (by simp) (by simp) (by simp) (by simp) ?_ ?_
      · intro hx x hcx
        exfalso
        by_cases hxa : x = a
        · subst hxa; simp at hcx; exact hnp hcx
        · have hcx' : InCrit (s.pc x) := by simpa [hxa] using hcx
          have h1 := hi.excl hx x hcx'
          rw [hi.excl hx a hcr] at h1
          exact hxa (Option.some.inj h1).symm
      · intro x
        simp only [setPc_pc, releaseLock_pc]
        exact pcs_set (p := p) hi.pcs hpp x
    obtain ⟨⟨n, hp⟩, rfl⟩ | ⟨hp, rfl⟩ := step_release h
    · exact key _ (by rw [hp]; trivial) (by simp [InCrit]) trivial
    · exact key _ (by rw [hp]; trivial) (by cases retry <;> simp [InCrit]) (by cases retry <;> simp [PcInv])

theorem inv_reach {cfg : Cfg} {kind : Nat → Kind} (hcfg : LocalCfg cfg ∨ CasCfg cfg) {s : Sys}
    (hr : Reach cfg kind s) : Inv cfg s := by
  induction hr with
  | init => exact inv_init cfg kind
  | step a act _ hs ih => exact ih.step hcfg hs

theorem serial' (cfg : Cfg) (kind : Nat → Kind) (h : LocalCfg cfg ∨ CasCfg cfg) (s : Sys) (hr : Reach cfg kind s) :
    FlipsOk s ∧ Chain s.flips ∧ s.hint.fid = headFid s.flips := by
  have hi := inv_reach h hr
  exact ⟨hi.flipsOk, hi.chain, hi.head⟩

theorem final_is_fold' (cfg : Cfg) (kind : Nat → Kind) (h : LocalCfg cfg ∨ CasCfg cfg) (s : Sys) (hr : Reach cfg kind s) :
    ∃ v, current s = some v ∧ v.applied = (s.flips.map (·.actor)).reverse := by
  obtain ⟨v, h1, h2, _⟩ := (inv_reach h hr).cur
  exact ⟨v, h1, h2⟩

end DSV.Occ
