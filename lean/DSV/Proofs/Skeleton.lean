import DSV.Model.Skeleton
set_option linter.unusedSimpArgs false
/-!
Model-side half of the skeleton tie: the program counter of `Occ.step` admits the protocol steps in ONE order only, so a
skeleton theorem "the source performs the steps in the order acquire, validate, writeMeta, fence, flip, release" says the
source follows the only path on which the model lets a committer reach its commit point.
-/
namespace DSV.Skel
open DSV.Occ

/-- each protocol step is enabled only at the program point its predecessor leaves behind -/
theorem occ_enabled_order' (cfg : Cfg) (s s' : Sys) (a : Nat) (act : Act) (h : step cfg s a act = some s') :
    match act with
    | .acquire => ∃ b, s.pc a = .based b
    | .validate => ∃ b, s.pc a = .locked b
    | .writeMeta _ => ∃ b c e, s.pc a = .validated b c e
    | .fence _ => ∃ b n e, s.pc a = .wrote b n e
    | .flip => ∃ b n e, s.pc a = .fenced b n e
    | .release _ => (∃ n, s.pc a = .flipped n) ∨ s.pc a = .conflict
    | _ => True := by
  cases act <;> simp only [step] at h ⊢ <;> split at h <;> simp_all

/-- each protocol step leaves the program point the next one needs (or a conflict) -/
theorem occ_successor' (cfg : Cfg) (s s' : Sys) (a : Nat) (act : Act) (h : step cfg s a act = some s') :
    match act with
    | .acquire => ∃ b, s'.pc a = .locked b
    | .validate => (∃ b c e, s'.pc a = .validated b c e) ∨ s'.pc a = .conflict
    | .writeMeta _ => ∃ b n e, s'.pc a = .wrote b n e
    | .fence _ => (∃ b n e, s'.pc a = .fenced b n e) ∨ s'.pc a = .conflict
    | .flip => (∃ n, s'.pc a = .flipped n) ∨ s'.pc a = .conflict
    | _ => True := by
  cases act <;> simp only [step] at h ⊢ <;> (try trivial) <;> split at h <;> (try split at h) <;> (try split at h) <;>
    simp_all [setPc] <;> (subst h; simp [setPc])

end DSV.Skel
