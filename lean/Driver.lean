import DSV.Model.Filter
import DSV.Model.Codec
import DSV.Model.FilterParse
import DSV.Model.Backend
import DSV.Model.Hint
import DSV.Model.Meta
import DSV.Model.Gc
import DSV.Model.Occ
import DSV.Model.Lock
import DSV.Model.Create
import DSV.Model.GcRun
import DSV.Model.GcRace
import DSV.Model.Reader
import DSV.Model.CommitFault
import DSV.Model.Fs
import DSV.Model.Path
import DSV.Model.Read
import DSV.Model.Append
import DSV.Model.History
import DSV.Model.TxOps
import DSV.Model.Marker
/-!
Line-protocol driver: one request per line on stdin, one reply per line on stdout.
First token selects the model function.  Imports only `DSV.Model.*` (core Lean), so it links natively.
-/
open DSV

namespace Drv

def splitWs (s : String) : List String := (s.splitOn " ").filter (· ≠ "")

def parseInt? (s : String) : Option Int := s.toInt?

def hexVal (c : Char) : Option Nat :=
  if '0' ≤ c ∧ c ≤ '9' then some (c.toNat - '0'.toNat)
  else if 'a' ≤ c ∧ c ≤ 'f' then some (c.toNat - 'a'.toNat + 10)
  else if 'A' ≤ c ∧ c ≤ 'F' then some (c.toNat - 'A'.toNat + 10)
  else none

/-- percent-decoding to bytes ("%" alone = empty string) -/
def pctBytes : List Char → ByteArray → Option ByteArray
  | [], acc => some acc
  | '%' :: a :: b :: rest, acc =>
      match hexVal a, hexVal b with
      | some x, some y => pctBytes rest (acc.push (UInt8.ofNat (x * 16 + y)))
      | _, _ => none
  | ['%'], acc => some acc
  | c :: rest, acc => if c.toNat < 128 then pctBytes rest (acc.push (UInt8.ofNat c.toNat)) else none

def pctDecodeBytes (s : String) : Option ByteArray := pctBytes s.toList ByteArray.empty

def pctDecode (s : String) : Option String := (pctDecodeBytes s).bind String.fromUTF8?

/-! #### filters -/
open DSV.Filter in
def parseV (s : String) : Option V :=
  if s = "N" then some V.null else if s = "A" then some V.nan else (parseInt? s).map V.val

open DSV.Filter in
def parseVs (s : String) : Option (List V) :=
  if s = "-" then some [] else (s.splitOn ",").mapM parseV

open DSV.Filter in
def parseOp (s : String) : Option Op :=
  match s with
  | "eq" => some .eq | "ne" => some .ne | "lt" => some .lt | "le" => some .le
  | "gt" => some .gt | "ge" => some .ge | "in" => some .isIn | "notin" => some .notIn
  | "isnull" => some .isNull | "notnull" => some .isNotNull | _ => none

open DSV.Filter in
def showV : V → String
  | .null => "N" | .nan => "A" | .val a => toString a

open DSV.Filter in
def showTri : Tri → String
  | .t => "t" | .f => "f" | .u => "u"

open DSV.Filter in
def showBounds : Bounds → String
  | .none => "none" | .nanB => "nan" | .range lo hi => s!"{lo}..{hi}"

open DSV.Filter in
def mkExpr (op lit set : String) : Option Expr := do
  let o ← parseOp op
  let l ← parseV lit
  let s ← parseVs set
  pure { col := 0, op := o, lit := l, set := s }

open DSV.Filter in
def handleFilter (cmd : String) (args : List String) : String :=
  match cmd, args with
  | "flt.eval", [op, lit, set, xs] =>
      match mkExpr op lit set, parseVs xs with
      | some e, some vs =>
          " ".intercalate (vs.map fun x =>
            let r : Row := fun _ => x
            (if keeps (build e) r then "1" else "0") ++ showTri (evalSqlV e x))
      | _, _ => "bad-op"
  | "flt.prune", [op, lit, set, xs] =>
      match mkExpr op lit set, parseVs xs with
      | some e, some vs =>
          let b := bounds vs
          showBounds b ++ " " ++ (if mayMatch1 b e then "keep" else "skip")
      | _, _ => "bad-op"
  | "flt.push", [op, lit, set, xs] =>
      match mkExpr op lit set, parseVs xs with
      | some e, some vs =>
          let f : File := vs.map fun x => fun _ => x
          let out := pushdownApi [e] [f]
          if out.isEmpty then "-" else ",".intercalate (out.map fun r => showV (r 0))
      | _, _ => "bad-op"
  | _, _ => "bad-op"

open DSV.Filter DSV.FilterParse in
def parsePyVal (s : String) : Option PyVal :=
  if s = "O" then some .otherType
  else if s.startsWith "S:" then (parseV (s.drop 2).toString).map .scalar
  else if s.startsWith "Q:" then (parseVs (s.drop 2).toString).map .seq
  else none

open DSV.Filter DSV.FilterParse in
def parseCond (args : List String) : Option PyCond :=
  match args with
  | ["none"] => some .none
  | ["plain", v] => (parsePyVal v).map .plain
  | ["t2", "nonstr", v] => (parsePyVal v).map (.tuple2 .nonStr)
  | ["t2", "unhash", v] => (parsePyVal v).map (.tuple2 .unhashable)
  | ["t2", op, v] =>
      if op.startsWith "s=" then do
        let o ← pctDecode (op.drop 2).toString
        let pv ← parsePyVal v
        pure (.tuple2 (.str o) pv)
      else none
  | _ => none

open DSV.Filter in
def showOp : Op → String
  | .eq => "eq" | .ne => "ne" | .lt => "lt" | .le => "le" | .gt => "gt" | .ge => "ge"
  | .isIn => "in" | .notIn => "notin" | .isNull => "isnull" | .isNotNull => "notnull"

open DSV.Filter DSV.FilterParse in
def handleCompile (args : List String) : String :=
  match parseCond args with
  | none => "bad-op"
  | some c =>
    match compile 0 c with
    | none => "raise"
    | some es => "ok " ++ ";".intercalate (es.map fun e =>
        showOp e.op ++ ":" ++ showV e.lit ++ ":" ++ (if e.set.isEmpty then "-" else ",".intercalate (e.set.map showV)))

/-! #### bound codec -/
open DSV.Codec in
def parseCls (s : String) : Option Cls :=
  match s with
  | "bool" => some .bool | "int" => some .int | "float" => some .float | "datetime" => some .datetime
  | "date" => some .date | "time" => some .time | "str" => some .str | "other" => some .other | _ => none

open DSV.Codec in
def showCls : Cls → String
  | .bool => "bool" | .int => "int" | .float => "float" | .datetime => "datetime"
  | .date => "date" | .time => "time" | .str => "str" | .other => "other"

open DSV.Codec in
def handleCodec (cmd : String) (args : List String) : String :=
  match cmd, args with
  | "codec.enc", [c, p] =>
      match parseCls c with
      | some k => let e := encode ⟨k, p⟩; e.tag ++ " " ++ e.payload
      | none => "bad-op"
  | "codec.rt", [c, p] =>
      match parseCls c with
      | some k => let v := decode (encode ⟨k, p⟩); showCls v.cls ++ " " ++ v.payload
      | none => "bad-op"
  | _, _ => "bad-op"

/-! #### backend: range reader, retry, listing -/
open DSV.Backend in
def parseRngOp (t : String) : Option Op :=
  match t.splitOn ":" with
  | ["s", off, w] => do
      let o ← parseInt? off
      let wh ← match w with
        | "set" => some Whence.set | "cur" => some Whence.cur | "end" => some Whence.fromEnd | "bad" => some Whence.bad
        | _ => none
      pure (.seek o wh)
  | ["r", n] => n.toNat?.map .read
  | ["ra"] => some .readall
  | ["t"] => some .tell
  | _ => none

open DSV.Backend in
def showObs : Obs × Option (Nat × Nat) → String
  | (.err, _) => "E"
  | (.pos p, _) => s!"P{p}"
  | (.data st n np, none) => s!"D{st},{n},{np}"
  | (.data st n np, some (a, b)) => s!"D{st},{n},{np}@{a}-{b}"

open DSV.Backend in
def handleBackend (cmd : String) (args : List String) : String :=
  match cmd, args with
  | "rng.prog", size :: pos :: ops =>
      match size.toNat?, pos.toNat?, ops.mapM parseRngOp with
      | some sz, some p, some prog => " ".intercalate ((runRF ⟨sz, p⟩ prog).map showObs)
      | _, _, _ => "bad-op"
  | "retry.run", m :: as =>
      let parseA (t : String) : Option Attempt :=
        if t = "T" then some .transient else if t = "P" then some .permanent else if t = "N" then some .nonRetryable
        else if t.startsWith "S" then (t.drop 1).toString.toNat?.map .success else none
      match m.toNat?, as.mapM parseA with
      | some mx, some l =>
          match retry mx l with
          | (.ok v, n) => s!"ok {v} {n}"
          | (.raiseTransient, n) => s!"raiseT {n}"
          | (.raisePermanent, n) => s!"raiseP {n}"
          | (.raiseOther, n) => s!"raiseO {n}"
          | (.unspecified, n) => s!"unspec {n}"
      | _, _ => "bad-op"
  | _, dir :: files =>
      if cmd = "ls.raw" ∨ cmd = "ls.dir" ∨ cmd = "ls.local" then
        let parsePath (t : String) : Option Path :=
          if t = "." then some [] else (t.splitOn "/").mapM fun c => (pctDecode c).map String.toList
        match parsePath dir, files.mapM parsePath with
        | some d, some fs =>
            let out := if cmd = "ls.raw" then listS3Raw fs d else if cmd = "ls.dir" then listS3Dir fs d else listLocal fs d
            if out.isEmpty then "-" else " ".intercalate (out.map fun p => String.ofList (joinPath p))
        | _, _ => "bad-op"
      else "bad-op"
  | _, _ => "bad-op"

/-! #### version hint -/
open DSV.Hint in
def parseCp (t : String) : Option Cp :=
  if t = "x" then some .dx else if t = "w" then some .ws else if t = "o" then some .ot
  else if t.startsWith "d" then (t.drop 1).toString.toNat?.map .ad
  else if t.startsWith "u" then (t.drop 1).toString.toNat?.map .ud
  else if t.startsWith "c" then (t.drop 1).toString.toNat?.map fun n => .ch (Char.ofNat n)
  else none

open DSV.Hint in
def parseCps (s : String) : Option (Option (List Cp)) :=
  if s = "!" then some none
  else if s = "-" then some (some [])
  else ((s.splitOn ".").mapM parseCp).map some

open DSV.Hint in
def showCp : Cp → String
  | .ad d => s!"d{d}" | .ud d => s!"u{d}" | .dx => "x" | .ws => "w" | .ch c => s!"c{c.toNat}" | .ot => "o"

open DSV.Hint in
def parseEntry (t : String) : Option Entry :=
  match t.splitOn ":" with
  | [n, v, m] => do
      let name ← n.toNat?
      let ver ← if v = "-" then some none else v.toNat?.map some
      let mt ← if m = "-" then some none else m.toNat?.map some
      pure ⟨name, ver, mt⟩
  | _ => none

open DSV.Hint in
def parseListing (args : List String) : Option (Option (List Entry)) :=
  match args with
  | ["fail"] => some none
  | ["empty"] => some (some [])
  | es => (es.mapM parseEntry).map some

open DSV.Hint in
def handleHint (cmd : String) (args : List String) : String :=
  match cmd, args with
  | "hint.parse", [g, t] =>
      match parseCps t with
      | some c =>
          match parseHintWith (g = "1") c with
          | .ok (v, name) => s!"ok {v} " ++ ".".intercalate (name.map showCp)
          | .none => "none"
          | .raise => "raise"
      | none => "bad-op"
  | "hint.recover", l =>
      match parseListing l with
      | some lst => match recover lst with
          | some (v, n) => s!"some {v} {n}"
          | none => "none"
      | none => "bad-op"
  | "hint.cvi", h :: ex :: l =>
      let hint : Option (Res (Nat × Nat)) :=
        if h = "none" then some .none else if h = "raise" then some .raise
        else match h.splitOn ":" with
          | ["ok", v, n] => match v.toNat?, n.toNat? with
              | some a, some b => some (.ok (a, b))
              | _, _ => none
          | _ => none
      match hint, parseListing l with
      | some hh, some lst =>
          match currentVersionInfo hh (ex = "1") lst with
          | .ok (v, n) => s!"ok {v} {n}"
          | .none => "none"
          | .raise => "raise"
      | _, _ => "bad-op"
  | _, _ => "bad-op"

/-! #### metadata algebra -/
open DSV.Meta in
def parseP (s : String) : Option P :=
  if s = "-" then some P.none else if s = "r" then some P.root else s.toNat?.map P.id

open DSV.Meta in
def showP : P → String
  | .none => "-" | .root => "r" | .id n => toString n

def parseOptInt (s : String) : Option (Option Int) :=
  if s = "-" then some none else (parseInt? s).map some

def parseOptNat (s : String) : Option (Option Nat) :=
  if s = "-" then some none else s.toNat?.map some

open DSV.Meta in
def parseMetaOp (t : String) : Option Op :=
  match t.splitOn ":" with
  | ["add", now, id, c] => do
      let n ← now.toNat?
      let i ← id.toNat?
      let cc ← parseOptNat c
      pure (.add n i cc)
  | ["exp", c] => c.toNat?.map .expireOnly
  | ["del", i] => i.toNat?.map .del
  | ["ret", r] => (parseOptInt r).map .setRetention
  | ["pm", r] => (parseOptInt r).map .setPrevMax
  | _ => none

open DSV.Meta in
def showSnaps (l : List Snap) : String :=
  if l.isEmpty then "-" else ",".intercalate (l.map fun s => s!"{s.id}/{s.ts}/{s.seq}/{showP s.parent}")

open DSV.Meta in
def showMeta (m : Meta) : String :=
  s!"cur={showP m.cur} lastSeq={m.lastSeq} snaps={showSnaps m.snaps} log=" ++
    (if m.log.isEmpty then "-" else ",".intercalate (m.log.map fun e => s!"{e.ts}/{e.id}"))

open DSV.Meta in
def parseSnap (t : String) : Option Snap :=
  match t.splitOn "/" with
  | [i, ts, p] => do
      let id ← i.toNat?
      let tt ← ts.toNat?
      let pp ← parseP p
      pure { id := id, ts := tt, seq := 0, parent := pp, born := 0, orig := pp }
  | _ => none

open DSV.Meta in
def parseSnapList (s : String) : Option (List Snap) :=
  if s = "-" then some [] else (s.splitOn ",").mapM parseSnap

open DSV.Meta in
def handleMeta (cmd : String) (args : List String) : String :=
  match cmd, args with
  | "meta.run", ops =>
      match ops.mapM parseMetaOp with
      | some l => showMeta (run l)
      | none => "bad-op"
  | "meta.repoint", [all, kept] =>
      match parseSnapList all, (if kept = "-" then some [] else (kept.splitOn ",").mapM String.toNat?) with
      | some a, some k =>
          let keptS := a.filter fun s => k.contains s.id
          showSnaps (repoint a keptS)
      | _, _ => "bad-op"
  | "meta.bytime", [snaps, t] =>
      match parseSnapList snaps, t.toNat? with
      | some a, some tt =>
          let m : Meta := { empty with snaps := a }
          match byTime tt m with | some s => toString s.id | none => "-"
      | _, _ => "bad-op"
  | "meta.recent", [snaps, log] =>
      match parseSnapList snaps, (if log = "-" then some [] else (log.splitOn ",").mapM String.toNat?) with
      | some a, some l =>
          let m : Meta := { empty with snaps := a, log := l.map fun i => ⟨0, i, 0⟩ }
          showP (mostRecent m)
      | _, _ => "bad-op"
  | "meta.stamp", [pm, old, baseTs, f] =>
      let parseLog (s : String) : Option (List (Nat × Nat)) :=
        if s = "-" then some [] else (s.splitOn ",").mapM fun e =>
          match e.splitOn "/" with
          | [a, b] => match a.toNat?, b.toNat? with
              | some x, some y => some (x, y)
              | _, _ => none
          | _ => none
      match parseOptInt pm, parseLog old, baseTs.toNat?, f.toNat? with
      | some k, some l, some bt, some ff =>
          let new : Meta := { empty with mlog := l, prevMax := k }
          let base : Meta := { empty with lastUpdated := bt }
          let r := stamp 0 (some ff) base new
          if r.mlog.isEmpty then "-" else ",".intercalate (r.mlog.map fun e => s!"{e.1}/{e.2}")
      | _, _, _, _ => "bad-op"
  | "meta.rewrite", [es, del] =>
      let parseE (t : String) : Option Entry :=
        match t.splitOn "/" with
        | [f, st, sn, sq] => do
            let ff ← f.toNat?
            let s1 ← st.toNat?
            let a ← parseOptNat sn
            let b ← parseOptNat sq
            pure ⟨ff, s1, a, b⟩
        | _ => none
      let showO (o : Option Nat) : String := match o with | some n => toString n | none => "-"
      match (if es = "-" then some [] else (es.splitOn ",").mapM parseE),
            (if del = "-" then some [] else (del.splitOn ",").mapM String.toNat?) with
      | some l, some d =>
          match rewrite l d with
          | none => "dropped"
          | some (same, out) => (if same then "same " else "new ") ++
              (if out.isEmpty then "-" else ",".intercalate (out.map fun e => s!"{e.file}/{e.status}/{showO e.addedSnap}/{showO e.seq}"))
      | _, _ => "bad-op"
  | _, _ => "bad-op"

/-! #### garbage collector -/
def decStr (s : String) : Option (List Char) := (pctDecode s).map String.toList

def encStr (l : List Char) : String :=
  if l.isEmpty then "%" else
  String.join (l.map fun c =>
    if c.isAlphanum || c = '.' || c = '_' || c = '-' || c = '/' then c.toString
    else String.join ((c.toString.toUTF8.toList).map fun b =>
      let hex := "0123456789ABCDEF".toList
      "%" ++ (hex[(b.toNat / 16)]!).toString ++ (hex[(b.toNat % 16)]!).toString))

def decList (s : String) : Option (List (List Char)) :=
  if s = "-" then some [] else (s.splitOn ",").mapM decStr

open DSV.Gc in
def handleGc (cmd : String) (args : List String) : String :=
  match cmd, args with
  | "gc.norm", [tp, real, p] =>
      match decStr tp, decStr real, decStr p with
      | some a, some r, some b => encStr (normalize a r b)
      | _, _, _ => "bad-op"
  | "gc.ref", [loc, tp, real, p] =>
      match decStr tp, decStr real, decStr p with
      | some a, some r, some b => encStr (referenced (loc == "1") a r b)
      | _, _, _ => "bad-op"
  | "gc.normold", [tp, p] =>
      match decStr tp, decStr p with
      | some a, some b => encStr (normalizeOld a b)
      | _, _ => "bad-op"
  | "gc.prefix", [tp, real, keeps, listing] =>
      let parseL (t : String) : Option (List Char × Bool) :=
        match t.splitOn ":" with
        | [e, "o"] => (decStr e).map fun x => (x, true)
        | [e, "y"] => (decStr e).map fun x => (x, false)
        | _ => none
      match decStr tp, decStr real, decList keeps, (if listing = "-" then some [] else (listing.splitOn ",").mapM parseL) with
      | some a, some r, some ks, some ls =>
          let norm := normalize a r
          let old := fun f => (ls.find? (·.1 == f)).map (·.2) |>.getD false
          match gcPrefix norm (ks.map norm) old (ls.map (·.1)) with
          | none => "abort"
          | some d => if d.isEmpty then "-" else ",".intercalate (d.map encStr)
      | _, _, _, _ => "bad-op"
  | "gc.marker", [tp, real, base, payload] =>
      let pl : Option (Option (Option (List Char))) :=
        if payload = "U" then some none else if payload = "E" then some (some none)
        else if payload.startsWith "T:" then (decStr (payload.drop 2).toString).map fun t => some (some t) else none
      match decStr tp, decStr real, decStr base, pl with
      | some a, some r, some b, some p => encStr (markerTarget (normalize a r) b p)
      | _, _, _, _ => "bad-op"
  | _, _ => "bad-op"

/-! #### OCC protocol: trace acceptance -/
open DSV.Occ in
def parseKv (t : String) : Option (String × String) :=
  match t.splitOn "=" with
  | [k, v] => some (k, v)
  | _ => none

open DSV.Occ in
structure TraceSt where
  sys : Sys
  idx : Nat

open DSV.Occ in
/-- one observed step `a:act[:args]`; returns the new system or an error text -/
def occStep (cfg : Cfg) (s : Sys) (tok : String) : Except String Sys :=
  match tok.splitOn ":" with
  | ["tick", d] => match d.toNat? with
      | some n => match step cfg s 0 (.tick n) with | some s' => .ok s' | none => .error "reject tick"
      | none => .error "bad tick"
  | a :: act :: args =>
      match a.toNat? with
      | none => .error "bad actor"
      | some ai =>
        let run (ac : Act) : Except String Sys :=
          match step cfg s ai ac with
          | some s' => .ok s'
          | none => .error s!"reject {act} (not enabled for actor {ai})"
        match act, args with
        | "readBase", [fid] =>
            match current s with
            | some c => if some c.fid = fid.toNat? then run .readBase else .error s!"mismatch readBase model={c.fid} impl={fid}"
            | none => .error "model has no current version"
        | "acquire", [] => run .acquire
        | "validate", [fid, outcome] =>
            match current s with
            | some c =>
                if some c.fid ≠ fid.toNat? then .error s!"mismatch validate-read model={c.fid} impl={fid}"
                else match run .validate with
                  | .ok s' =>
                      let isConf : Bool := match s'.pc ai with | .conflict => true | _ => false
                      if isConf == (outcome == "conf") then .ok s'
                      else .error s!"mismatch validate-outcome model={if isConf then "conf" else "ok"} impl={outcome}"
                  | .error e => .error e
            | none => .error "model has no current version"
        | "etag", [] => run .etagRead
        | "write", [fid, lu, cur, t] =>
            match run (.writeMeta (t.toNat?.getD 0)) with
            | .ok s' =>
                match s'.pc ai with
                | .wrote b n _ =>
                    if some n.fid ≠ fid.toNat? then .error s!"mismatch write-fid model={n.fid} impl={fid}"
                    else if some n.lu ≠ lu.toNat? then .error s!"mismatch write-lu model={n.lu} impl={lu}"
                    else if (cur == "same") != (n.cur == b.cur) then .error s!"mismatch write-cur model-same={n.cur == b.cur} impl={cur}"
                    else .ok s'
                | _ => .error "model not in wrote"
            | .error e => .error e
        | "fence", [h] => run (.fence (h = "1"))
        | "flip", [outcome] =>
            match run .flip with
            | .ok s' =>
                let isConf : Bool := match s'.pc ai with | .conflict => true | _ => false
                if isConf == (outcome == "conf") then .ok s'
                else .error s!"mismatch flip-outcome model={if isConf then "conf" else "ok"} impl={outcome}"
            | .error e => .error e
        | "release", [r] => run (.release (r = "retry"))
        | _, _ => .error s!"bad step {tok}"
  | _ => .error s!"bad step {tok}"

open DSV.Occ in
def handleOcc (args : List String) : String :=
  -- occ.trace cas=0 excl=1 strict=0 single=0 kinds=1:m,2:s now=5000 | steps…
  let (hdr, rest) := args.span (· ≠ "|")
  let steps := rest.drop 1
  let kv := hdr.filterMap parseKv
  let get (k : String) : String := (kv.find? (·.1 == k)).map (·.2) |>.getD ""
  let cfg : Cfg := { cas := get "cas" = "1", exclusive := get "excl" = "1", strictStamp := get "strict" = "1", singleRead := get "single" = "1" }
  let kinds : List (Nat × Kind) := ((get "kinds").splitOn ",").filterMap fun t =>
    match t.splitOn ":" with
    | [a, k] => a.toNat?.map fun n => (n, if k = "m" then Kind.metaOnly else Kind.snap)
    | _ => none
  let kindF : Nat → Kind := fun a => (kinds.find? (·.1 == a)).map (·.2) |>.getD Kind.snap
  let s0 := init kindF
  let s0 := { s0 with now := (get "now").toNat?.getD 0,
                      files := [{ fid := 0, cur := 0, lu := (get "lu0").toNat?.getD 0, applied := [] }] }
  let rec go (s : Sys) (i : Nat) : List String → String
    | [] =>
        let fl := s.flips.reverse.map fun f => s!"{f.actor}:{f.base}>{f.replaced}>{f.new}"
        let ok := s.flips.all fun f => f.base == f.replaced
        s!"ok hint={s.hint.fid} flips={",".intercalate fl} serial={ok}"
    | t :: ts => match occStep cfg s t with
        | .ok s' => go s' (i + 1) ts
        | .error e => s!"fail step {i} {t}: {e}"
  go s0 0 steps

/-! #### locks -/
open DSV.Lock in
def parseFAct (t : String) : Option (Nat × FAct) :=
  match t.splitOn ":" with
  | ["tick", d] => d.toNat?.map fun n => (0, FAct.tick n)
  | [a, "begin", t] => match a.toNat?, t.toNat? with
      | some x, some y => some (x, .begin y)
      | _, _ => none
  | [a, "attempt"] => a.toNat?.map fun x => (x, .attempt)
  | [a, "release"] => a.toNat?.map fun x => (x, .release)
  | [a, "die"] => a.toNat?.map fun x => (x, .die)
  | _ => none

open DSV.Lock in
def showF (s : FSys) (actors : List Nat) : String :=
  ",".intercalate (actors.map fun a =>
    let f := s.inst a
    s!"{a}={if f.locked then "L" else "-"}{if f.timedOut then "T" else "-"}{if f.deadline.isSome then "W" else "-"}")

open DSV.Lock in
def handleFrun (args : List String) : String :=
  match args.mapM parseFAct with
  | none => "bad-op"
  | some acts =>
    let actors := ((acts.map (·.1)).eraseDups.filter (· ≠ 0)).mergeSort (· ≤ ·)
    let rec go (s : FSys) (out : List String) : List (Nat × FAct) → String
      | [] => ";".intercalate out.reverse
      | (a, act) :: rest => match fstep s a act with
          | some s' => go s' (showF s' actors :: out) rest
          | none => ";".intercalate (("reject" :: out).reverse)
    go finit [] acts

open DSV.Lock in
def parseSAct (t : String) : Option (Nat × SAct) :=
  match t.splitOn ":" with
  | ["tick", d] => d.toNat?.map fun n => (0, SAct.tick n)
  | [a, act] => do
      let x ← a.toNat?
      let ac ← match act with
        | "create" => some SAct.create | "head" => some .head | "takeover" => some .takeover | "renew" => some .renew
        | "isHeld" => some .isHeld | "relGet" => some .relGet | "relDelete" => some .relDelete | _ => none
      pure (x, ac)
  | _ => none

open DSV.Lock in
def showS (s : SSys) (actors : List Nat) : String :=
  (match s.obj with | some o => s!"o{o.owner}" | none => "o-") ++ "|" ++
  ",".intercalate (actors.map fun a => s!"{a}={if (s.cl a).isLocked then "L" else "-"}")

open DSV.Lock in
def handleSrun (args : List String) : String :=
  match args with
  | lease :: cd :: steps =>
    match lease.toNat?, steps.mapM parseSAct with
    | some l, some acts =>
      let actors := ((acts.map (·.1)).eraseDups.filter (· ≠ 0)).mergeSort (· ≤ ·)
      let rec go (s : SSys) (out : List String) : List (Nat × SAct) → String
        | [] => ";".intercalate out.reverse
        | (a, act) :: rest => match sstep s a act with
            | some s' => go s' (showS s' actors :: out) rest
            | none => ";".intercalate (("reject" :: out).reverse)
      go (sinit l (cd = "1")) [] acts
    | _, _ => "bad-op"
  | _ => "bad-op"

/-! #### table creation race: trace acceptance -/
open DSV.Create in
def createStep (cfg : Cfg) (s : Sys) (tok : String) : Except String Sys :=
  match tok.splitOn ":" with
  | a :: act :: args =>
      match a.toNat? with
      | none => .error "bad actor"
      | some ai =>
        let run (ac : Act) : Except String Sys :=
          match step cfg s ai ac with
          | some s' => .ok s'
          | none => .error s!"reject {act} (not enabled for actor {ai})"
        match act, args with
        | "open", [seen] =>
            let m := (resolve s).map (·.uuid)
            let impl : Option Nat := if seen = "-" then none else seen.toNat?
            if m ≠ impl then .error s!"mismatch open model={repr m} impl={seen}" else run .open_
        | "acquire", [] => run .acquire
        | "check", [r] =>
            let m := (resolve s).isSome
            if m ≠ (r == "some") then .error s!"mismatch check model-some={m} impl={r}" else run .check
        | "write", [] => run .writeV0
        | "flip", [r] =>
            match run .flip with
            | .ok s' =>
                let conf : Bool := match s'.pc ai with | .lost _ => true | _ => false
                if conf == (r == "conf") then .ok s' else .error s!"mismatch flip model-conf={conf} impl={r}"
            | .error e => .error e
        | "release", [] => run .release
        | _, _ => .error s!"bad step {tok}"
  | _ => .error s!"bad step {tok}"

open DSV.Create in
def handleCreate (args : List String) : String :=
  let (hdr, rest) := args.span (· ≠ "|")
  let steps := rest.drop 1
  let kv := hdr.filterMap parseKv
  let get (k : String) : String := (kv.find? (·.1 == k)).map (·.2) |>.getD ""
  let cfg : Cfg := { cas := get "cas" = "1", exclusive := get "excl" = "1" }
  let files : List MFile := if get "files" = "-" then [] else ((get "files").splitOn ",").filterMap fun t =>
    match t.splitOn "/" with
    | [f, u, v] => match f.toNat?, u.toNat?, v.toNat? with
        | some a, some b, some c => some ⟨a, b, c⟩
        | _, _, _ => none
    | _ => none
  let hint : Option Nat := (get "hint").toNat?
  let creators : List Nat := ((get "creators").splitOn ",").filterMap String.toNat?
  let s0 := init files hint (fun a => creators.contains a)
  let rec go (s : Sys) (i : Nat) : List String → String
    | [] =>
        let res := match resolve s with | some m => toString m.uuid | none => "-"
        s!"ok table={res} inits={",".intercalate (s.inits.reverse.map toString)} files={s.files.length}"
    | t :: ts => match createStep cfg s t with
        | .ok s' => go s' (i + 1) ts
        | .error e => s!"fail step {i} {t}: {e}"
  go s0 0 steps

/-! #### collector run -/
open DSV.GcRun in
def parseKey (t : String) : Option FileKey :=
  if t.startsWith "d" then (t.drop 1).toString.toNat?.map fun n => (true, n)
  else if t.startsWith "m" then (t.drop 1).toString.toNat?.map fun n => (false, n)
  else none

open DSV.GcRun in
def showKey (k : FileKey) : String := (if k.1 then "d" else "m") ++ toString k.2

def parseB (t : String) : Option Bool := if t = "1" then some true else if t = "0" then some false else none

open DSV.GcRun in
def parseMarker (t : String) : Option Marker :=
  match t.splitOn "/" with
  | [n, tg, st, p, d] => do
      let name ← n.toNat?
      let target ← parseKey tg
      let stat ← if st = "x" then some none else (parseB st).map some
      let pay ← parseB p
      let del ← parseB d
      pure ⟨name, target, stat, pay, del⟩
  | _ => none

open DSV.GcRun in
def parseListed (t : String) : Option Listed :=
  match t.splitOn "/" with
  | [k, e, st, o, d] => do
      let key ← parseKey k
      let esc ← parseB e
      let s1 ← parseB st
      let old ← parseB o
      let del ← parseB d
      pure ⟨key, esc, s1, old, del⟩
  | _ => none

def parseOptList {α : Type} (f : String → Option α) (t : String) : Option (Option (List α)) :=
  if t = "fail" then some none else if t = "-" then some (some []) else ((t.splitOn ",").mapM f).map some

open DSV.GcRun in
def handleGcRun (args : List String) : String :=
  let kv := args.filterMap parseKv
  let get (k : String) : String := (kv.find? (·.1 == k)).map (·.2) |>.getD ""
  let fl := get "flags"
  let flags : Flags := match fl.toList with
    | [a, b, c, d] => ⟨a = '1', b = '1', c = '1', d = '1'⟩
    | _ => fixed
  match parseOptList parseB (get "reads"), parseOptList parseKey (get "reach"), parseOptList parseMarker (get "markers"),
        parseOptList parseListed (get "data"), parseOptList parseListed (get "man") with
  | some (some reads), some (some reach), some markers, some dl, some ml =>
      let i : Input := { metaOk := get "meta" = "1", hintDangling := get "dangling" = "1", reachReads := reads, reachable := reach,
                         markers := markers, dataListing := dl, manListing := ml }
      match collect flags i with
      | .returned d => "returned " ++ (if d.isEmpty then "-" else ",".intercalate (d.map showKey))
      | .raised d => "raised " ++ (if d.isEmpty then "-" else ",".intercalate (d.map showKey))
  | _, _, _, _, _ => "bad-op"

/-! #### collector × transactions race -/
open DSV.GcRace in
def parseRaceAct (t : String) : Option (Nat × Act) :=
  match t.splitOn ":" with
  | [a, "marker", f, o] => match a.toNat?, f.toNat? with
      | some x, some y => some (x, .txMarker y (o = "1"))
      | _, _ => none
  | [a, "write", f] => match a.toNat?, f.toNat? with
      | some x, some y => some (x, .txWrite y)
      | _, _ => none
  | [a, "flip"] => a.toNat?.map fun x => (x, .txFlip)
  | [a, "unmark", f] => match a.toNat?, f.toNat? with
      | some x, some y => some (x, .txUnmark y)
      | _, _ => none
  | [a, "finish"] => a.toNat?.map fun x => (x, .txFinish)
  | [a, "rollback"] => a.toNat?.map fun x => (x, .txRollback)
  | [a, "readMeta"] => a.toNat?.map fun x => (x, .gcReadMeta)
  | [a, "readMarkers"] => a.toNat?.map fun x => (x, .gcReadMarkers)
  | [a, "delete", f] => match a.toNat?, f.toNat? with
      | some x, some y => some (x, .gcDelete y)
      | _, _ => none
  | [a, "gcFinish"] => a.toNat?.map fun x => (x, .gcFinish)
  | _ => none

open DSV.GcRace in
def handleRace (args : List String) : String :=
  -- gcrace.trace mf=1 init=<f/old,...|-> committed=<f,...|-> | steps
  let (hdr, rest) := args.span (· ≠ "|")
  let steps := rest.drop 1
  let kv := hdr.filterMap parseKv
  let get (k : String) : String := (kv.find? (·.1 == k)).map (·.2) |>.getD ""
  let initFiles : List (Nat × Bool) := if get "init" = "-" then [] else ((get "init").splitOn ",").filterMap fun t =>
    match t.splitOn "/" with
    | [f, o] => f.toNat?.map fun n => (n, o = "1")
    | _ => none
  let committed : List Nat := if get "committed" = "-" then [] else ((get "committed").splitOn ",").filterMap String.toNat?
  match steps.mapM parseRaceAct with
  | none => "bad-op"
  | some acts =>
    let univ := (initFiles.map (·.1) ++ acts.filterMap fun p => match p.2 with | .txMarker f _ => some f | _ => none).eraseDups
    let files : Nat → Option FileSt := fun f => (initFiles.find? (·.1 == f)).map fun p => ⟨true, false, 0, p.2, false⟩
    let rec go (s : Sys) (i : Nat) : List (Nat × Act) → String
      | [] => s!"ok committed={",".intercalate ((s.committed.mergeSort (· ≤ ·)).map toString)} deleted={",".intercalate ((s.deleted.mergeSort (· ≤ ·)).map toString)}"
      | (a, act) :: rest => match step (get "mf" = "1") univ s a act with
          | some s' => go s' (i + 1) rest
          | none => s!"fail step {i}: not enabled"
    go (init files committed) 0 acts

/-! #### reader -/
open DSV.Reader in
def handleRd (args : List String) : String :=
  match args with
  | [dr, tl, i, j] =>
      let vers : Option (List Ver) := (tl.splitOn ",").mapM fun t =>
        match t.splitOn "/" with
        | [h, n] => n.toNat?.map fun k => (⟨h = "1", List.replicate k 0⟩ : Ver)
        | _ => none
      match vers, i.toNat?, j.toNat? with
      | some vs, some a, some b =>
          match getAllDataFiles (dr = "1") vs a b with
          | some (.rows r) => toString r.length
          | some .raiseInconsistent => "raise"
          | none => "out-of-range"
      | _, _, _ => "bad-op"
  | _ => "bad-op"

/-! #### commit under faults -/
open DSV.CommitFault in
def handleCf (args : List String) : String :=
  match args with
  | [b, st, cb, pt, k, w] =>
      let bb : Option Backend := match b with | "local" => some .localFs | "s3cas" => some .s3cas | "s3nocas" => some .s3nocas | _ => none
      let ss : Option Style := match st with | "ctx" => some .ctx | "explicit" => some .explicit | _ => none
      let pp : Option Point := match pt with
        | "preAppend" => some .preAppend | "pre" => some .preCommit | "flip" => some .flip | "release" => some .release
        | "finish" => some .finish | _ => none
      let kk : Option Kind := match k with | "exc" => some .exc | "exc-after" => some .excAfter | "kbd" => some .kbd | "exit" => some .kbd | _ => none
      match bb, ss, pp, kk with
      | some b', some s', some p', some k' =>
          let r := outcome (cb = "1") b' s' p' k' (w = "1")
          let o := match r.outcome with
            | .ok => "ok" | .storageError => "raise:storage" | .interrupt => "raise:interrupt" | .ambiguous => "raise:AmbiguousCommitError"
          s!"{o} flipped={if r.flipped then 1 else 0} deleted={if r.deleted then 1 else 0}"
      | _, _, _, _ => "bad-op"
  | _ => "bad-op"

/-! #### durability judge -/
open DSV.Fs in
def parseFsEv (t : String) : Option Ev :=
  match t.splitOn ":" with
  | ["c", p, d] => match p.toNat?, d.toNat? with
      | some a, some b => some (.creat a b)
      | _, _ => none
  | ["w", p] => p.toNat?.map .write
  | ["s", p] => p.toNat?.map .fsync
  | ["r", a, b] => match a.toNat?, b.toNat? with
      | some x, some y => some (.rename x y)
      | _, _ => none
  | ["sd", d] => d.toNat?.map .fsyncDir
  | ["u", p] => p.toNat?.map .unlink
  | _ => none

open DSV.Fs in
def handleFsJudge (args : List String) : String :=
  -- fs.judge hint=9 reach=1,2 pre=3/1,4/0 (path/dir pairs that are durable before the operation) | events
  let (hdr, rest) := args.span (· ≠ "|")
  let evs := rest.drop 1
  let kv := hdr.filterMap parseKv
  let get (k : String) : String := (kv.find? (·.1 == k)).map (·.2) |>.getD ""
  let reach : List Nat := if get "reach" = "-" then [] else ((get "reach").splitOn ",").filterMap String.toNat?
  let pre : List (Nat × Nat) := if get "pre" = "-" then [] else ((get "pre").splitOn ",").filterMap fun t =>
    match t.splitOn "/" with
    | [p, d] => match p.toNat?, d.toNat? with
        | some a, some b => some (a, b)
        | _, _ => none
    | _ => none
  let dirs : List (Nat × Nat) := if get "dirs" = "-" then [] else ((get "dirs").splitOn ",").filterMap fun t =>
    match t.splitOn "/" with
    | [p, d] => match p.toNat?, d.toNat? with
        | some a, some b => some (a, b)
        | _, _ => none
    | _ => none
  let s0 : St := fun p =>
    match pre.find? (·.1 == p) with
    | some (_, d) => ⟨true, true, true, true, d⟩
    | none => absent ((dirs.find? (·.1 == p)).map (·.2) |>.getD 0)
  match (get "hint").toNat?, evs.mapM parseFsEv with
  | some h, some es =>
      match judge h reach s0 es with
      | none => "durable"
      | some i => s!"violation at event {i}"
  | _, _ => "bad-op"

/-! #### path containment -/
open DSV.Path in
def handlePath (cmd : String) (args : List String) : String :=
  match cmd, args with
  | "path.resolve", [b, p] =>
      match decStr b, decStr p with
      | some base, some path =>
          let bc := (splitSlash base).filter (· ≠ [])
          match resolveLex bc path with
          | some q => "ok " ++ encStr (joinStr q)
          | none => "raise"
      | _, _ => "bad-op"
  | "path.s3key", [b, p] =>
      match decStr b, decStr p with
      | some pref, some path => encStr (s3Key pref path)
      | _, _ => "bad-op"
  | "path.arrow", [b, p] =>
      match decStr b, decStr p with
      | some base, some path =>
          let bc := (splitSlash base).filter (· ≠ [])
          match arrowPath bc path with
          | some q => "ok " ++ encStr (joinStr q)
          | none => "raise"
      | _, _ => "bad-op"
  | _, _ => "bad-op"

/-! #### in-flight marker naming -/
def handleMarker (cmd : String) (args : List String) : String :=
  match cmd, args with
  | "marker.name", [p, d, pre] =>
      match decStr p, decStr d with
      | some path, some dig => encStr (DSV.Marker.markerNameOf (fun _ => dig) (pre == "1") path)
      | _, _ => "bad-op"
  | "marker.register", ps =>
      -- args: <path>:<digest of its table-relative form> … ; reply: the paths that get a marker of their own, in order
      let parsed := ps.mapM fun tok => match tok.splitOn ":" with
        | [p, d] => (match decStr p, decStr d with | some pp, some dd => some (pp, dd) | _, _ => none)
        | _ => none
      match parsed with
      | some pairs =>
          let dig : List Char → List Char := fun r =>
            match pairs.find? (fun pd => DSV.Marker.lstripSlash pd.1 == r) with | some pd => pd.2 | none => []
          let r := DSV.Marker.register (DSV.Marker.markerNamePrebuilt dig) [] (pairs.map (·.1))
          String.intercalate "," (r.2.map encStr)
      | none => "bad-op"
  | _, _ => "bad-op"

/-! #### read decision tree -/
open DSV.Read in
def handleReadOutcome (args : List String) : String :=
  match args with
  | [k, st, t, c] =>
      let kk : Option Kind := match k with | "meta" => some .metadata | "mlist" => some .mlist | "manifest" => some .manifest | "data" => some .data | _ => none
      let ss : Option Status := match st with
        | "ok" => some .ok | "missing" => some .missing | "unparseable" => some .unparseable | "transient" => some .transient
        | "altered" => some .altered | _ => none
      match kk, ss with
      | some k', some s' =>
          match readOutcome k' s' (t = "1") (c = "1") with
          | .same => "same" | .raise => "raise" | .different => "different"
      | _, _ => "bad-op"
  | _ => "bad-op"

/-! #### append acceptance -/
open DSV.Append in
def parseFields (s : String) : Option Schema :=
  if s = "-" then some [] else
  (s.splitOn ",").mapM fun f =>
    match f.splitOn ":" with
    | [i, n, t, r] => match i.toNat? with
        | some k => if r = "1" || r = "0" then some { id := k, name := n, ty := t, required := r = "1" } else none
        | none => none
    | _ => none

open DSV.Append in
def parseRecord (s : String) : Option Record :=
  if s = "-" then some [] else
  (s.splitOn ",").mapM fun f =>
    match f.splitOn "=" with
    | [k, c] => some (k, c)
    | _ => none

open DSV.Append in
def handleAppend (cmd : String) (args : List String) : String :=
  match cmd, args with
  | "ap.fits", [ty, cls] => if (attrs ty cls).isNone then "bad-op" else if fits ty cls then "accept" else "reject"
  | "ap.arrow", [ty, cls] => match arrow ty cls with | .exact => "exact" | .lossy => "lossy" | .reject => "reject"
  | "ap.guard", [ty, cls] => match attrs ty cls with
      | some a => if guardRefuses ty a then "refuse" else "pass"
      | none => "bad-op"
  | "ap.schema", [t, a] => match parseFields t, parseFields a with
      | some ts, some as => if acceptsArg ts as then "accept" else "reject"
      | _, _ => "bad-op"
  | "ap.schemaold", [t, a] => match parseFields t, parseFields a with
      | some ts, some as => if acceptsArgOld ts as then "accept" else "reject"
      | _, _ => "bad-op"
  | "ap.file", [t, ft] =>
      -- table schema, footer as name:arrowtype:nullable(0/1) list; arrow types percent-encoded
      let parseFooter (x : String) : Option Footer :=
        (x.splitOn ",").mapM fun c => match c.splitOn ":" with
          | [n, ty, nu] => match decStr ty with
              | some tyd => if nu = "1" || nu = "0" then some (n, String.ofList tyd, nu = "1") else none
              | none => none
          | _ => none
      match parseFields t, parseFooter ft with
      | some ts, some f => if fileAccepts ts f then "accept" else "reject"
      | _, _ => "bad-op"
  | "ap.batch", [t, a, rs] =>
      -- table schema, schema argument ("none" = omitted), records separated by ';'
      match parseFields t, (if a = "none" then some none else (parseFields a).map some), (rs.splitOn ";").mapM parseRecord with
      | some ts, some arg, some recs =>
          match append { schema := ts, files := [] } arg recs with
          | .ok t' => "accept " ++ toString (scanRows t').length
          | .error .schemaMismatch => "reject schema"
          | .error .badRecord => "reject record"
      | _, _, _ => "bad-op"
  | _, _ => "bad-op"

/-! #### histories (C09) -/
def parseNatList (s : String) (sep : String) : Option (List Nat) :=
  if s = "-" then some [] else (s.splitOn sep).mapM String.toNat?

def parseHistOp (tok : String) : Option DSV.History.Op :=
  match tok.splitOn ":" with
  | ["c", now, id, cutoff, nApp, del] =>
      match now.toNat?, id.toNat?, (if cutoff = "-" then some none else cutoff.toNat?.map some), nApp.toNat?, parseNatList del "+" with
      | some n, some i, some c, some k, some d => some (.commit n i c k d)
      | _, _, _, _, _ => none
  | ["e", c] => c.toNat?.map .expire
  | ["x", i] => i.toNat?.map .delSnap
  | ["f", nApp, del, cl] =>
      match nApp.toNat?, parseNatList del "+" with
      | some k, some d => if cl = "1" || cl = "0" then some (.failed k d (cl = "1")) else none
      | _, _ => none
  | _ => none

def joinWith (sep : String) (l : List String) : String := sep.intercalate l

open DSV.History in
def showHist (s : St) : String :=
  let showSnap (sn : DSV.Meta.Snap) : String :=
    match s.mlistOf.lookup sn.id with
    | none => s!"{sn.id}@?"
    | some l =>
      match manifestsOf s.files l with
      | none => s!"{sn.id}@l{l}[unreadable]"
      | some ms =>
        let body := joinWith "|" (ms.map fun m => s!"m{m.1}(" ++ joinWith "+" (m.2.map fun d => (if s.files.data.contains d then "" else "!") ++ toString d) ++ ")")
        s!"{sn.id}@l{l}[{body}]"
  let r := (reach s).getD ⟨[], [], []⟩
  let ud := (s.files.data.filter fun d => !r.data.contains d).length
  let um := (s.files.manifests.filter fun m => !(r.manifests.map (·.1)).contains m.1).length
  let ul := (s.files.mlists.filter fun l => !(r.mlists.map (·.1)).contains l.1).length
  let cur := match s.md.cur with | .none => "-" | .root => "r" | .id n => toString n
  s!"cur={cur} snaps={joinWith "," (s.md.snaps.map showSnap)} unref=d:{ud},m:{um},l:{ul}"

open DSV.History in
/-- `hist.run op…` — ops additionally include `g` (collection with every existing file as candidate) -/
def handleHist (args : List String) : String :=
  let rec go (s : St) : List String → Option St
    | [] => some s
    | "g" :: rest => go (collect s s.files) rest
    | t :: rest => match parseHistOp t with
        | some op => go (step s op) rest
        | none => none
  match go init args with
  | some s => showHist s
  | none => "bad-op"

def handle (line : String) : String :=
  match splitWs line with
  | [] => "bad-op"
  | cmd :: args =>
    if cmd = "flt.compile" then handleCompile args
    else if cmd.startsWith "flt." then handleFilter cmd args
    else if cmd.startsWith "codec." then handleCodec cmd args
    else if cmd.startsWith "hint." then handleHint cmd args
    else if cmd.startsWith "meta." then handleMeta cmd args
    else if cmd = "gc.run" then handleGcRun args
    else if cmd = "gcrace.trace" then handleRace args
    else if cmd = "rd.get" then handleRd args
    else if cmd = "tx.partition" then
      (let parseOp (t : String) : Option DSV.TxOps.Op :=
         match t.splitOn ":" with
         | ["a", fs] => (parseNatList fs "+").map .appendFiles
         | ["d", ps] => (parseNatList ps "+").map .deleteFiles
         | ["e", c] => c.toNat?.map .expire
         | _ => none
       match args.mapM parseOp with
       | some ops =>
           let p := DSV.TxOps.partition ops
           let sh := match DSV.TxOps.shape p with | .fileOps => "fileOps" | .metadataOnly => "metadataOnly"
           let cut := match p.cutoff with | some c => toString c | none => "-"
           s!"appends={joinWith "," (p.appends.map toString)} deletes={joinWith "," (p.deletes.map toString)} cutoff={cut} shape={sh}"
       | none => "bad-op")
    else if cmd = "cf.exit" then
      (match args with
       | [e, a] =>
           let be : Option DSV.CommitFault.BodyEnd := match e with | "normal" => some .normal | "exception" => some .exception | "interrupt" => some .interrupt | _ => none
           (match be with
            | some b => (match DSV.CommitFault.exitAction b (a = "1") with | .commit => "commit" | .rollback => "rollback" | .nothing => "nothing")
            | none => "bad-op")
       | _ => "bad-op")
    else if cmd = "cf.reuse" then
      -- cf.reuse <first end> <second end>: files 1 (first attempt) and 2 (second attempt); which are deleted by the second attempt
      (match args with
       | [e1, e2] =>
           let pe (x : String) : Option DSV.CommitFault.AttemptEnd := match x with | "committed" => some .committed | "ambiguous" => some .ambiguous | "cleanFailure" => some .cleanFailure | _ => none
           (match pe e1, pe e2 with
            | some a, some b =>
                let r1 := DSV.CommitFault.attempt true ⟨[]⟩ [1] a
                let r2 := DSV.CommitFault.attempt true r1.1 [2] b
                "deleted=" ++ joinWith "," ((r1.2 ++ r2.2).map toString)
            | _, _ => "bad-op")
       | _ => "bad-op")
    else if cmd = "cf.outcome" then handleCf args
    else if cmd = "fs.judge" then handleFsJudge args
    else if cmd.startsWith "path." then handlePath cmd args
    else if cmd.startsWith "marker." then handleMarker cmd args
    else if cmd = "rd.outcome" then handleReadOutcome args
    else if cmd.startsWith "ap." then handleAppend cmd args
    else if cmd = "hist.run" then handleHist args
    else if cmd.startsWith "gc." then handleGc cmd args
    else if cmd = "occ.trace" then handleOcc args
    else if cmd = "create.trace" then handleCreate args
    else if cmd = "lock.poll" then
      (match args.mapM String.toNat? with
       | some (t :: sleeps) => (match DSV.Lock.pollLoop t 0 sleeps with | some el => s!"timeout@{el}" | none => "none")
       | _ => "bad-op")
    else if cmd = "lock.frun" then handleFrun args
    else if cmd = "lock.srun" then handleSrun args
    else if cmd.startsWith "rng." || cmd.startsWith "retry." || cmd.startsWith "ls." then handleBackend cmd args
    else "bad-op"

partial def loop (h : IO.FS.Stream) (out : IO.FS.Stream) : IO Unit := do
  let line ← h.getLine
  if line.isEmpty then return ()
  out.putStrLn (handle line.trimAscii.toString)
  loop h out

end Drv

def main : IO Unit := do
  let stdin ← IO.getStdin
  let stdout ← IO.getStdout
  Drv.loop stdin stdout
  stdout.flush
