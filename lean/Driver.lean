import DSV.Model.Filter
import DSV.Model.Codec
/-!
Line-protocol driver: one request per line on stdin, one reply per line on stdout.
First token selects the model function.  Imports only `DSV.Model.*` (core Lean), so it links natively.
-/
open DSV

namespace Drv

def splitWs (s : String) : List String := (s.splitOn " ").filter (· ≠ "")

def parseInt? (s : String) : Option Int := s.toInt?

/-! #### filters -/
open DSV.Filter in
def parseV (s : String) : Option V :=
  if s = "N" then some V.null else if s = "A" then some V.nan else (parseInt? s).map V.val

open DSV.Filter in
def parseVs (s : String) : Option (List V) :=
  if s = "-" then some [] else (s.splitOn ",").mapM parseV

open DSV.Filter in
def parseOp (s : String) : Option Op :=
  match s with
  | "eq" => some .eq | "ne" => some .ne | "lt" => some .lt | "le" => some .le
  | "gt" => some .gt | "ge" => some .ge | "in" => some .isIn | "notin" => some .notIn
  | "isnull" => some .isNull | "notnull" => some .isNotNull | _ => none

open DSV.Filter in
def showV : V → String
  | .null => "N" | .nan => "A" | .val a => toString a

open DSV.Filter in
def showTri : Tri → String
  | .t => "t" | .f => "f" | .u => "u"

open DSV.Filter in
def showBounds : Bounds → String
  | .none => "none" | .nanB => "nan" | .range lo hi => s!"{lo}..{hi}"

open DSV.Filter in
def mkExpr (op lit set : String) : Option Expr := do
  let o ← parseOp op
  let l ← parseV lit
  let s ← parseVs set
  pure { col := 0, op := o, lit := l, set := s }

open DSV.Filter in
def handleFilter (cmd : String) (args : List String) : String :=
  match cmd, args with
  | "flt.eval", [op, lit, set, xs] =>
      match mkExpr op lit set, parseVs xs with
      | some e, some vs =>
          " ".intercalate (vs.map fun x =>
            let r : Row := fun _ => x
            (if keeps (build e) r then "1" else "0") ++ showTri (evalSqlV e x))
      | _, _ => "bad-op"
  | "flt.prune", [op, lit, set, xs] =>
      match mkExpr op lit set, parseVs xs with
      | some e, some vs =>
          let b := bounds vs
          showBounds b ++ " " ++ (if mayMatch1 b e then "keep" else "skip")
      | _, _ => "bad-op"
  | "flt.push", [op, lit, set, xs] =>
      match mkExpr op lit set, parseVs xs with
      | some e, some vs =>
          let f : File := vs.map fun x => fun _ => x
          let out := pushdownApi [e] [f]
          if out.isEmpty then "-" else ",".intercalate (out.map fun r => showV (r 0))
      | _, _ => "bad-op"
  | _, _ => "bad-op"

/-! #### bound codec -/
open DSV.Codec in
def parseCls (s : String) : Option Cls :=
  match s with
  | "bool" => some .bool | "int" => some .int | "float" => some .float | "datetime" => some .datetime
  | "date" => some .date | "time" => some .time | "str" => some .str | "other" => some .other | _ => none

open DSV.Codec in
def showCls : Cls → String
  | .bool => "bool" | .int => "int" | .float => "float" | .datetime => "datetime"
  | .date => "date" | .time => "time" | .str => "str" | .other => "other"

open DSV.Codec in
def handleCodec (cmd : String) (args : List String) : String :=
  match cmd, args with
  | "codec.enc", [c, p] =>
      match parseCls c with
      | some k => let e := encode ⟨k, p⟩; e.tag ++ " " ++ e.payload
      | none => "bad-op"
  | "codec.rt", [c, p] =>
      match parseCls c with
      | some k => let v := decode (encode ⟨k, p⟩); showCls v.cls ++ " " ++ v.payload
      | none => "bad-op"
  | _, _ => "bad-op"

def handle (line : String) : String :=
  match splitWs line with
  | [] => "bad-op"
  | cmd :: args =>
    if cmd.startsWith "flt." then handleFilter cmd args
    else if cmd.startsWith "codec." then handleCodec cmd args
    else "bad-op"

partial def loop (h : IO.FS.Stream) (out : IO.FS.Stream) : IO Unit := do
  let line ← h.getLine
  if line.isEmpty then return ()
  out.putStrLn (handle line.trimAscii.toString)
  loop h out

end Drv

def main : IO Unit := do
  let stdin ← IO.getStdin
  let stdout ← IO.getStdout
  Drv.loop stdin stdout
  stdout.flush
