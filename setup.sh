#!/bin/bash
# Offline setup after a fresh restore: regenerate tables from /repo and build the Lean project + driver.
set -e
cd "$(dirname "$0")"
export PYTHONPATH="$PWD"
/venv/bin/python -m harness.gen_tables > /dev/null
/venv/bin/python -c "from harness import gen_tables, gen_skeleton; gen_tables.regenerate(); gen_skeleton.regenerate()"
cd lean && lake build
