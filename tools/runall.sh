#!/bin/bash
# run every claimed check's quick (or $1) tier in parallel with seed $2 (default 0); print one summary line each
cd "$(dirname "$0")/.."
tier=${1:-quick}
ids=$(python3 -c "import json;print(' '.join(c['property_id'] for c in json.load(open('MANIFEST.json'))['checks']))")
mkdir -p /tmp/dsv-runall
(cd lean && lake build >/dev/null 2>&1)
for id in $ids; do
  ( VERIF_SEED=${2:-0} timeout 3600 ./check $id --tier $tier > /tmp/dsv-runall/$id.log 2>&1; echo "$id exit=$? $(grep -v KNOWN /tmp/dsv-runall/$id.log | tail -1)" ) &
  # limit parallelism
  while [ $(jobs -r | wc -l) -ge 6 ]; do sleep 0.5; done
done
wait
