#!/usr/bin/env python3
"""Generate /verif/MANIFEST.json from harness/registry.py and properties.jsonl."""
import json
import os
import sys

HERE = os.path.dirname(os.path.dirname(os.path.abspath(__file__)))
sys.path.insert(0, HERE)
from harness import registry  # noqa: E402

props = [json.loads(l) for l in open(os.path.join(HERE, "properties.jsonl")) if l.strip()]
baseline = json.load(open("/root/.vp/BASELINE.json"))["cmd"].replace("--junitxml=<file>", "").strip()

checks = []
na = []
for p in props:
    pid = p["id"]
    if pid in registry.CLAIMED:
        c = registry.CLAIMED[pid]
        checks.append({
            "property_id": pid,
            "quick_cmd": f"./check {pid} --tier quick",
            "thorough_cmd": f"./check {pid} --tier thorough",
            "evidence_file": f"/verif/evidence/{pid}.json",
            "replay_cmd_template": f"./check {pid} --replay {{path}}",
            "engine": "dsv-lean",
            "level_claimed": {"category": "proof", "text": c["text"], "design_ref": c["design_ref"]},
            "level_note": registry.COMMON_NOTE + c["note"],
            "technique": c["technique"],
        })
    else:
        na.append({"property_id": pid, "reason": registry.NOT_APPLICABLE.get(pid, registry.PENDING_REASON)
                   if hasattr(registry, "NOT_APPLICABLE") else registry.PENDING_REASON})

m = {
    "version": 1,
    "setup_cmd": "./setup.sh",
    "hooks": {
        "guard": "DATASHARD_VERIF",
        "enable": "checks export DATASHARD_VERIF=1; no source hooks are needed so far (instrumentation is attribute rebinding inside the harness process)",
        "baseline_off_cmd": baseline,
        "source_commits": [],
        "add_only": True,
    },
    "engines": [
        {"name": "dsv-lean", "path": "lean/", "serves_properties": [c["property_id"] for c in checks],
         "kind_free_text": "Lean 4 lake project DSV: executable models (DSV/Model), lemmas (DSV/Proofs), property theorems (DSV/Props), native line-protocol driver dsdriver"},
        {"name": "dsv-harness", "path": "harness/", "serves_properties": [c["property_id"] for c in checks],
         "kind_free_text": "Python correspondence harness: runs the real datashard in-process against dsdriver, property oracles, failing-input search"},
    ],
    "checks": checks,
    "notes": "One CLI: ./check CNN --tier quick|thorough. Exit 0 held / 1 VIOLATION / 2 infrastructure. known_findings.json lists recorded and fixed findings.",
    "not_applicable": na,
}
with open(os.path.join(HERE, "MANIFEST.json"), "w") as f:
    json.dump(m, f, indent=1)
print(f"claimed {len(checks)}, not claimed {len(na)}")
