#!/usr/bin/env python3
"""Parallel variant of tools/seedcheck.py for full campaigns: N workers, each with its OWN scratch copy of /verif and of /repo
(under --scratch, default /tmp/seedpar), so that /repo itself is never touched and workers cannot disturb each other's
generated tables, evidence files or replays.  Each worker: apply the seeded patch to its repo copy, run the demonstration, run
the check(s) with DSV_REPO / PYTHONPATH pointing at that copy, undo.  Results are merged into seeded/results.json of the real
/verif.  The scratch copies are removed at the end.

usage: tools/seedcheck_par.py [-j N] [--tier quick|thorough] [--scratch DIR] [name ...]
"""
import json
import os
import shutil
import subprocess
import sys
import threading
import time

ROOT = os.path.dirname(os.path.dirname(os.path.abspath(__file__)))
SEEDED = os.path.join(ROOT, "seeded")
REPO = "/repo"


def sh(cmd, **kw):
    return subprocess.run(cmd, capture_output=True, text=True, **kw)


def worker(wid, scratch, queue, tier, results, lock):
    wdir = os.path.join(scratch, f"w{wid}")
    verif, repo = os.path.join(wdir, "verif"), os.path.join(wdir, "repo")
    shutil.rmtree(wdir, ignore_errors=True)
    os.makedirs(wdir)
    shutil.copytree(ROOT, verif, symlinks=True, ignore=shutil.ignore_patterns(".git", "replays", "__pycache__"))
    sh(["git", "clone", "-q", "--no-hardlinks", REPO, repo])
    env = {**os.environ, "DSV_REPO": repo, "PYTHONPATH": os.path.join(repo, "src")}
    while True:
        with lock:
            if not queue:
                break
            name = queue.pop(0)
        d = os.path.join(SEEDED, name)
        meta = json.load(open(os.path.join(d, "meta.json")))
        props = meta.get("checks", [meta["property"]])
        ap = sh(["git", "-C", repo, "apply", os.path.join(d, "patch.diff")])
        if ap.returncode != 0:
            with lock:
                results[name] = {"error": "patch does not apply"}
                print(f"{name}: patch does not apply: {ap.stderr.strip()[:160]}", flush=True)
            continue
        try:
            entry = {"property": meta["property"], "title": meta.get("title", ""), "tier": tier, "checks": {}}
            demo = os.path.join(d, "demo.py")
            if os.path.exists(demo):
                try:
                    r = sh(["/venv/bin/python", demo], env=env, timeout=900)
                    entry["demo_exit_on_patched"] = r.returncode
                except subprocess.TimeoutExpired:
                    entry["demo_exit_on_patched"] = "timeout"
            for p in props:
                t0 = time.time()
                try:
                    pr = sh([os.path.join(verif, "check"), p, "--tier", tier], cwd=verif, env=env, timeout=3600)
                    out, rc = pr.stdout + pr.stderr, pr.returncode
                except subprocess.TimeoutExpired:
                    out, rc = "timeout", 2
                lines = [ln for ln in out.splitlines() if ln.startswith("VIOLATION") or ln.startswith("KNOWN-FINDING")]
                summary = [ln for ln in out.splitlines() if ln.startswith(p + " ")]
                viol = [ln for ln in lines if ln.startswith("VIOLATION")]
                entry["checks"][p] = {"exit": rc, "violation_lines": (viol + lines)[:5], "summary": (summary[-1] if summary and rc != 2 else out[-1500:]),
                                      "seconds": round(time.time() - t0, 1)}
                with lock:
                    print(f"{name}: check {p} {tier}: exit {rc} {'DETECTED' if rc == 1 else ('missed' if rc == 0 else 'ERROR')} "
                          f"{(viol[0] if viol else '')[:120]}", flush=True)
            with lock:
                results[name] = entry
                json.dump(results, open(os.path.join(SEEDED, "results.json"), "w"), indent=1, sort_keys=True)
        finally:
            sh(["git", "-C", repo, "checkout", "--", "."])
            sh(["git", "-C", repo, "clean", "-fdq", "src"])
    shutil.rmtree(wdir, ignore_errors=True)


def main():
    args = sys.argv[1:]
    tier, jobs, scratch, names = "quick", 6, f"/tmp/seedpar-{os.getpid()}", []
    while args:
        a = args.pop(0)
        if a == "--tier":
            tier = args.pop(0)
        elif a == "-j":
            jobs = int(args.pop(0))
        elif a == "--scratch":
            scratch = args.pop(0)
        else:
            names.append(a)
    if not names:
        names = sorted(d for d in os.listdir(SEEDED) if os.path.isfile(os.path.join(SEEDED, d, "patch.diff")))
    if sh(["git", "-C", REPO, "status", "--porcelain", "--untracked-files=no"]).stdout.strip():
        print("refusing: /repo has uncommitted changes (the copies are cloned from its HEAD)", file=sys.stderr)
        return 2
    res_path = os.path.join(SEEDED, "results.json")
    results = json.load(open(res_path)) if os.path.exists(res_path) else {}
    queue, lock = list(names), threading.Lock()
    ths = [threading.Thread(target=worker, args=(i, scratch, queue, tier, results, lock)) for i in range(min(jobs, len(names)))]
    for t in ths:
        t.start()
    for t in ths:
        t.join()
    json.dump(results, open(res_path, "w"), indent=1, sort_keys=True)
    shutil.rmtree(scratch, ignore_errors=True)
    det = [n for n in names if any(c.get("exit") == 1 for c in results.get(n, {}).get("checks", {}).values())]
    print(f"{len(det)}/{len(names)} detected; not detected: {sorted(set(names) - set(det))}")
    return 0


if __name__ == "__main__":
    sys.exit(main())
