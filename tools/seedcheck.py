#!/usr/bin/env python3
"""Run registered checks against the seeded property-breaking changes kept under /verif/seeded/<name>/.

usage: tools/seedcheck.py [--tier quick|thorough] [--all-checks] [name ...]

For each seeded change: /repo must be clean; `git -C /repo apply patch.diff`; run the demonstration (must exit 1); run the
check(s) of the property it targets (or, with --all-checks, every claimed check); undo with `git -C /repo checkout -- .`.
Writes seeded/results.json and prints one line per (change, check).  Never commits anything in /repo.
"""
import json
import os
import subprocess
import sys
import time

ROOT = os.path.dirname(os.path.dirname(os.path.abspath(__file__)))
SEEDED = os.path.join(ROOT, "seeded")
REPO = "/repo"


def sh(cmd, **kw):
    return subprocess.run(cmd, shell=isinstance(cmd, str), capture_output=True, text=True, **kw)


def clean():
    return sh(["git", "-C", REPO, "status", "--porcelain", "--untracked-files=no"]).stdout.strip() == ""


def main():
    args = sys.argv[1:]
    tier = "quick"
    all_checks = False
    names = []
    while args:
        a = args.pop(0)
        if a == "--tier":
            tier = args.pop(0)
        elif a == "--all-checks":
            all_checks = True
        else:
            names.append(a)
    if not names:
        names = sorted(d for d in os.listdir(SEEDED) if os.path.isfile(os.path.join(SEEDED, d, "patch.diff")))
    claimed = [c["property"] for c in json.load(open(os.path.join(ROOT, "MANIFEST.json")))["checks"]] if all_checks else None
    res_path = os.path.join(SEEDED, "results.json")
    results = json.load(open(res_path)) if os.path.exists(res_path) else {}
    if not clean():
        print("refusing: /repo has uncommitted changes", file=sys.stderr)
        return 2
    for name in names:
        d = os.path.join(SEEDED, name)
        meta = json.load(open(os.path.join(d, "meta.json")))
        props = claimed or meta.get("checks", [meta["property"]])
        ap = sh(["git", "-C", REPO, "apply", os.path.join(d, "patch.diff")])
        if ap.returncode != 0:
            print(f"{name}: patch does not apply: {ap.stderr.strip()[:200]}")
            results[name] = {"error": "patch does not apply"}
            continue
        try:
            entry = {"property": meta["property"], "title": meta.get("title", ""), "tier": tier, "checks": {}}
            demo = os.path.join(d, "demo.py")
            if os.path.exists(demo):
                r = sh(["/venv/bin/python", demo], env={**os.environ, "PYTHONPATH": REPO + "/src"}, timeout=600)
                entry["demo_exit_on_patched"] = r.returncode
            procs = {}
            for p in props:
                procs[p] = (time.time(), subprocess.Popen([os.path.join(ROOT, "check"), p, "--tier", tier], cwd=ROOT,
                                                           stdout=subprocess.PIPE, stderr=subprocess.STDOUT, text=True))
            for p, (t0, pr) in procs.items():
                out, _ = pr.communicate(timeout=7200)
                lines = [ln for ln in out.splitlines() if ln.startswith("VIOLATION") or ln.startswith("KNOWN-FINDING")]
                summary = [ln for ln in out.splitlines() if ln.startswith(p + " ")]
                entry["checks"][p] = {"exit": pr.returncode, "violation_lines": lines[:5], "summary": (summary[-1] if summary else out[-300:]),
                                      "seconds": round(time.time() - t0, 1)}
                print(f"{name}: check {p} {tier}: exit {pr.returncode} {'DETECTED' if pr.returncode == 1 else ('missed' if pr.returncode == 0 else 'ERROR')}"
                      f" {(lines[0] if lines else '')[:160]}")
            results[name] = entry
        finally:
            sh(["git", "-C", REPO, "checkout", "--", "."])
            sh(["git", "-C", REPO, "clean", "-fdq", "src"])
        json.dump(results, open(res_path, "w"), indent=1, sort_keys=True)
    return 0


if __name__ == "__main__":
    sys.exit(main())
