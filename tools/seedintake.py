#!/usr/bin/env python3
"""Confirm a sub-agent's candidate property-breaking change and file it under /verif/seeded/.

usage: tools/seedintake.py <dir-with-patchN.diff/demoN.py/metaN.json> [N ...]

Confirms, in a scratch worktree of /repo under /tmp (removed afterwards): the patch applies to HEAD; the demonstration exits 0
on the clean tree and 1 on the patched tree (twice each); the package imports; the patched tree passes exactly the baseline
tests (the names in /root/.vp/BASELINE.json stable_pass).  Only then copies patch.diff / demo.py / meta.json to
/verif/seeded/<property>-<k>/.
"""
import glob
import json
import os
import re
import shutil
import subprocess
import sys
import xml.etree.ElementTree as ET

ROOT = os.path.dirname(os.path.dirname(os.path.abspath(__file__)))
REPO = "/repo"
BASE = json.load(open("/root/.vp/BASELINE.json"))


def sh(cmd, **kw):
    return subprocess.run(cmd, capture_output=True, text=True, **kw)


def junit_pass(xml):
    out = set()
    for tc in ET.parse(xml).getroot().iter("testcase"):
        bad = any(ch.tag in ("failure", "error", "skipped") for ch in tc)
        if not bad:
            out.add(f"{tc.get('classname')}::{tc.get('name')}")
    return out


def confirm(src, n, wt):
    patch = os.path.join(src, f"patch{n}.diff")
    demo = os.path.join(src, f"demo{n}.py")
    meta = json.load(open(os.path.join(src, f"meta{n}.json")))
    env = {**os.environ, "PYTHONPATH": wt + "/src"}
    res = {"n": n, "title": meta.get("title")}
    # clean tree
    for i in range(2):
        r = sh(["/venv/bin/python", demo], env=env, cwd="/tmp", timeout=900)
        if r.returncode != 0:
            res["reject"] = f"demo exits {r.returncode} on the clean tree: {(r.stdout + r.stderr)[-300:]}"
            return res, meta
    ap = sh(["git", "-C", wt, "apply", patch])
    if ap.returncode != 0:
        res["reject"] = "patch does not apply: " + ap.stderr[:200]
        return res, meta
    try:
        touched = sh(["git", "-C", wt, "diff", "--name-only"]).stdout.split()
        if any(not t.startswith("src/datashard/") for t in touched):
            res["reject"] = f"touches files outside src/datashard: {touched}"
            return res, meta
        for i in range(2):
            r = sh(["/venv/bin/python", demo], env=env, cwd="/tmp", timeout=900)
            if r.returncode != 1:
                res["reject"] = f"demo exits {r.returncode} on the patched tree: {(r.stdout + r.stderr)[-300:]}"
                return res, meta
        res["demo_tail"] = r.stdout.strip().splitlines()[-3:]
        xml = f"/tmp/seedintake-{os.getpid()}.xml"
        t = sh(["/venv/bin/python", "-m", "pytest", "-q", "-p", "no:cacheprovider", "--timeout=900", "--continue-on-collection-errors",
                f"--junitxml={xml}"], env=env, cwd=wt, timeout=3600)
        passed = junit_pass(xml)
        os.remove(xml)
        missing = sorted(set(BASE["stable_pass"]) - passed)
        res["tests_passed"] = len(passed)
        if missing:
            res["reject"] = f"baseline tests no longer pass: {missing[:4]}"
            return res, meta
        res["ok"] = True
        meta["files"] = touched
        return res, meta
    finally:
        sh(["git", "-C", wt, "checkout", "--", "."])
        sh(["git", "-C", wt, "clean", "-fdq"])


def main():
    src = sys.argv[1].rstrip("/")
    ns = sys.argv[2:] or sorted(re.findall(r"patch(\d+)\.diff", " ".join(os.listdir(src))))
    wt = f"/tmp/confirm-{os.getpid()}"
    sh(["git", "-C", REPO, "worktree", "add", "--detach", wt, "HEAD"])
    try:
        for n in ns:
            if not all(os.path.exists(os.path.join(src, f"{k}{n}.{e}")) for k, e in (("patch", "diff"), ("demo", "py"), ("meta", "json"))):
                print(f"{src} #{n}: incomplete (patch/demo/meta)")
                continue
            res, meta = confirm(src, n, wt)
            if not res.get("ok"):
                print(f"{src} #{n}: REJECTED — {res.get('reject')}")
                continue
            prop = meta["property"]
            k = 1
            while os.path.exists(os.path.join(ROOT, "seeded", f"{prop}-{k}")):
                k += 1
            dst = os.path.join(ROOT, "seeded", f"{prop}-{k}")
            os.makedirs(dst)
            shutil.copy(os.path.join(src, f"patch{n}.diff"), os.path.join(dst, "patch.diff"))
            shutil.copy(os.path.join(src, f"demo{n}.py"), os.path.join(dst, "demo.py"))
            meta["confirmed"] = {"demo_clean_exit": 0, "demo_patched_exit": 1, "baseline_tests_passing": res["tests_passed"], "demo_tail": res.get("demo_tail")}
            meta["source"] = "fresh sub-agent given only the property text and a scratch worktree"
            json.dump(meta, open(os.path.join(dst, "meta.json"), "w"), indent=1)
            print(f"{src} #{n}: confirmed → seeded/{prop}-{k}: {meta.get('title')}")
    finally:
        sh(["git", "-C", REPO, "worktree", "remove", "--force", wt])
        sh(["git", "-C", REPO, "worktree", "prune"])


if __name__ == "__main__":
    main()
