"""What a per-property check module returns."""
import collections
import hashlib
import json


class Report:
    def __init__(self):
        self.corr_cases = 0            # correspondence comparisons performed (model vs implementation)
        self.divergences = []          # [{"where":..., "case":..., "model":..., "impl":...}]
        self.violations = []           # [{"signature":..., "what":..., "case":{...}}]  property fails on the implementation
        self.evaluations = 0           # executions of the implementation examined by the property oracle
        self._nontrivial = set()
        self.samples = []
        self.distribution = collections.Counter()
        self.rule = ""
        self.assumptions = []
        self.notes = []
        self.exhaustive = False
        self.extra = {}

    def nontrivial(self, key):
        self._nontrivial.add(hashlib.sha1(json.dumps(key, sort_keys=True, default=str).encode()).hexdigest())

    @property
    def distinct_nontrivial(self):
        return len(self._nontrivial)

    def sample(self, obj, limit=6):
        if len(self.samples) < limit:
            self.samples.append(obj)

    def diverge(self, where, case, model, impl):
        self.divergences.append({"where": where, "case": case, "model": model, "impl": impl})

    def violate(self, signature, what, case):
        self.violations.append({"signature": signature, "what": what, "case": case})

    def merge(self, other):
        self.corr_cases += other.corr_cases
        self.divergences += other.divergences
        self.violations += other.violations
        self.evaluations += other.evaluations
        self._nontrivial |= other._nontrivial
        for s in other.samples:
            self.sample(s)
        self.distribution.update(other.distribution)
        self.notes += other.notes
        self.extra.update(other.extra)
