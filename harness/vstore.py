"""Instrumentation of a table handle: every storage call and lock operation passes the scheduler's gate and is
logged with a canonical path class.  Pure attribute rebinding on instances — nothing in /repo changes."""
import re
import threading

META_RE = re.compile(r"^metadata/v(\d+)(?:-[0-9a-f]{8})?\.metadata\.json$")


def path_class(p):
    p = p.lstrip("/")
    if p == "metadata.version-hint.text":
        return "hint"
    if META_RE.match(p):
        return "meta"
    if p.startswith("metadata/inflight"):
        return "marker"
    if p.startswith("metadata/manifests/manifest_list_"):
        return "mlist"
    if p.startswith("metadata/manifests/"):
        return "manifest"
    if p.startswith("data/"):
        return "data"
    if p.startswith(".locks"):
        return "lock"
    if p in ("metadata", "data", "metadata/manifests"):
        return "dir"
    return "other"


STORAGE_METHODS = ["read_file", "write_file", "write_file_cas", "read_file_with_etag", "exists", "list_files", "delete_file",
                   "get_modified_time", "open_file", "get_size"]


class GatedRLock:
    """Drop-in for threading.RLock whose contention is visible to the scheduler."""

    def __init__(self, sched, name):
        self.sched, self.name = sched, name
        self.owner, self.depth = None, 0
        self.mu = threading.Lock()

    def acquire(self):
        me = threading.get_ident()
        while True:
            with self.mu:
                if self.owner in (None, me):
                    self.owner, self.depth = me, self.depth + 1
                    return True
            self.sched.gate(f"rlock.wait {self.name}")

    def release(self):
        with self.mu:
            self.depth -= 1
            if self.depth == 0:
                self.owner = None

    __enter__ = lambda self: self.acquire()

    def __exit__(self, *a):
        self.release()


def instrument_storage(storage, sched, faults=None):
    """wrap the instance's methods: gate -> (fault?) -> call -> record result"""
    for m in STORAGE_METHODS:
        if not hasattr(storage, m):
            continue
        orig = getattr(storage, m)

        def wrapper(*a, _o=orig, _m=m, **k):
            p = a[0] if a else ""
            cls = path_class(p) if isinstance(p, str) else "other"
            sched.gate(f"{_m} {cls}")
            if faults is not None:
                faults.before(sched, _m, p)
            try:
                r = _o(*a, **k)
            except BaseException as e:       # noqa: BLE001
                sched.record("storage", {"op": _m, "path": p, "cls": cls, "raise": type(e).__name__})
                raise
            if faults is not None:
                faults.after(sched, _m, p)
            sched.record("storage", {"op": _m, "path": p, "cls": cls, "args": a[1:], "result": r})
            return r
        setattr(storage, m, wrapper)


def instrument_table(table, sched, faults=None, shared_rlock=True):
    """instrument one Table handle (its storage, its metadata lock, its in-process RLocks)"""
    instrument_storage(table.storage, sched, faults)
    mm = table.metadata_manager
    lp = mm.lock_provider
    if shared_rlock:
        mm._lock = GatedRLock(sched, "mm")
    # distributed lock
    if hasattr(lp, "lock"):          # LocalLockProvider
        fl = lp.lock
        o = fl._try_acquire_once

        def try_once(_o=o):
            sched.gate("lock.try")
            r = _o()
            sched.record("lock", {"op": "try", "result": r})
            return r
        fl._try_acquire_once = try_once
        orel = fl.release

        def rel(_o=orel):
            sched.gate("lock.release")
            _o()
            sched.record("lock", {"op": "release"})
        fl.release = rel
        oheld = lp.is_held

        def held(_o=oheld):
            r = _o()
            sched.record("lock", {"op": "is_held", "result": r})
            return r
        lp.is_held = held
    else:                            # S3 lock providers: requests already pass the fake S3's hook; log the API level
        for name in ("acquire", "release", "is_held"):
            o = getattr(lp, name)

            def w(*a, _o=o, _n=name, **k):
                if _n != "is_held":
                    sched.gate(f"lock.{_n}")
                r = _o(*a, **k)
                sched.record("lock", {"op": {"acquire": "try", "release": "release", "is_held": "is_held"}[_n], "result": r if _n != "release" else None})
                return r
            setattr(lp, name, w)
        lp._start_heartbeat = lambda: None
        lp._stop_heartbeat_thread = lambda: None


class FreeLock:
    """A lock provider that grants everyone ("no exclusion at all"); is_held() answers from a script (default True)."""

    def __init__(self, sched, held_script=None):
        self.sched = sched
        self.held_script = list(held_script or [])

    def acquire(self):
        self.sched.gate("lock.try")
        self.sched.record("lock", {"op": "try", "result": True})
        return True

    def release(self):
        self.sched.gate("lock.release")
        self.sched.record("lock", {"op": "release"})

    def is_held(self):
        r = self.held_script.pop(0) if self.held_script else True
        self.sched.record("lock", {"op": "is_held", "result": r})
        return r
