"""Run the Lean model driver (`dsdriver`) on a batch of request lines."""
import os
import subprocess

from .util import LEAN_DIR

EXE = os.path.join(LEAN_DIR, ".lake", "build", "bin", "dsdriver")


class DriverError(RuntimeError):
    pass


def available():
    return os.path.exists(EXE)


def ask(lines, timeout=600):
    """Send all lines, return the list of replies (one per line)."""
    lines = list(lines)
    if not lines:
        return []
    for ln in lines:
        if "\n" in ln:
            raise DriverError(f"newline inside request: {ln!r}")
    if available():
        cmd = [EXE]
    else:  # fallback: interpreter
        cmd = ["lake", "env", "lean", "--run", "Driver.lean"]
    p = subprocess.run(cmd, input="\n".join(lines) + "\n", capture_output=True, text=True,
                       cwd=LEAN_DIR, timeout=timeout)
    if p.returncode != 0:
        raise DriverError(f"driver exited {p.returncode}: {p.stderr[-2000:]}")
    out = p.stdout.split("\n")
    if out and out[-1] == "":
        out.pop()
    if len(out) != len(lines):
        raise DriverError(f"driver returned {len(out)} replies for {len(lines)} requests")
    return out
