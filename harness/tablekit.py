"""Helpers to build and operate real DataShard tables from the harness."""
import os

DEFAULT_FIELDS = [
    {"id": 1, "name": "id", "type": "long", "required": True},
    {"id": 2, "name": "name", "type": "string", "required": False},
]


def schema(fields=None, schema_id=1):
    from datashard import Schema
    return Schema(schema_id=schema_id, fields=[dict(f) for f in (fields or DEFAULT_FIELDS)])


def create(path, fields=None):
    from datashard import create_table
    return create_table(path, schema(fields))


def load(path):
    from datashard import load_table
    return load_table(path)


def rows(n, start=0, tag="r"):
    return [{"id": start + i, "name": f"{tag}{start + i}"} for i in range(n)]


class FailOnce:
    """Wrap one method of a storage backend instance so that the next call matching `pred(args)` raises."""

    def __init__(self, storage, method, pred, exc):
        self.storage, self.method, self.pred, self.exc = storage, method, pred, exc
        self.orig = getattr(storage, method)
        self.fired = False

    def __enter__(self):
        def wrapper(*a, **k):
            if not self.fired and self.pred(*a, **k):
                self.fired = True
                raise self.exc
            return self.orig(*a, **k)
        setattr(self.storage, self.method, wrapper)
        return self

    def __exit__(self, *a):
        try:
            delattr(self.storage, self.method)
        except AttributeError:
            setattr(self.storage, self.method, self.orig)


def data_paths(table):
    return [df.file_path.lstrip("/") for df in table._get_all_data_files()]
