"""Independent metadata / manifest invariant checker (C15, used by C01/C09 too). No datashard code, no model."""
from . import reader


class Ghost:
    """what the harness itself remembers about a table's history"""

    def __init__(self):
        self.order = []            # snapshot ids in commit order
        self.orig_parent = {}      # id -> parent at commit time
        self.seq = {}              # id -> sequence number at commit
        self.file_origin = {}      # data path -> (adding snapshot id, sequence number)
        self.last_seq = 0
        self.versions = []         # metadata file names that were current, in order

    def anc(self, a, d):
        """a is a proper ancestor of d along original parents"""
        seen = set()
        x = self.orig_parent.get(d)
        while x is not None and x != -1 and x not in seen:
            if x == a:
                return True
            seen.add(x)
            x = self.orig_parent.get(x)
        return False


def observe(store, ghost, prev_max_default=100):
    """read the pointed-to metadata, update the ghost with newly committed snapshots, return list of problems"""
    store = reader.as_store(store)
    bad = []
    p = reader.pointer(store)
    if p is None:
        return ["pointer unreadable"]
    md = reader.read_metadata(store, p[1])
    snaps = md["snapshots"]
    ids = [s["snapshot_id"] for s in snaps]
    if not ghost.versions or ghost.versions[-1] != p[1]:
        ghost.versions.append(p[1])
    # newly committed snapshots (at most one per commit, but be general)
    for s in snaps:
        if s["snapshot_id"] not in ghost.orig_parent:
            ghost.order.append(s["snapshot_id"])
            ghost.orig_parent[s["snapshot_id"]] = s.get("parent_snapshot_id")
            ghost.seq[s["snapshot_id"]] = s.get("sequence_number")
    if len(set(ids)) != len(ids):
        bad.append("duplicate snapshot ids")
    cur = md["current_snapshot_id"]
    if cur not in (None, -1) and cur not in ids:
        bad.append(f"current snapshot {cur} not retained")
    if cur in (None,) and ids:
        bad.append("current snapshot unset although snapshots are retained")
    for s in snaps:
        par = s.get("parent_snapshot_id")
        if par not in (None, -1):
            if par not in ids:
                bad.append(f"snapshot {s['snapshot_id']} has a parent that is not retained")
            elif not ghost.anc(par, s["snapshot_id"]):
                bad.append(f"snapshot {s['snapshot_id']} has a parent that is not a true ancestor")
        if s.get("sequence_number") is None or s["sequence_number"] > md["last_sequence_number"]:
            bad.append(f"snapshot {s['snapshot_id']} sequence number exceeds last_sequence_number")
        if s.get("sequence_number") != ghost.seq.get(s["snapshot_id"]):
            bad.append(f"snapshot {s['snapshot_id']} changed its sequence number")
    retained_in_order = [i for i in ghost.order if i in ids]
    seqs = [ghost.seq[i] for i in retained_in_order]
    if any(a is None or b is None or a >= b for a, b in zip(seqs, seqs[1:])):
        bad.append("sequence numbers not strictly increasing in commit order")
    if md["last_sequence_number"] < ghost.last_seq:
        bad.append("last_sequence_number decreased")
    ghost.last_seq = max(ghost.last_seq, md["last_sequence_number"])
    log_ids = [e["snapshot_id"] for e in md["snapshot_log"]]
    if any(i not in ids for i in log_ids):
        bad.append("snapshot log lists a snapshot that is not retained")
    pos = [ghost.order.index(i) for i in log_ids if i in ghost.order]
    if any(a >= b for a, b in zip(pos, pos[1:])):
        bad.append("snapshot log not in commit order")
    # metadata log
    raw = md.get("properties", {}).get("write.metadata.previous-versions-max")
    try:
        mx = int(raw) if raw is not None else prev_max_default
    except (TypeError, ValueError):
        mx = prev_max_default
    mlog = md.get("metadata_log", [])
    for e in mlog:
        f = e.get("metadata-file", "")
        if store.get(f) is None:
            bad.append(f"metadata log names a missing file {f}")
        if f.rsplit("/", 1)[-1] not in ghost.versions[:-1] and f.rsplit("/", 1)[-1] != "":
            # a superseded version must have been current at some time (or predate observation)
            if ghost.versions and f.rsplit("/", 1)[-1] == ghost.versions[-1]:
                bad.append("metadata log names the current version")
    return bad, md


def observe_manifests(store, ghost, md):
    """manifest-entry invariants for the current snapshot: carried files keep their origin"""
    store = reader.as_store(store)
    bad = []
    cur = md["current_snapshot_id"]
    if cur in (None, -1):
        return bad, []
    snap = [s for s in md["snapshots"] if s["snapshot_id"] == cur]
    if not snap:
        return bad, []
    _ml, _ms, files = reader.snapshot_files(store, snap[0])
    paths = []
    for path, e, _m in files:
        paths.append(path)
        origin = (e.get("snapshot_id"), e.get("file_sequence_number") if e.get("file_sequence_number") is not None else e.get("sequence_number"))
        known = ghost.file_origin.setdefault(path, set())
        if not isinstance(known, set):
            known = ghost.file_origin[path] = {known}
        if origin in known:
            continue
        if not known:
            known.add(origin)
            if e.get("status") != 1:
                bad.append(f"first appearance of {path} is not status ADDED")
        elif e.get("status") == 1 and origin[0] == cur:
            known.add(origin)       # the same file queued AGAIN (file-level API) by the snapshot being observed: a second listing with its own origin
        else:
            bad.append(f"{path} changed origin {sorted(known, key=repr)} -> {origin} after a manifest rewrite")
    return bad, paths
