"""strace-based syscall tracer (DESIGN §2.2): runs one table operation in a child Python under
`strace -f -y` and abstracts the trace to the events of DSV/Model/Fs.lean. Sees pyarrow's C++ writes too."""
import json
import os
import re
import subprocess
import sys

_VERIF = os.path.dirname(os.path.dirname(os.path.abspath(__file__)))

CHILD = r'''
import sys, json
sys.path.insert(0, sys.argv.pop(1))
from harness import tablekit
op, path, arg = sys.argv[1], sys.argv[2], json.loads(sys.argv[3])
if op == "create":
    tablekit.create(path)
else:
    t = tablekit.load(path)
    if op == "append":
        t.append_records(tablekit.rows(arg.get("n", 2), start=arg.get("start", 500), tag="x"))
    elif op == "append2":
        with t.new_transaction() as tx:
            tx.append_data(tablekit.rows(1, start=600, tag="y"))
            tx.append_data(tablekit.rows(1, start=601, tag="z"))
            tx.commit()
    elif op == "delfiles":
        with t.new_transaction() as tx:
            tx.delete_files(["/" + arg["victim"]])
            tx.commit()
    elif op == "expire":
        with t.new_transaction() as tx:
            tx.expire_snapshots(arg["cutoff"])
            tx.commit()
    elif op == "delsnap":
        t.snapshot_manager.delete_snapshot(arg["snapshot"])
    elif op == "gc":
        t.garbage_collect(grace_period_ms=0)
    elif op == "append-prebuilt":
        # a data file built by the CALLER (plain pyarrow write: no fsync, a new partition directory) queued through the file-level API
        import os
        import pyarrow as pa
        import pyarrow.parquet as pq
        from datashard.data_structures import DataFile, FileFormat
        rel = "data/region=eu/part-0.parquet"
        os.makedirs(os.path.join(path, "data/region=eu"), exist_ok=True)
        sch = t.file_manager.data_file_manager.create_arrow_schema(tablekit.schema())
        pq.write_table(pa.Table.from_pylist(tablekit.rows(2, start=900, tag="pre"), schema=sch), os.path.join(path, rel))
        t.append_data([DataFile(file_path="/" + rel, file_format=FileFormat.PARQUET, partition_values={}, record_count=2,
                                file_size_in_bytes=os.path.getsize(os.path.join(path, rel)))])
    elif op == "append-prebuilt-requeued":
        # the same, but the first append_files of the transaction is REJECTED (the file is not there yet); the caller then writes the
        # file (plain pyarrow write) and queues it again in the SAME transaction
        import os
        import pyarrow as pa
        import pyarrow.parquet as pq
        from datashard.data_structures import DataFile, FileFormat
        rel = "data/region=us/part-0.parquet"
        sch = t.file_manager.data_file_manager.create_arrow_schema(tablekit.schema())
        df = DataFile(file_path="/" + rel, file_format=FileFormat.PARQUET, partition_values={}, record_count=2, file_size_in_bytes=1)
        tx = t.new_transaction().begin()
        try:
            tx.append_files([df])
            raise SystemExit("append_files accepted a missing file")
        except FileNotFoundError:
            pass
        os.makedirs(os.path.join(path, "data/region=us"), exist_ok=True)
        pq.write_table(pa.Table.from_pylist(tablekit.rows(2, start=950, tag="pre2"), schema=sch), os.path.join(path, rel))
        df = DataFile(file_path="/" + rel, file_format=FileFormat.PARQUET, partition_values={}, record_count=2,
                      file_size_in_bytes=os.path.getsize(os.path.join(path, rel)))
        tx.append_files([df])
        tx.commit()
    elif op == "shared-overlap":
        # two threads committing through ONE Table object: thread A is held just before it writes its manifest list (its data file and
        # manifest are written), thread B commits completely meanwhile; the trace up to the marker is judged against B's version
        import threading
        a_paused, b_done = threading.Event(), threading.Event()
        fm = t.file_manager
        orig = fm.create_manifest_list_file
        def hooked(*a, **k):
            if threading.current_thread().name == "A" and not a_paused.is_set():
                a_paused.set()
                b_done.wait(60)
            return orig(*a, **k)
        fm.create_manifest_list_file = hooked
        def run_a():
            t.append_records(tablekit.rows(1, start=700, tag="A"))
        def run_b():
            a_paused.wait(60)
            t.append_records(tablekit.rows(1, start=800, tag="B"))
            with open(path + "/metadata.version-hint.text") as f_:
                name = f_.read().strip()
            with open(path + ".BNAME", "w") as f_:
                f_.write(name)
            open(path + ".MARK", "w").close()
            b_done.set()
        ta, tb = threading.Thread(target=run_a, name="A"), threading.Thread(target=run_b, name="B")
        ta.start(); tb.start(); ta.join(); tb.join()
    elif op == "recreate":
        # the table directory is dropped and created again IN THE SAME PROCESS; only the last append (after the marker) is judged
        import shutil
        t.append_records(tablekit.rows(1, start=400, tag="life1"))
        del t
        shutil.rmtree(path)
        t = tablekit.create(path)
        t.append_records(tablekit.rows(1, start=410, tag="life2a"))
        open(path + ".MARK", "w").close()
        t.append_records(tablekit.rows(2, start=420, tag="life2b"))
'''

LINE = re.compile(r"^(\d+)\s+(\w+)\((.*)\)\s+=\s+(-?\d+)(.*)$")
UNFINISHED = re.compile(r"^(\d+)\s+(\w+)\((.*) <unfinished \.\.\.>$")
RESUMED = re.compile(r"^(\d+)\s+<\.\.\. (\w+) resumed>(.*)\)\s+=\s+(-?\d+)(.*)$")


def run_traced(op, path, arg, workdir, env_extra=None):
    out = os.path.join(workdir, f"strace-{op}.txt")
    cmd = ["strace", "-f", "-y", "-s", "0", "-e", "trace=openat,write,pwrite64,writev,fsync,fdatasync,rename,renameat,renameat2,unlink,unlinkat",
           "-o", out, sys.executable, "-c", CHILD, _VERIF, op, path, json.dumps(arg)]
    env = dict(os.environ)
    env["PYTHONPATH"] = _VERIF + (os.pathsep + env["PYTHONPATH"] if env.get("PYTHONPATH") else "")
    env.update(env_extra or {})
    p = subprocess.run(cmd, capture_output=True, text=True, env=env, timeout=300)
    if p.returncode != 0:
        raise RuntimeError(f"traced child failed: {p.stderr[-800:]}")
    with open(out) as f:
        lines = f.read().split("\n")
    os.remove(out)
    return lines


def _calls(lines):
    """yield (syscall, args string, result) for completed successful calls in completion order"""
    pending = {}
    for ln in lines:
        m = UNFINISHED.match(ln)
        if m:
            pending[m.group(1)] = (m.group(2), m.group(3))
            continue
        m = RESUMED.match(ln)
        if m and m.group(1) in pending:
            name, args = pending.pop(m.group(1))
            yield name, args + m.group(3), int(m.group(4)), m.group(5)
            continue
        m = LINE.match(ln)
        if m:
            yield m.group(2), m.group(3), int(m.group(4)), m.group(5)


FD = re.compile(r"^(\d+)<([^>]*)>")
QUOTED = re.compile(r'"((?:[^"\\]|\\.)*)"')


def abstract(lines, root):
    """→ (events as tokens, path→id, id→dir id). Only paths under `root`."""
    root = os.path.realpath(root)
    ids, dirs = {}, {}

    def pid(p):
        p = os.path.normpath(p)
        if p not in ids:
            ids[p] = len(ids) + 1
        return ids[p]

    def inside(p):
        return p.startswith(root + "/") or p == root
    evs = []
    meta = []       # parallel list: human-readable
    for name, args, res, tail in _calls(lines):
        if res < 0:
            continue
        if name == "openat":
            q = QUOTED.search(args)
            if not q:
                continue
            path = q.group(1)
            if not os.path.isabs(path):
                m = FD.match(tail.strip().lstrip("= "))
            rp = re.search(r"=\s*$", "")
            # the resolved path is printed after the result: "= 5</abs/path>"
            m = re.search(r"^(\d+)?<([^>]*)>", tail.strip()) or re.search(r"<([^>]*)>$", tail.strip())
            full = None
            mm = re.search(r"<([^>]*)>", tail)
            if mm:
                full = mm.group(1)
            if full is None:
                full = path
            if not inside(full):
                continue
            if "O_CREAT" in args and not os.path.basename(full).endswith(".lock") and "O_DIRECTORY" not in args:
                evs.append(f"c:{pid(full)}:{pid(os.path.dirname(full))}")
                meta.append(("creat", full))
        elif name in ("write", "pwrite64", "writev"):
            m = FD.match(args)
            if m and inside(m.group(2)) and not m.group(2).endswith(".lock"):
                tok = f"w:{pid(m.group(2))}"
                if not evs or evs[-1] != tok:
                    evs.append(tok)
                    meta.append(("write", m.group(2)))
        elif name in ("fsync", "fdatasync"):
            m = FD.match(args)
            if m and re.match(r"^\d+<[^>]*>\(deleted\)", args):
                # the descriptor refers to an inode that no longer has this name (a directory removed and created again): syncing it
                # persists nothing about the path
                continue
            if m and inside(m.group(2)):
                p = m.group(2)
                if os.path.isdir(p):
                    evs.append(f"sd:{pid(p)}")
                    meta.append(("fsyncdir", p))
                else:
                    evs.append(f"s:{pid(p)}")
                    meta.append(("fsync", p))
        elif name in ("rename", "renameat", "renameat2"):
            qs = QUOTED.findall(args)
            if len(qs) >= 2 and inside(qs[0]) and inside(qs[1]):
                evs.append(f"r:{pid(qs[0])}:{pid(qs[1])}")
                meta.append(("rename", qs[0], qs[1]))
        elif name in ("unlink", "unlinkat"):
            qs = QUOTED.findall(args)
            if qs and inside(qs[0]):
                evs.append(f"u:{pid(qs[0])}")
                meta.append(("unlink", qs[0]))
    return evs, ids, meta
