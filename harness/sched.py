"""Deterministic scheduler of real threads running real library calls (DESIGN §2.2, Appendix B.3).

Exactly one actor runs at a time.  Every instrumented storage / lock operation calls `gate(what)`, which parks the
calling actor until the scheduler hands it the baton.  A schedule is a list of actor names; it is the replay.
"""
import threading
import time


class Stuck(RuntimeError):
    pass


class Sched:
    def __init__(self, chooser, max_steps=4000, watchdog_s=60.0):
        self.cv = threading.Condition()
        self.tl = threading.local()
        self.chooser = chooser            # callable(sched, ready: dict actor -> what) -> actor
        self.waiting = {}                 # actor -> description of the op it is about to perform
        self.running = None               # actor holding the baton
        self.finished = {}                # actor -> ("ok", value) | ("raise", exc)
        self.threads = {}
        self.trace = []                   # (actor, what) in grant order
        self.schedule = []                # actors in grant order
        self.max_steps = max_steps
        self.watchdog_s = watchdog_s
        self.events = []                  # free-form records appended by wrappers: (actor, kind, data)
        self.abort = False

    # ---- called from actor threads
    def actor(self):
        return getattr(self.tl, "actor", None)

    def gate(self, what):
        a = self.actor()
        if a is None:
            return                        # setup / teardown code and pool workers run straight through
        with self.cv:
            if self.abort:
                raise Stuck("scheduler aborted")
            self.waiting[a] = what
            if self.running == a:
                self.running = None
            self.cv.notify_all()
            t0 = time.time()
            while self.running != a:
                if self.abort:
                    raise Stuck("scheduler aborted")
                self.cv.wait(timeout=1.0)
                if time.time() - t0 > self.watchdog_s:
                    raise Stuck(f"actor {a} starved at {what}")
            del self.waiting[a]
            self.trace.append((a, what))
            self.schedule.append(a)

    def record(self, kind, data):
        self.events.append((self.actor(), kind, data))

    # ---- driver side
    def _body(self, name, fn):
        self.tl.actor = name
        try:
            self.gate("start")
            r = ("ok", fn())
        except BaseException as e:        # noqa: BLE001 - the outcome of an actor is data
            r = ("raise", e)
        with self.cv:
            self.finished[name] = r
            if self.running == name:
                self.running = None
            self.cv.notify_all()

    def run(self, actors):
        """actors: dict name -> zero-argument callable. Returns dict name -> ('ok', value) | ('raise', exc)."""
        for name, fn in actors.items():
            t = threading.Thread(target=self._body, args=(name, fn), daemon=True)
            self.threads[name] = t
            t.start()
        steps = 0
        try:
            while True:
                with self.cv:
                    t0 = time.time()
                    while self.running is not None or (len(self.waiting) + len(self.finished) < len(actors)):
                        self.cv.wait(timeout=1.0)
                        if time.time() - t0 > self.watchdog_s:
                            raise Stuck(f"no progress: running={self.running} waiting={self.waiting}")
                    if len(self.finished) == len(actors):
                        break
                    ready = dict(self.waiting)
                    a = self.chooser(self, ready)
                    if a not in ready:
                        a = sorted(ready)[0]
                    self.running = a
                    self.cv.notify_all()
                steps += 1
                if steps > self.max_steps:
                    raise Stuck(f"more than {self.max_steps} steps")
        except Stuck:
            with self.cv:
                self.abort = True
                self.cv.notify_all()
            raise
        for t in self.threads.values():
            t.join(timeout=5)
        return dict(self.finished)


def replay_chooser(schedule, fallback=None):
    """follow a recorded schedule, then fall back (round-robin by default)"""
    it = iter(schedule)

    def choose(s, ready):
        for a in it:
            if a in ready:
                return a
        if fallback is not None:
            return fallback(s, ready)
        return sorted(ready)[0]
    return choose


def random_chooser(rng, stickiness=0.6):
    """random with a bias to keep running the same actor (long critical sections interleaved at few points)"""
    state = {"last": None}

    def choose(s, ready):
        if state["last"] in ready and rng.random() < stickiness:
            return state["last"]
        a = rng.choice(sorted(ready))
        state["last"] = a
        return a
    return choose
