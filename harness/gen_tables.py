"""Translator (secondary tie, DESIGN §3.3): regenerate DSV/Generated/Tables.lean from /repo/src.

Pure `ast` extraction — nothing from the repository is imported or executed.  If a table cannot be found
where expected, a `TablesError` is raised and the check treats it as a broken tie, not a violation.
"""
import ast
import os

from .util import LEAN_DIR, REPO

OUT = os.path.join(LEAN_DIR, "DSV", "Generated", "Tables.lean")


class TablesError(RuntimeError):
    pass


def _parse(rel):
    p = os.path.join(REPO, "src", "datashard", rel)
    with open(p, "r", encoding="utf-8") as f:
        return ast.parse(f.read(), filename=p)


def _find_func(tree, name, cls=None):
    for node in ast.walk(tree):
        if isinstance(node, ast.ClassDef) and cls is not None and node.name == cls:
            for sub in node.body:
                if isinstance(sub, (ast.FunctionDef,)) and sub.name == name:
                    return sub
        if cls is None and isinstance(node, ast.FunctionDef) and node.name == name:
            return node
    raise TablesError(f"function {cls + '.' if cls else ''}{name} not found")


def _module_assign(tree, name):
    for node in tree.body:
        if isinstance(node, ast.Assign):
            for t in node.targets:
                if isinstance(t, ast.Name) and t.id == name:
                    return node.value
        if isinstance(node, ast.AnnAssign) and isinstance(node.target, ast.Name) and node.target.id == name:
            return node.value
    raise TablesError(f"module-level {name} not found")


def _lean_str(s):
    out = []
    for ch in s:
        if ch == '"':
            out.append('\\"')
        elif ch == "\\":
            out.append("\\\\")
        elif ch == "\n":
            out.append("\\n")
        elif 32 <= ord(ch) < 127:
            out.append(ch)
        else:
            out.append("\\u{%x}" % ord(ch))
    return '"' + "".join(out) + '"'


def filter_op_table():
    tree = _parse("filters.py")
    fn = _find_func(tree, "_parse_op")
    for node in ast.walk(fn):
        if isinstance(node, ast.Assign) and any(isinstance(t, ast.Name) and t.id == "mapping" for t in node.targets):
            if not isinstance(node.value, ast.Dict):
                raise TablesError("_parse_op.mapping is not a dict literal")
            rows = []
            for k, v in zip(node.value.keys, node.value.values):
                if not (isinstance(k, ast.Constant) and isinstance(k.value, str)):
                    raise TablesError("non-literal key in _parse_op.mapping")
                if not (isinstance(v, ast.Attribute) and isinstance(v.value, ast.Name) and v.value.id == "FilterOp"):
                    raise TablesError("non FilterOp.X value in _parse_op.mapping")
                rows.append((k.value, v.attr))
            return sorted(rows)
    raise TablesError("_parse_op.mapping not found")


def filter_special_spellings():
    """string literals compared against op_str_lower in parse_filter_dict, grouped by the FilterOp constructed
    in that branch ('between' expands to GE+LE and is reported as BETWEEN)."""
    tree = _parse("filters.py")
    fn = _find_func(tree, "parse_filter_dict")
    out = []

    def lits(test):
        if isinstance(test, ast.Compare) and isinstance(test.left, ast.Name) and test.left.id == "op_str_lower":
            c = test.comparators[0]
            if isinstance(test.ops[0], ast.Eq) and isinstance(c, ast.Constant):
                return [c.value]
            if isinstance(test.ops[0], ast.In) and isinstance(c, (ast.Tuple, ast.List)):
                return [e.value for e in c.elts if isinstance(e, ast.Constant)]
        return None

    def ops_in(body):
        found = []
        for n in body:
            for sub in ast.walk(n):
                if isinstance(sub, ast.Attribute) and isinstance(sub.value, ast.Name) and sub.value.id == "FilterOp":
                    found.append(sub.attr)
        return found

    for node in ast.walk(fn):
        if isinstance(node, ast.If):
            ls = lits(node.test)
            if ls is not None:
                ops = ops_in(node.body)
                tag = "BETWEEN" if sorted(ops) == ["GE", "LE"] else (ops[0] if len(ops) == 1 else "+".join(ops))
                for s in ls:
                    out.append((s, tag))
    if not out:
        raise TablesError("no special spellings found in parse_filter_dict")
    return sorted(out)


def permanent_codes():
    tree = _parse("s3_consistency.py")
    v = _module_assign(tree, "PERMANENT_S3_ERROR_CODES")
    if isinstance(v, ast.Call) and v.args and isinstance(v.args[0], (ast.Set, ast.List, ast.Tuple)):
        return sorted(e.value for e in v.args[0].elts if isinstance(e, ast.Constant))
    raise TablesError("PERMANENT_S3_ERROR_CODES is not frozenset({...literals...})")


def retry_defaults():
    tree = _parse("s3_consistency.py")
    fn = _find_func(tree, "__init__", cls="S3ConsistencyHandler")
    names = [a.arg for a in fn.args.args][1:]
    defaults = fn.args.defaults
    names = names[len(names) - len(defaults):]
    d = {}
    for n, v in zip(names, defaults):
        if isinstance(v, ast.Constant):
            d[n] = v.value
    if "max_retries" not in d:
        raise TablesError("max_retries default not found")
    return d


def metadata_file_re():
    tree = _parse("metadata_manager.py")
    v = _module_assign(tree, "_METADATA_FILE_RE")
    if isinstance(v, ast.Call) and v.args and isinstance(v.args[0], ast.Constant):
        return v.args[0].value
    raise TablesError("_METADATA_FILE_RE pattern not found")


def const(rel, name):
    v = _module_assign(_parse(rel), name)
    try:
        return ast.literal_eval(v)
    except Exception:
        # simple arithmetic like 24 * 3600 * 1000
        return eval(compile(ast.Expression(v), "<const>", "eval"), {"__builtins__": {}})


def avro_fallback_exceptions():
    tree = _parse("file_manager.py")
    res = {}
    for fname in ("read_manifest_file", "read_manifest_list_file"):
        fn = _find_func(tree, fname, cls="FileManager")
        names = None
        for node in ast.walk(fn):
            if isinstance(node, ast.ExceptHandler) and isinstance(node.type, ast.Tuple):
                names = sorted(e.id for e in node.type.elts if isinstance(e, ast.Name))
                break
        if names is None:
            raise TablesError(f"except tuple not found in {fname}")
        res[fname] = names
    return res


def type_mapping_keys():
    tree = _parse("data_operations.py")
    fn = _find_func(tree, "_iceberg_type_to_arrow", cls="DataFileManager")
    for node in ast.walk(fn):
        if isinstance(node, ast.Assign) and any(isinstance(t, ast.Name) and t.id == "type_mapping" for t in node.targets):
            rows = []
            for k, v in zip(node.value.keys, node.value.values):
                rows.append((k.value, ast.unparse(v)))
            return sorted(rows)
    raise TablesError("type_mapping not found")


def primitive_types():
    tree = _parse("data_structures.py")
    fn = _find_func(tree, "__post_init__", cls="Schema")
    for node in ast.walk(fn):
        if isinstance(node, ast.Assign) and any(isinstance(t, ast.Name) and t.id == "valid_primitive_types" for t in node.targets):
            return sorted(e.value for e in node.value.elts)
    raise TablesError("valid_primitive_types not found")


def precondition_codes():
    """error codes treated as CAS precondition failure in S3StorageBackend.write_file_cas"""
    tree = _parse("storage_backend.py")
    fn = _find_func(tree, "write_file_cas", cls="S3StorageBackend")
    for node in ast.walk(fn):
        if isinstance(node, ast.Compare) and isinstance(node.ops[0], ast.In) and isinstance(node.comparators[0], ast.Tuple):
            return sorted(e.value for e in node.comparators[0].elts if isinstance(e, ast.Constant))
    raise TablesError("precondition codes not found")


def render():
    ops = filter_op_table()
    sp = filter_special_spellings()
    perm = permanent_codes()
    rd = retry_defaults()
    lines = [
        "/- GENERATED by harness/gen_tables.py from /repo/src on every run — do not edit. -/",
        "namespace DSV.Generated",
        "",
        "/-- `filters._parse_op.mapping`, sorted by key: (spelling, FilterOp member name) -/",
        "def opTable : List (String × String) := [",
        ",\n".join(f"  ({_lean_str(k)}, {_lean_str(v)})" for k, v in ops),
        "]",
        "",
        "/-- spellings special-cased in `parse_filter_dict` before `_parse_op` -/",
        "def specialSpellings : List (String × String) := [",
        ",\n".join(f"  ({_lean_str(k)}, {_lean_str(v)})" for k, v in sp),
        "]",
        "",
        "def permanentS3Codes : List String := [",
        ",\n".join(f"  {_lean_str(c)}" for c in perm),
        "]",
        "",
        f"def retryMaxRetries : Nat := {int(rd['max_retries'])}",
        "",
        f"def metadataFileRe : String := {_lean_str(metadata_file_re())}",
        f"def hintPath : String := {_lean_str(_class_const('metadata_manager.py', 'MetadataManager', 'HINT_PATH'))}",
        f"def inflightPathGc : String := {_lean_str(const('garbage_collector.py', 'INFLIGHT_PATH'))}",
        f"def inflightPathTx : String := {_lean_str(const('transaction.py', '_INFLIGHT_PATH'))}",
        f"def inflightTimeoutMs : Nat := {int(const('garbage_collector.py', 'DEFAULT_INFLIGHT_TIMEOUT_MS'))}",
        f"def defaultPreviousVersionsMax : Nat := {int(_class_const('metadata_manager.py', 'MetadataManager', 'DEFAULT_PREVIOUS_VERSIONS_MAX'))}",
        "",
        "def casPreconditionCodes : List String := [" + ", ".join(_lean_str(c) for c in precondition_codes()) + "]",
        "",
        "def primitiveTypes : List String := [" + ", ".join(_lean_str(c) for c in primitive_types()) + "]",
        "",
        "def typeMapping : List (String × String) := [",
        ",\n".join(f"  ({_lean_str(k)}, {_lean_str(v)})" for k, v in type_mapping_keys()),
        "]",
        "",
    ]
    af = avro_fallback_exceptions()
    lines.append("def avroFallbackManifest : List String := [" + ", ".join(_lean_str(c) for c in af["read_manifest_file"]) + "]")
    lines.append("def avroFallbackManifestList : List String := [" + ", ".join(_lean_str(c) for c in af["read_manifest_list_file"]) + "]")
    lines += ["", "end DSV.Generated", ""]
    return "\n".join(lines)


def _class_const(rel, cls, name):
    tree = _parse(rel)
    for node in ast.walk(tree):
        if isinstance(node, ast.ClassDef) and node.name == cls:
            for sub in node.body:
                if isinstance(sub, ast.Assign) and any(isinstance(t, ast.Name) and t.id == name for t in sub.targets):
                    return ast.literal_eval(sub.value)
    raise TablesError(f"{cls}.{name} not found")


def regenerate():
    """Write the file only when its content changes (keeps `lake build` a no-op). Returns True if rewritten."""
    text = render()
    os.makedirs(os.path.dirname(OUT), exist_ok=True)
    try:
        with open(OUT, "r", encoding="utf-8") as f:
            if f.read() == text:
                return False
    except FileNotFoundError:
        pass
    tmp = OUT + ".tmp"
    with open(tmp, "w", encoding="utf-8") as f:
        f.write(text)
    os.replace(tmp, OUT)
    return True


if __name__ == "__main__":
    print(render())
