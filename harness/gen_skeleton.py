"""Translator (secondary tie, DESIGN §3.3b): regenerate DSV/Generated/Skeleton.lean from /repo/src.

For each protocol-bearing function of the library the translator emits its CALL SKELETON: the dotted names of the calls the
body makes (and the exception classes it raises), in evaluation order of the source text (arguments before the call, statements
in textual order, every branch and handler included).  Nothing from the repository is imported or executed — pure `ast`.

The theorems in DSV/Props/*.lean that mention `DSV.Generated.Skel.*` state that the order of the protocol steps in the CURRENT
source is the order the hand-written models assume (lock → validate → write → fence → flip → release; markers before metadata
before listings before deletes; write → fsync → rename → directory fsync; marker before file, marker removal after the commit
point).  A source change that reorders, drops or duplicates a protocol step changes the generated list, the `decide` proof of the
corresponding theorem no longer checks, and the check treats that as a broken proof obligation (DESIGN §3.2).
"""
import ast
import os

from .util import LEAN_DIR, REPO
from .gen_tables import TablesError, _find_func, _lean_str, _parse

OUT = os.path.join(LEAN_DIR, "DSV", "Generated", "Skeleton.lean")

# calls that carry no protocol meaning and only add noise / churn to the generated file
_NOISE_ROOTS = {"logger", "logging"}
_NOISE_NAMES = {
    "int", "len", "max", "min", "set", "isinstance", "str", "print", "memoryview", "sorted", "list", "dict", "tuple", "bool",
    "float", "repr", "getattr", "hasattr", "range", "enumerate", "zip", "any", "all", "iter", "next", "type", "id", "bytes",
    "frozenset", "super", "format", "abs", "sum", "map", "filter", "round", "ord", "chr", "callable", "vars",
}

# (lean name, file, class or None, function)
FUNCTIONS = [
    ("mmCommit", "metadata_manager.py", "MetadataManager", "commit"),
    ("mmWriteHint", "metadata_manager.py", "MetadataManager", "_write_hint_at_commit_point"),
    ("mmReadCurrentEtag", "metadata_manager.py", "MetadataManager", "_read_current_with_etag"),
    ("mmInitialize", "metadata_manager.py", "MetadataManager", "initialize_table"),
    ("mmCurrentVersionInfo", "metadata_manager.py", "MetadataManager", "_current_version_info"),
    ("mmRefresh", "metadata_manager.py", "MetadataManager", "refresh"),
    ("gcLoadInflight", "garbage_collector.py", "GarbageCollector", "_load_inflight_protection"),
    ("smDeleteSnapshot", "snapshot_manager.py", "SnapshotManager", "delete_snapshot"),
    ("txRollback", "transaction.py", "Transaction", "_rollback"),
    ("gcCollect", "garbage_collector.py", "GarbageCollector", "collect"),
    ("gcPrefix", "garbage_collector.py", "GarbageCollector", "_gc_prefix"),
    ("localWriteFile", "storage_backend.py", "LocalStorageBackend", "write_file"),
    ("dataWriterClose", "data_operations.py", "DataFileWriter", "close"),
    ("txCommit", "transaction.py", "Transaction", "commit"),
    ("txCommitFileOps", "transaction.py", "Transaction", "_commit_file_ops"),
    ("txFinishCommitted", "transaction.py", "Transaction", "_finish_committed"),
    ("txAppendData", "transaction.py", "Transaction", "append_data"),
    ("txAppendFiles", "transaction.py", "Transaction", "append_files"),
    ("tblGetAllDataFiles", "transaction.py", "Table", "_get_all_data_files"),
    ("s3LockRelease", "lock_provider.py", "S3LockProviderBase", "release"),
    ("s3LockIsHeld", "lock_provider.py", "S3LockProviderBase", "is_held"),
    ("s3LockTryAcquire", "lock_provider.py", "S3LockProvider", "_try_acquire"),
    ("s3LockTakeover", "lock_provider.py", "S3LockProvider", "_try_takeover_expired"),
]


def _dotted(node):
    parts = []
    while isinstance(node, ast.Attribute):
        parts.append(node.attr)
        node = node.value
    if isinstance(node, ast.Name):
        parts.append(node.id)
    elif isinstance(node, ast.Call):
        parts.append("()")
    else:
        parts.append("?")
    parts.reverse()
    if parts and parts[0] == "self":
        parts = parts[1:] or ["self"]
    return ".".join(parts)


class _Walk(ast.NodeVisitor):
    """evaluation-order walk: operands before the call; nested function / class definitions are not entered"""

    def __init__(self):
        self.events = []

    def visit_FunctionDef(self, node):  # nested def: not executed here
        return

    visit_AsyncFunctionDef = visit_FunctionDef
    visit_Lambda = visit_FunctionDef
    visit_ClassDef = visit_FunctionDef

    def visit_Call(self, node):
        if isinstance(node.func, ast.Attribute):
            self.visit(node.func.value)
        for a in node.args:
            self.visit(a)
        for k in node.keywords:
            self.visit(k.value)
        name = _dotted(node.func)
        root = name.split(".")[0]
        if root in _NOISE_ROOTS or name in _NOISE_NAMES:
            return
        # constant keyword arguments are part of the event: `_rollback(delete_files=False)` is not `_rollback()`
        consts = [f"{k.arg}={k.value.value!r}" for k in node.keywords
                  if k.arg is not None and isinstance(k.value, ast.Constant) and isinstance(k.value.value, (bool, int, type(None)))]
        if consts:
            name += "(" + ",".join(consts) + ")"
        if root == "s3":
            # object-store requests: WHICH parameters a request carries (IfMatch / IfNoneMatch / Range) is its meaning
            name += "[" + ",".join(sorted(k.arg for k in node.keywords if k.arg is not None)) + ("" if all(k.arg for k in node.keywords) else ",**") + "]"
        self.events.append(name)

    def visit_Raise(self, node):
        self.generic_visit(node)
        if node.exc is None:
            self.events.append("raise")
        else:
            exc = node.exc.func if isinstance(node.exc, ast.Call) else node.exc
            self.events.append("raise:" + _dotted(exc))

    def visit_Return(self, node):
        self.generic_visit(node)
        self.events.append("return")

    def visit_With(self, node):
        for it in node.items:
            self.visit(it.context_expr)
            self.events.append("with:" + _dotted(it.context_expr if not isinstance(it.context_expr, ast.Call) else it.context_expr.func))
        for st in node.body:
            self.visit(st)

    def visit_Try(self, node):
        self.events.append("try")
        for st in node.body:
            self.visit(st)
        for h in node.handlers:
            t = h.type
            if t is None:
                nm = "*"
            elif isinstance(t, ast.Tuple):
                nm = "|".join(sorted(_dotted(e) for e in t.elts))
            else:
                nm = _dotted(t)
            self.events.append("except:" + nm)
            for st in h.body:
                self.visit(st)
        if node.orelse:
            self.events.append("else")
            for st in node.orelse:
                self.visit(st)
        if node.finalbody:
            self.events.append("finally")
            for st in node.finalbody:
                self.visit(st)
        self.events.append("end-try")


def _find_func_any(tree, cls, name):
    """like gen_tables._find_func, but also finds a method when the class name moved (searches every class)"""
    try:
        return _find_func(tree, name, cls=cls)
    except TablesError:
        if cls is None:
            raise
    hits = []
    for node in ast.walk(tree):
        if isinstance(node, ast.ClassDef):
            for sub in node.body:
                if isinstance(sub, ast.FunctionDef) and sub.name == name:
                    hits.append(sub)
    if len(hits) == 1:
        return hits[0]
    raise TablesError(f"function {cls}.{name} not found")


def skeleton(rel, cls, name):
    tree = _parse(rel)
    fn = _find_func_any(tree, cls, name)
    w = _Walk()
    for st in fn.body:
        w.visit(st)
    return w.events


def render():
    lines = [
        "/- GENERATED by harness/gen_skeleton.py from /repo/src on every run — do not edit. -/",
        "namespace DSV.Generated.Skel",
        "",
    ]
    for lean_name, rel, cls, fn in FUNCTIONS:
        ev = skeleton(rel, cls, fn)
        lines.append(f"/-- call skeleton of `{cls + '.' if cls else ''}{fn}` ({rel}) -/")
        lines.append(f"def {lean_name} : List String := [")
        lines.append(",\n".join("  " + _lean_str(e) for e in ev))
        lines.append("]")
        lines.append("")
    lines += ["end DSV.Generated.Skel", ""]
    return "\n".join(lines)


def regenerate():
    text = render()
    os.makedirs(os.path.dirname(OUT), exist_ok=True)
    try:
        with open(OUT, "r", encoding="utf-8") as f:
            if f.read() == text:
                return False
    except FileNotFoundError:
        pass
    tmp = OUT + ".tmp"
    with open(tmp, "w", encoding="utf-8") as f:
        f.write(text)
    os.replace(tmp, OUT)
    return True


if __name__ == "__main__":
    print(render())
