"""Crash images: intercept the os-level calls the library's own modules make (temp-file creation, write, fsync, close,
rename, unlink, directory fsync) and copy the table directory at EVERY boundary — the state a process death at that instant
leaves behind (page cache intact: this is process death, not power loss)."""
import importlib
import os
import shutil
import tempfile as _tempfile
import types

HOOKED_OS = ("open", "write", "fsync", "close", "replace", "remove", "unlink", "rename", "makedirs")


class OsProxy(types.ModuleType):
    def __init__(self, real, hook):
        super().__init__("os")
        self.__dict__["_real"] = real
        self.__dict__["_hook"] = hook

    def __getattr__(self, name):
        v = getattr(self.__dict__["_real"], name)
        if name in HOOKED_OS:
            hook = self.__dict__["_hook"]

            def w(*a, **k):
                hook(f"os.{name}", a)
                return v(*a, **k)
            return w
        return v


class TempProxy(types.ModuleType):
    def __init__(self, hook):
        super().__init__("tempfile")
        self.__dict__["_hook"] = hook

    def __getattr__(self, name):
        v = getattr(_tempfile, name)
        if name in ("mkstemp", "NamedTemporaryFile"):
            hook = self.__dict__["_hook"]

            def w(*a, **k):
                hook(f"tempfile.{name}", a)
                return v(*a, **k)
            return w
        return v


class CrashRecorder:
    """while active, every hooked call first snapshots the table directory into images/<k>"""

    MODS = ("datashard.storage_backend", "datashard.data_operations")

    def __init__(self, table_root, images_dir):
        self.root, self.images = table_root, images_dir
        self.k = 0
        self.log = []
        self.saved = []
        self.active = False
        os.makedirs(images_dir, exist_ok=True)

    def hook(self, name, args):
        if not self.active:
            return
        # only calls that concern the table directory
        a0 = args[0] if args else None
        self.log.append((name, str(a0)[:160] if a0 is not None else ""))
        img = os.path.join(self.images, f"{self.k:04d}")
        shutil.copytree(self.root, img, copy_function=shutil.copy2)
        self.k += 1

    def __enter__(self):
        for m in self.MODS:
            mod = importlib.import_module(m)
            self.saved.append((mod, "os", mod.os))
            mod.os = OsProxy(mod.os, self.hook)
            if hasattr(mod, "tempfile"):
                self.saved.append((mod, "tempfile", mod.tempfile))
                mod.tempfile = TempProxy(self.hook)
        self.active = True
        return self

    def __exit__(self, *a):
        self.active = False
        for mod, name, val in self.saved:
            setattr(mod, name, val)
        self.saved = []
