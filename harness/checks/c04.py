"""C04 — a failed, interrupted or ambiguous commit never damages committed data.

Theorems: DSV/Props/C04.lean over the outcome model DSV/Model/CommitFault.lean.
Oracle / correspondence: EVERY single fault (exception before the effect; exception after the effect on object storage;
KeyboardInterrupt / SystemExit at the call boundary) at EVERY storage and lock call of append / delete-files / expire /
delete-snapshot commits, on local, CAS-S3 and non-CAS S3 backends, in context-manager and explicit begin/commit style.
After each run the table is reopened by the independent reader and by the library: state ∈ {pre, post}, every file of
every retained snapshot present, files of the transaction deleted / kept as the outcome class demands, table usable.
"""
import copy
import os
import shutil

from .. import driver, fakes3, reader, tablekit
from ..report import Report
from ..util import scratch_dir

ASSUMPTIONS = [
    "faults are injected at storage-call and lock-call boundaries (an asynchronous exception between two Python bytecodes of pure "
    "bookkeeping is not distinguishable from one delivered at the next call boundary)",
    "'exception after effect' exists only on object storage (a local write that raised did not rename: atomic_write_failures)",
]

# model flag: Transaction.commit keeps files and deactivates on BaseException (repaired) = "1"; as found = "0"
CATCH_BASE = "1"


class Fault(OSError):
    pass


class OtherFault(Exception):
    """stands for botocore.exceptions.ClientError and friends: an error from the store that does not derive from OSError"""


class Plan:
    """fail the k-th gated call: kind 'exc' (before effect), 'exc-after' (effect, then raise), 'kbd' / 'exit' (BaseException before)"""

    def __init__(self, at=None, kind="exc"):
        self.at, self.kind, self.n, self.log, self.fired = at, kind, 0, [], None
        self.commit_start = None

    def call(self, name, arg, fn):
        idx = self.n
        self.n += 1
        self.log.append((name, arg))
        if idx == self.at:
            self.fired = (name, arg)
            if self.kind == "exc":
                raise Fault(f"injected before {name}({arg})")
            if self.kind == "exc-other":        # a storage error that is NOT an OSError (what botocore raises)
                raise OtherFault(f"injected before {name}({arg})")
            if self.kind == "exc-other-after":
                fn()
                raise OtherFault(f"injected after {name}({arg})")
            if self.kind == "kbd":
                raise KeyboardInterrupt()
            if self.kind == "exit":
                raise SystemExit(3)
            if self.kind == "exc-after":
                r = fn()
                raise Fault(f"injected after {name}({arg})")
        return fn()


STORAGE = ["read_file", "write_file", "write_file_cas", "read_file_with_etag", "exists", "list_files", "delete_file", "open_file", "get_size"]


def instrument(t, plan):
    st = t.storage
    for m in STORAGE:
        if hasattr(st, m):
            orig = getattr(st, m)
            setattr(st, m, (lambda *a, _o=orig, _m=m, **k: plan.call(_m, a[0] if a else "", lambda: _o(*a, **k))))
    lp = t.metadata_manager.lock_provider
    for m in ("acquire", "release", "is_held"):
        orig = getattr(lp, m)
        setattr(lp, m, (lambda *a, _o=orig, _m=m, **k: plan.call("lock." + _m, "", lambda: _o(*a, **k))))
    if hasattr(lp, "_start_heartbeat"):
        lp._start_heartbeat = lambda: None
        lp._stop_heartbeat_thread = lambda: None


OPS = ["append", "delfiles", "expire", "delsnap"]


def do_op(t, op, style, ctx_info, plan=None):
    """returns (outcome, written_files)"""
    written = []
    if plan is not None:
        from datashard.transaction import Transaction
        orig_commit = Transaction.commit

        def commit(self, _o=orig_commit):
            if plan.commit_start is None:
                plan.commit_start = plan.n
            return _o(self)
        Transaction.commit = commit
        try:
            return do_op(t, op, style, ctx_info, None)
        finally:
            Transaction.commit = orig_commit
    try:
        if op == "delsnap":
            r_ = t.snapshot_manager.delete_snapshot(ctx_info["old_snapshot"])
            return ("ok" if r_ is not False else "ok:false"), written
        if style == "ctx":
            with t.new_transaction() as tx:
                _queue(tx, op, ctx_info, written)
                tx.commit()
        else:
            tx = t.new_transaction().begin()
            _queue(tx, op, ctx_info, written)
            tx.commit()
        return "ok", written
    except Fault:
        return "raise:storage", written
    except KeyboardInterrupt:
        return "raise:interrupt", written
    except SystemExit:
        return "raise:interrupt", written
    except Exception as e:      # noqa: BLE001
        # exactly one fault is injected per run, so any ordinary exception other than the two protocol errors is that fault surfacing —
        # possibly wrapped (RuntimeError "Cannot read base snapshot manifest list …") or re-expressed (ValueError after the Avro→JSON fallback)
        if type(e).__name__ in ("AmbiguousCommitError", "ConcurrentModificationException"):
            return "raise:" + type(e).__name__, written
        return "raise:storage", written


def _queue(tx, op, info, written):
    if op == "append":
        tx.append_data(tablekit.rows(2, start=500, tag="new"))
        written.extend(p.lstrip("/") for p in tx._written_files)
    elif op == "delfiles":
        tx.delete_files(["/" + info["victim"]])
    elif op == "expire":
        tx.expire_snapshots(info["cutoff"])


class Env:
    """one backend with snapshot / restore of its whole storage"""

    def __init__(self, backend, base):
        self.backend, self.base = backend, base
        self.s3 = None
        if backend != "local":
            self.s3 = fakes3.S3Env(cas=(backend == "s3cas"))
            self.s3.__enter__()
            self.loc = "wh/t"
        else:
            self.loc = os.path.join(base, "t")

    def store(self):
        return reader.DirStore(self.loc) if self.backend == "local" else reader.S3Store(self.s3.fake, self.loc)

    def snapshot(self):
        if self.backend == "local":
            d = self.loc + ".snap"
            shutil.rmtree(d, ignore_errors=True)
            shutil.copytree(self.loc, d, copy_function=shutil.copy2)
            return d
        return copy.deepcopy({k: (o.data, o.etag, o.mtime) for k, o in self.s3.fake.objects.items()}), self.s3.fake.counter

    def restore(self, snap):
        if self.backend == "local":
            shutil.rmtree(self.loc, ignore_errors=True)
            shutil.copytree(snap, self.loc, copy_function=shutil.copy2)
        else:
            objs, counter = snap
            self.s3.fake.objects = {k: fakes3._Obj(d, e, m) for k, (d, e, m) in objs.items()}
            self.s3.fake.counter = counter + 1000

    def close(self):
        if self.s3:
            self.s3.__exit__(None, None, None)


def _sig(v, pre_ids):
    return (tuple(v["rows"]), len(v["snaps"]), tuple(sorted(s["id"] for s in v["snaps"] if s["id"] in pre_ids)))


def _sweep(ctx, rep, backend, op, style, base, model_ok, model_rows):
    env = Env(backend, base)
    try:
        with fakes3.NoSleep():
            t = tablekit.create(env.loc)
            t.append_records(tablekit.rows(2, start=0, tag="a"))
            t.append_records(tablekit.rows(2, start=10, tag="b"))
            info = {"victim": tablekit.data_paths(t)[0], "old_snapshot": t.snapshots()[0]["snapshot_id"],
                    "cutoff": t.snapshots()[1]["timestamp_ms"]}
            snap = env.snapshot()
            store = env.store()
            pre = reader.view(store)
            pre_ids = {s["id"] for s in pre["snaps"]}
            pre_sig = _sig(pre, pre_ids)
            # clean run → post state and the number of gated calls
            probe = Plan()
            h = tablekit.load(env.loc)
            instrument(h, probe)
            out, _w = do_op(h, op, style, info, probe)
            assert out == "ok", (backend, op, style, out)
            post_sig = _sig(reader.view(env.store()), pre_ids)
            n = probe.n
            kinds = ["exc", "kbd", "exc-other"] + (["exc-after", "exc-other-after"] if backend != "local" else []) + (["exit"] if ctx.thorough else [])
            flip_idx = next((i for i, (m, a) in enumerate(probe.log) if m in ("write_file", "write_file_cas") and a == "metadata.version-hint.text"), None)
            for k in range(n):
                for kind in kinds:
                    name, arg = probe.log[k]
                    if kind in ("exc-after", "exc-other-after") and name not in ("write_file", "write_file_cas", "delete_file"):
                        continue
                    env.restore(snap)
                    plan = Plan(at=k, kind=kind)
                    h = tablekit.load(env.loc)
                    instrument(h, plan)
                    outcome, written = do_op(h, op, style, info)
                    rep.evaluations += 1
                    rep.distribution[f"{backend}/{op}/{style}/{kind}:{outcome.split(':')[0]}"] += 1
                    case = {"kind": "fault", "backend": backend, "op": op, "style": style, "fault": kind, "call": k, "at": f"{name}({arg})"}
                    rep.nontrivial(["c04", backend, op, style, kind, k])
                    store = env.store()
                    problems = []
                    flipped = None
                    try:
                        v = reader.view(store)          # reads EVERY retained snapshot's files: missing file -> Broken
                        sig = _sig(v, pre_ids)
                        if sig == pre_sig and sig != post_sig:
                            flipped = False
                        elif sig == post_sig:
                            flipped = True
                        else:
                            problems.append(f"state is neither pre nor post ({len(v['rows'])} rows, {len(v['snaps'])} snapshots)")
                    except reader.Broken as e:
                        problems.append(f"a retained snapshot is unreadable: {e}")
                    kept = [w for w in written if store.get(w) is not None]
                    own_deleted = bool(written) and not kept
                    if flipped is not None:
                        if outcome == "ok" and not flipped:
                            problems.append("reported success but the table is in the pre-state")
                        if outcome == "ok:false" and flipped:
                            problems.append("returned False ('nothing done') although the operation took effect (an unknowable outcome must be reported as such)")
                        if outcome == "raise:storage" and flipped and not (backend != "local" and kind in ("exc-after", "exc-other-after")):
                            # a storage error after the commit point may only come from post-commit cleanup, which must not raise
                            problems.append("a storage error was raised although the commit took effect")
                        if outcome == "raise:AmbiguousCommitError" and written and not kept:
                            problems.append("ambiguous outcome but the transaction's files were deleted")
                        if outcome in ("raise:storage",) and flipped is False and written and kept and k < (flip_idx or 0) and backend == "local":
                            rep.distribution["clean-failure-left-files"] += 1
                    # the metadata lock is released on EVERY way out of commit() (unless the fault hit the release itself)
                    if name not in ("lock.release",) and not (name == "delete_file" and ".locks" in str(arg)):
                        lpq = h.metadata_manager.lock_provider
                        still = (lpq.lock.is_held() if hasattr(lpq, "lock") else bool(getattr(lpq, "is_locked", False)))
                        if still:
                            problems.append("lock leaked: the metadata lock is still held by the handle after the operation ended")
                    # still usable — "afterwards": the failed caller is gone (its process ended / its lease lapsed)
                    if not problems:
                        try:
                            lp_ = h.metadata_manager.lock_provider
                            try:
                                (lp_.lock if hasattr(lp_, "lock") else lp_).release()
                            except BaseException:       # noqa: BLE001
                                pass
                            if env.s3 is not None:
                                env.s3.fake.objects.pop(f"{env.loc}/.locks/metadata.lock", None)
                            h2 = tablekit.load(env.loc)
                            h2.append_records(tablekit.rows(1, start=900, tag="after"))
                            if len(h2.scan()) != len(v["rows"]) + 1:
                                problems.append("follow-up append not reflected")
                        except Exception as e:      # noqa: BLE001
                            problems.append(f"table not usable afterwards: {type(e).__name__}: {str(e)[:80]}")
                    for p_ in problems:
                        after_flip = flip_idx is not None and k > flip_idx
                        if "unreadable" in p_ and kind in ("kbd", "exit") and style == "ctx" and after_flip:
                            sig_ = "C04:interrupt-after-flip-before-finish-ctxmgr"
                        else:
                            sig_ = "C04:" + p_.split(":")[0].split("(")[0].strip().replace(" ", "-")[:60]
                        rep.violate(sig_, f"{backend} {op} {style}: {kind} at call {k} {name}({arg}) → {outcome}: {p_}", case)
                    # correspondence with the outcome model
                    if model_ok and flipped is not None and not problems:
                        cs = probe.commit_start if probe.commit_start is not None else 0
                        if k < cs:
                            point = "preAppend"
                        elif flip_idx is None or k < flip_idx:
                            point = "pre"
                        elif k == flip_idx:
                            point = "flip"
                        else:
                            first_cleanup = next((i for i, (m, a) in enumerate(probe.log) if i > flip_idx and m == "delete_file"), n)
                            point = "release" if k < first_cleanup else "finish"
                        mkind = {"exc-other": "exc", "exc-other-after": "exc-after"}.get(kind, kind)     # same expected outcome as an OSError
                        model_rows.append((f"cf.outcome {backend} {style} {CATCH_BASE} {point} {mkind} {1 if written else 0}",
                                           f"{outcome.split(':')[0]}{':' + outcome.split(':')[1] if outcome.startswith('raise') else ''} "
                                           f"flipped={1 if flipped else 0} deleted={1 if own_deleted else 0}", case))
    finally:
        env.close()
        shutil.rmtree(base, ignore_errors=True)
        os.makedirs(base, exist_ok=True)


def _worker(args):
    tier, seed, intensify, backend, op, style, model_ok = args
    from ..main import Ctx
    ctx = Ctx("C04", tier, seed)
    ctx.intensify = intensify
    rep = Report()
    rows = []
    base = scratch_dir(f"c04-{backend}-{op}-{style}-")
    try:
        _sweep(ctx, rep, backend, op, style, base, model_ok, rows)
    finally:
        shutil.rmtree(base, ignore_errors=True)
    return rep, rows


def _directed(ctx, rep):
    """two shapes single-fault sweeps of one commit() cannot reach:
    (a) an interrupt delivered INSIDE the with-body, after operations were queued and before commit() was called;
    (b) a Transaction object reused (begin() again) after an ambiguous-but-durable commit, whose next commit fails cleanly"""
    base = scratch_dir("c04d-")
    try:
        # ---- (a)
        for backend in ("local", "s3nocas"):
            for exc in (KeyboardInterrupt, SystemExit, RuntimeError):
                for queued in ("append", "append+delete"):
                    env = Env(backend, os.path.join(base, f"a-{backend}-{exc.__name__}-{queued}"))
                    try:
                        with fakes3.NoSleep():
                            t = tablekit.create(env.loc)
                            t.append_records(tablekit.rows(2, start=0, tag="a"))
                            t.append_records(tablekit.rows(2, start=10, tag="b"))
                            victim = tablekit.data_paths(t)[0]
                            pre = reader.view(env.store())
                            raised = None
                            try:
                                with t.new_transaction() as tx:
                                    tx.append_data(tablekit.rows(1, start=500, tag="n"))
                                    if queued == "append+delete":
                                        tx.delete_files(["/" + victim])
                                    raise exc("delivered inside the with-body")
                            except BaseException as e:      # noqa: BLE001
                                raised = type(e).__name__
                            rep.evaluations += 1
                            rep.nontrivial(["c04-body", backend, exc.__name__, queued])
                            case = {"kind": "interrupt-in-with-body", "backend": backend, "exception": exc.__name__, "queued": queued}
                            try:
                                v = reader.view(env.store())
                            except reader.Broken as e:
                                rep.violate("C04:a-retained-snapshot-is-unreadable", f"{backend}: {exc.__name__} in the with-body: {e}", case)
                                continue
                            if backend == "local":
                                changed = (v["rows"], len(v["snaps"])) != (pre["rows"], len(pre["snaps"]))
                                m_ = driver.ask([f"cf.exit {'exception' if exc is RuntimeError else 'interrupt'} 1"])[0]
                                rep.corr_cases += 1
                                if m_ != ("commit" if changed else "rollback"):
                                    rep.diverge("cf.exit (Transaction.__exit__)", case, m_, "commit" if changed else "rollback")
                            if (v["rows"], len(v["snaps"])) != (pre["rows"], len(pre["snaps"])):
                                rep.violate("C04:interrupted-with-body-committed-a-partial-transaction",
                                            f"{backend}: {exc.__name__} raised inside the with-block (commit() never called, {raised} propagated) yet the table "
                                            f"changed: {len(pre['rows'])}→{len(v['rows'])} rows, {len(pre['snaps'])}→{len(v['snaps'])} snapshots", case)
                    finally:
                        env.close()
        # ---- (a') a transaction that queued PRE-BUILT files (file-level API) and then fails / is interrupted / is rolled back: a file that a
        # retained snapshot references (re-added after a delete) must still be there afterwards — the rollback may remove only what the
        # transaction itself wrote
        from datashard.data_structures import DataFile, FileFormat
        for how in ("missing-second-file", "interrupt-in-body", "explicit-rollback", "manifest-write-fails"):
            p_ = os.path.join(base, f"pre-{how}")
            t = tablekit.create(p_)
            t.append_records(tablekit.rows(2, start=0, tag="a"))
            t.append_records(tablekit.rows(2, start=10, tag="b"))
            old = tablekit.data_paths(t)[0]
            with t.new_transaction() as tx:
                tx.delete_files(["/" + old])
                tx.commit()
            pre = reader.view(p_)
            need = reader.reachable(p_)
            df = DataFile(file_path="/" + old, file_format=FileFormat.PARQUET, partition_values={}, record_count=2,
                          file_size_in_bytes=os.path.getsize(os.path.join(p_, old)))
            raised = None
            undo = None
            try:
                if how == "explicit-rollback":
                    tx = t.new_transaction().begin()
                    tx.append_files([df])
                    tx.rollback()
                else:
                    if how == "manifest-write-fails":
                        st_ = t.storage
                        ow_ = st_.write_file

                        def wf(pp, *a_, _o=ow_, **k_):
                            if "manifests/" in str(pp):
                                raise OSError(28, "injected: no space left")
                            return _o(pp, *a_, **k_)
                        st_.write_file = wf
                        undo = lambda st_=st_: delattr(st_, "write_file")
                    with t.new_transaction() as tx:
                        tx.append_files([df])
                        if how == "missing-second-file":
                            tx.append_files([DataFile(file_path="/data/never-written.parquet", file_format=FileFormat.PARQUET, partition_values={},
                                                      record_count=1, file_size_in_bytes=1)])
                        if how == "interrupt-in-body":
                            raise KeyboardInterrupt("delivered inside the with-body")
                        tx.commit()
            except BaseException as e:      # noqa: BLE001
                raised = type(e).__name__
            finally:
                if undo:
                    try:
                        undo()
                    except Exception:       # noqa: BLE001
                        pass
            rep.evaluations += 1
            rep.nontrivial(["c04-prebuilt", how])
            case = {"kind": "failed-transaction-with-prebuilt-file", "how": how, "file": old, "raised": raised}
            missing = sorted(f_ for f_ in need if not os.path.exists(os.path.join(p_, f_)))
            if missing:
                rep.violate("C04:file-of-a-retained-snapshot-deleted-by-rollback", f"{how}: the failed / abandoned transaction had queued {old} (referenced by an "
                            f"older retained snapshot) through append_files; afterwards {missing[:2]} no longer exist ({raised})", case)
            else:
                try:
                    v = reader.view(p_)
                    if how != "explicit-rollback" and raised is not None and (v["rows"], len(v["snaps"])) != (pre["rows"], len(pre["snaps"])):
                        rep.violate("C04:raise-left-neither-pre-nor-post-state", f"{how}: raised {raised}, table changed", case)
                except reader.Broken as e:
                    rep.violate("C04:a-retained-snapshot-is-unreadable", f"{how}: {e}", case)
        # ---- (b)
        for backend in ("s3cas", "s3nocas"):
            for second_fault in ("manifest", "mlist", "meta"):
                env = Env(backend, os.path.join(base, f"b-{backend}-{second_fault}"))
                try:
                    with fakes3.NoSleep():
                        t = tablekit.create(env.loc)
                        t.append_records(tablekit.rows(2, start=0, tag="a"))
                        h = tablekit.load(env.loc)
                        st = h.storage
                        from ..vstore import path_class
                        mode = {"n": 0, "what": None}
                        saved = {}
                        for mth in ("write_file", "write_file_cas"):
                            if hasattr(st, mth):
                                o = getattr(st, mth)
                                saved[mth] = o

                                def w(p_, *a_, _o=o, **k_):
                                    cls = path_class(p_)
                                    if mode["what"] == "hint-after" and cls == "hint" and mode["n"] == 0:
                                        mode["n"] = 1
                                        _o(p_, *a_, **k_)
                                        raise Fault("injected AFTER the pointer write took effect")
                                    if mode["what"] == cls and mode["n"] == 0:
                                        mode["n"] = 1
                                        raise Fault(f"injected before the {cls} write")
                                    return _o(p_, *a_, **k_)
                                setattr(st, mth, w)
                        tx = h.new_transaction()
                        tx.begin()
                        tx.append_data(tablekit.rows(2, start=100, tag="first"))
                        mode.update(what="hint-after", n=0)
                        out1 = None
                        try:
                            tx.commit()
                            out1 = "ok"
                        except BaseException as e:      # noqa: BLE001
                            out1 = type(e).__name__
                        try:
                            mid = reader.view(env.store())
                        except reader.Broken as e:
                            rep.evaluations += 1
                            rep.violate("C04:a-retained-snapshot-is-unreadable", f"{backend}: commit whose pointer write landed and then raised ended {out1}; afterwards: {e}",
                                        {"kind": "transaction-reused-after-ambiguous-commit", "backend": backend, "first": out1})
                            continue
                        # the same Transaction object again
                        out2 = None
                        try:
                            tx.begin()
                            tx.append_data(tablekit.rows(1, start=200, tag="second"))
                            mode.update(what=second_fault, n=0)
                            tx.commit()
                            out2 = "ok"
                        except BaseException as e:      # noqa: BLE001
                            out2 = type(e).__name__
                        mode.update(what=None)
                        rep.evaluations += 1
                        rep.nontrivial(["c04-reuse", backend, second_fault])
                        case = {"kind": "transaction-reused-after-ambiguous-commit", "backend": backend, "first": out1, "second_fault": second_fault, "second": out2}
                        if out1 == "AmbiguousCommitError" and out2 not in ("ok", None):
                            first_files = [f_ for f_ in env.store().list() if "first" in f_] or None
                            rows_now = None
                            try:
                                rows_now = reader.view(env.store())["rows"]
                            except reader.Broken:
                                pass
                            m_ = driver.ask(["cf.reuse ambiguous cleanFailure"])[0]
                            rep.corr_cases += 1
                            impl_ = "deleted=2" if rows_now is not None and rows_now == mid["rows"] else "deleted=1,2"
                            if m_ != impl_:
                                rep.diverge("cf.reuse (Transaction.begin resets what a rollback may delete)", case, m_, impl_)
                        try:
                            v = reader.view(env.store())
                            if out2 != "ok" and v["rows"] != mid["rows"]:
                                rep.violate("C04:failed-commit-changed-the-table", f"{backend}: second commit raised {out2} yet the rows changed", case)
                        except reader.Broken as e:
                            rep.violate("C04:a-retained-snapshot-is-unreadable",
                                        f"{backend}: commit 1 ended {out1} with the pointer moved; the same Transaction re-begun, commit 2 failed cleanly at the "
                                        f"{second_fault} write ({out2}); afterwards: {e}", case)
                finally:
                    env.close()
    finally:
        shutil.rmtree(base, ignore_errors=True)


def run(ctx, model_ok):
    import concurrent.futures as cf
    rep = Report()
    rep.rule = ("exhaustive single faults: every gated storage / lock call of {append, delete files, expire (ctx + explicit), delete_snapshot} "
                "× {OSError before effect, non-OSError store error before effect, KeyboardInterrupt (thorough: + SystemExit), exception after effect on S3 writes/deletes} × "
                "{local, CAS-S3, non-CAS S3}; after each: independent re-read of every retained snapshot, pre/post classification, fate of the "
                "transaction's files, follow-up append. quick: all of local + append(ctx) on both S3 flavours; thorough: everything. "
                "plus: an interrupt inside the with-body before commit() (3 exception types × 2 backends × 2 queued shapes); a Transaction "
                "re-begun after an ambiguous-but-durable commit whose next commit fails cleanly (2 S3 flavours × 3 fault points). "
                "distinct = (backend, op, style, kind, call index).")
    combos = []
    for backend in ("local", "s3cas", "s3nocas"):
        for op in OPS:
            for style in (("ctx", "explicit") if op != "delsnap" else ("explicit",)):
                combos.append((backend, op, style))
    if not ctx.thorough and not ctx.intensify:
        combos = [c for c in combos if c[0] == "local" or (c[1] == "append" and c[2] == "ctx")]
    model_rows = []
    with cf.ProcessPoolExecutor(max_workers=min(12, len(combos))) as ex:
        for r, rows in ex.map(_worker, [(ctx.tier, ctx.seed, ctx.intensify, b, o, s_, model_ok) for b, o, s_ in combos]):
            rep.merge(r)
            model_rows += rows
    _directed(ctx, rep)
    rep.exhaustive = True
    if model_ok and model_rows:
        replies = driver.ask([r for r, _i, _c in model_rows])
        for (rq, impl, case), m in zip(model_rows, replies):
            rep.corr_cases += 1
            if m != impl:
                rep.diverge("cf.outcome (Transaction.commit / MetadataManager.commit error handling)", {"request": rq, **case}, m, impl)
        rep.sample({"outcome_case": model_rows[0][0], "model": replies[0], "impl": model_rows[0][1]})
    return rep
