"""C05 — garbage collection never deletes anything reachable or in flight.

Theorems: DSV/Props/C05.lean (norm_agrees, norm_agrees_abs, gc_safe, gc_live, gc_deletes_only_old_unkept).
Correspondence: `_normalize_path`, `_marker_target`, `_gc_prefix` vs the model.  Oracle: real histories under many
table-location spellings (relative, absolute, trailing slash, symlinked, names that are string prefixes of `data` /
`metadata`, S3 prefix) × grace periods × file ages × open transactions: deleted files vs independently computed
reachable set; every retained snapshot re-read; old orphans gone.
"""
import os
import shutil
import time

from .. import driver, fakes3, reader, tablekit
from ..report import Report
from ..util import dec, enc, scratch_dir

ASSUMPTIONS = [
    "library-written files live under data/ or metadata/ (hypothesis LibPath of the theorems)",
    "a live transaction is younger than the marker abandonment timeout (24 h)",
]

# the model is of `_normalize_path` after the fix (mirrors the read path); switch to "gc.normold" to model the code as found
NORM_CMD = "gc.norm"


def _gc_obj(table_path, storage=None):
    from datashard.garbage_collector import GarbageCollector
    g = GarbageCollector.__new__(GarbageCollector)
    g.table_path = table_path
    g.storage = storage
    return g


def _real_of(table_path, local=True):
    return os.path.realpath(table_path) if local else ""


def _check_norm(ctx, rep, model_ok):
    from datashard.storage_backend import LocalStorageBackend
    tps = ["d", "da", "data", "m", "metadata", "t", "./t", "t/", "/abs/t", "/abs/t/", "/data", "/metadata", "/d", "/", "", "a/b",
           "dat", "/abs/data", "/abs//t", "meta"]
    paths = []
    for core in ["data/f.parquet", "metadata/manifests/m.avro", "metadata/inflight/x.inflight", "data/sub/f", "datax/f", "d", "data",
                 "other/z", "", "..", "../x", "a/../b"]:
        paths += [core, "/" + core, "//" + core]
    cases = []
    for tp in tps:
        for p in paths:
            cases.append((tp, p))
        for core in ["data/f.parquet", "metadata/manifests/m.avro"]:
            cases.append((tp, tp + "/" + core))
            cases.append((tp, tp + core))
            cases.append((tp, tp.rstrip("/") + "/" + core))
            cases.append((tp, _real_of(tp) + "/" + core))
    reqs = []
    for tp, p in cases:
        if NORM_CMD == "gc.norm":
            reqs.append(f"gc.norm {enc(tp)} {enc(_real_of(tp))} {enc(p)}")
        else:
            reqs.append(f"gc.normold {enc(tp)} {enc(p)}")
    model = driver.ask(reqs) if model_ok else [None] * len(reqs)
    for (tp, p), m, rq in zip(cases, model, reqs):
        g = _gc_obj(tp, LocalStorageBackend(tp or "."))
        impl = g._normalize_path(p)
        rep.evaluations += 1
        rep.nontrivial(["norm", tp, p])
        if m is not None:
            m = dec(m)
            rep.corr_cases += 1
            if m != impl:
                rep.diverge(f"{NORM_CMD} (_normalize_path)", {"tp": tp, "p": p}, m, impl)
    # property oracle on the implementation: the spellings of one library file normalise alike
    for tp in tps:
        g = _gc_obj(tp, LocalStorageBackend(tp or "."))
        for core in ["data/f.parquet", "metadata/manifests/m.avro"]:
            forms = {core, "/" + core}
            got = {g._normalize_path(f) for f in forms}
            rep.evaluations += 1
            if got != {core}:
                clash = tp != "" and (("data".startswith(tp.lstrip("./")) or "metadata".startswith(tp.lstrip("./"))) or tp in ("/data", "/metadata", "/d", "/"))
                sig = "C05:table-location-string-prefix-of-listed-path" if clash else "C05:normalisation-disagrees"
                rep.violate(sig, f"table location {tp!r}: spellings {sorted(forms)} of one file normalise to {sorted(got)}",
                            {"kind": "norm", "tp": tp, "file": core})
    rep.sample({"norm_case": reqs[3], "model": model[3]})
    # which listed file a manifest entry / marker payload REFERS to (`_referenced_path`): spellings of a path, local vs object storage
    if model_ok and hasattr(_gc_obj("t", None), "_referenced_path"):
        spelled = ["data/x.parquet", "data//x.parquet", "data/./x.parquet", "/data/sub/../x.parquet", "./data/x.parquet", "data/sub/./../x.parquet/",
                   "//data///y", "data/../../z", "../x", "..", ".", "", "data/a/b/../../c", "metadata/manifests//m.avro", "data/region=eu/./p.parquet"]
        s3be = fakes3.make_backend("wh/t")
        for loc_flag, tp, st in (("1", "/abs/t", LocalStorageBackend("/abs/t")), ("1", "rel/t", LocalStorageBackend("rel/t")), ("0", "wh/t", s3be)):
            real = os.path.realpath(tp) if loc_flag == "1" else ""
            reqs2 = [f"gc.ref {loc_flag} {enc(tp)} {enc(real)} {enc(p_)}" for p_ in spelled]
            for p_, m_ in zip(spelled, driver.ask(reqs2)):
                g = _gc_obj(tp, st)
                impl = g._referenced_path(p_)
                rep.corr_cases += 1
                if dec(m_) != impl:
                    rep.diverge("gc.ref (_referenced_path)", {"tp": tp, "p": p_, "local": loc_flag}, dec(m_), impl)


class _StubStorage:
    def __init__(self, listing, ages):
        self.listing, self.ages, self.deleted = listing, ages, []

    def list_files(self, prefix):
        return list(self.listing)

    def get_modified_time(self, p):
        return time.time() - self.ages[p]

    def delete_file(self, p):
        self.deleted.append(p)


def _check_prefix(ctx, rep, model_ok):
    rng = ctx.rng("prefix")
    reqs, impls = [], []
    names = ["data/a", "data/b", "data/c", "data/sub/d", "data/e.parquet"]
    for _ in range(ctx.budget(300, 5000)):
        tp = rng.choice(["d", "data", "t", "/abs/t", "/abs/t/", "m", "./t", "/data"])
        listing = rng.sample(names, rng.randint(0, 5))
        if rng.random() < 0.05:
            listing.append(rng.choice(["../x", "..", "data/../../y"]))
        ages = {f: rng.choice([10_000, 10_000, 1]) for f in listing}
        live = rng.sample(names, rng.randint(0, 3))
        spell = [rng.choice([l, "/" + l, (tp.rstrip("/") + "/" + l) if tp.startswith("/") and tp not in ("/data",) else l]) for l in live]
        st = _StubStorage(listing, ages)
        g = _gc_obj(tp, st)
        from datashard.storage_backend import LocalStorageBackend
        g_norm = _gc_obj(tp, LocalStorageBackend(tp))
        keep = {g_norm._normalize_path(s) for s in spell}
        g._normalize_path = g_norm._normalize_path
        try:
            g._gc_prefix("data", keep, 5_000_000)       # grace 5000 s: age 10000 = old, 1 = young
            impl = ",".join(st.deleted) or "-"
        except Exception as e:      # noqa: BLE001
            impl = "abort" if type(e).__name__ == "GarbageCollectionAborted" else f"raise:{type(e).__name__}"
            if st.deleted:
                impl += "+deleted"
        impls.append(impl)
        lst = ",".join(f"{enc(f)}:{'o' if ages[f] > 5000 else 'y'}" for f in listing) or "-"
        reqs.append(f"gc.prefix {enc(tp)} {enc(_real_of(tp))} {','.join(enc(s) for s in spell) or '-'} {lst}")
    model = driver.ask(reqs) if model_ok else [None] * len(reqs)
    for rq, im, m in zip(reqs, impls, model):
        rep.evaluations += 1
        rep.nontrivial(["prefix", rq])
        rep.distribution["prefix:" + ("abort" if im.startswith("abort") else "run")] += 1
        if m is not None and NORM_CMD == "gc.norm":
            rep.corr_cases += 1
            m = ",".join(dec(x) for x in m.split(",")) if m not in ("-", "abort") else m
            if m != im.replace("abort+deleted", "abort"):
                rep.diverge("gc.prefix (_gc_prefix)", {"req": rq}, m, im)
    rep.sample({"prefix_case": reqs[0], "model": model[0]})


# ------------------------------------------------------------------ end to end

def _age_all(store_root, seconds, fake=None, prefix=None):
    """make every existing file look `seconds` old"""
    if fake is not None:
        import datetime as dt
        for k, o in fake.objects.items():
            if k.startswith(prefix):
                o.mtime = o.mtime - dt.timedelta(seconds=seconds)
        return
    t = time.time() - seconds
    for r, _d, fs in os.walk(store_root):
        for f in fs:
            try:
                os.utime(os.path.join(r, f), (t, t))
            except OSError:
                pass


def _all_retained_reachable(store):
    p = reader.pointer(store)
    md = reader.read_metadata(store, p[1])
    out = set()
    import posixpath
    for s in md["snapshots"]:
        c = reader.snapshot_content(store, s)
        out.add(c["mlist"])
        out.update(c["manifests"])
        out.update(posixpath.normpath(f_) for f_ in c["files"])      # the file a spelling like data//x, data/./x, data/s/../x NAMES
    return out, md


# directed shapes run at every location spelling before the random histories
SCRIPTS = [
    # multi-file manifests, a PARTIAL delete (rewritten manifest: added count 0, survivors EXISTING), the older snapshots expire, collection
    ["append2", "append2", "delete", "expire+", "age", "gc", "delete", "expire+", "age", "gc"],
    # delete + append in one commit, older snapshots still retained, collection
    ["append", "append2", "delete+append", "age", "gc", "delsnap", "age", "gc"],
    # transactions open for hours (their files AND markers two hours old, far below the 24 h abandonment timeout) across collections
    ["append", "opentx", "age", "gc", "opentx", "age", "gc", "append", "gc"],
    # a live transaction holding a pre-built file in a partition sub-directory, hours old, across collections; then it commits
    ["append", "opentx-prebuilt", "age", "gc0", "gc1h", "append", "gc0"],
    # pre-built files registered under non-canonical spellings of their paths, collections afterwards
    ["append", "append-spelled", "append-spelled", "age", "gc1h", "append-spelled", "append-spelled", "age", "gc0", "append", "gc0"],
    # two live transactions hold the same pre-built file; one of them rolls back; collections
    ["append", "opentx-shared", "age", "gc1h", "rollback-first", "gc1h", "gc0"],
    # fresh garbage: the default-sized grace period leaves it alone, grace 0 removes it
    ["append", "append2", "delete", "expire+", "gc1h", "gc0", "append", "delete", "expire+", "gc0"],
]


def _history(ctx, rep, rng, location, make_store, chdir=None, s3env=None, script=None):
    """one history at one location spelling; returns nothing, records violations"""
    from datashard import create_table
    t = create_table(location, tablekit.schema())
    store = make_store()
    open_txs = []
    trace = []
    n_ops = len(script) if script else rng.randint(3, 7 if not ctx.thorough else 14)
    for i in range(n_ops):
        op = script[i] if script else rng.choice(["append", "append", "append2", "delete", "delete+append", "expire", "delsnap", "opentx", "opentx-prebuilt", "gc", "gc", "age"])
        trace.append(op)
        try:
            if op == "append":
                t.append_records(tablekit.rows(rng.randint(1, 2), start=i * 10))
            elif op == "append2":
                with t.new_transaction() as tx:
                    tx.append_data(tablekit.rows(1, start=i * 10))
                    tx.append_data(tablekit.rows(2, start=i * 10 + 5))
                    tx.commit()
            elif op in ("delete", "delete+append"):
                paths = tablekit.data_paths(t)
                if paths:
                    with t.new_transaction() as tx:
                        tx.delete_files([rng.choice(["/", ""]) + (paths[0] if script else rng.choice(paths))])
                        if op == "delete+append":
                            tx.append_data(tablekit.rows(1, start=i * 10 + 3))
                        tx.commit()
            elif op == "expire+":
                with t.new_transaction() as tx:
                    tx.expire_snapshots(int(time.time() * 1000) + 10_000)
                    tx.commit()
            elif op == "expire":
                with t.new_transaction() as tx:
                    tx.expire_snapshots(int(time.time() * 1000) + rng.choice([-10_000, 10_000]))
                    tx.commit()
            elif op == "delsnap":
                ids = [s["snapshot_id"] for s in t.snapshots()]
                if len(ids) > 1:
                    t.snapshot_manager.delete_snapshot(rng.choice(ids))
            elif op == "opentx" and len(open_txs) < 2:
                tx = t.new_transaction().begin()
                tx.append_data(tablekit.rows(1, start=7000 + i))
                open_txs.append(tx)
            elif op == "opentx-prebuilt" and len(open_txs) < 2 and s3env is None:
                # a live transaction that registered a PRE-BUILT file in a partition sub-directory (file-level API)
                import pyarrow as pa
                import pyarrow.parquet as pq
                from datashard.data_structures import DataFile, FileFormat
                sch_ = t.file_manager.data_file_manager.create_arrow_schema(tablekit.schema())
                rels_ = [f"data/region=eu/part-{i}.parquet", f"data/region=us/part-{i}.parquet"]      # same base name, two directories
                dfs_ = []
                for rel_ in rels_:
                    full_ = os.path.join(store.root, rel_)
                    os.makedirs(os.path.dirname(full_), exist_ok=True)
                    pq.write_table(pa.table({"id": [8000 + i], "name": ["ext"]}, schema=sch_), full_)
                    dfs_.append(DataFile(file_path="/" + rel_, file_format=FileFormat.PARQUET, partition_values={}, record_count=1,
                                         file_size_in_bytes=os.path.getsize(full_)))
                tx = t.new_transaction().begin()
                tx.append_files(dfs_)
                tx._verif_prebuilt = rels_
                open_txs.append(tx)
            elif op == "append-spelled" and s3env is None:
                # a pre-built file registered under a NON-CANONICAL spelling of its path (the library resolves it; scans work)
                import pyarrow as pa
                import pyarrow.parquet as pq
                from datashard.data_structures import DataFile, FileFormat
                sch_ = t.file_manager.data_file_manager.create_arrow_schema(tablekit.schema())
                spell = ["data//sp{}.parquet", "data/./sp{}.parquet", "/data/sub/../sp{}.parquet", "./data/sp{}.parquet"][i % 4].format(i)
                import posixpath
                full_ = os.path.join(store.root, posixpath.normpath(spell.lstrip("/")))
                os.makedirs(os.path.join(store.root, "data", "sub"), exist_ok=True)
                pq.write_table(pa.table({"id": [9000 + i], "name": ["spelled"]}, schema=sch_), full_)
                with t.new_transaction() as tx:
                    tx.append_files([DataFile(file_path=spell, file_format=FileFormat.PARQUET, partition_values={}, record_count=1,
                                              file_size_in_bytes=os.path.getsize(full_))])
                    tx.commit()
            elif op == "opentx-shared" and s3env is None and not open_txs:
                # TWO live transactions queue the SAME pre-built file; later the first one rolls back
                import pyarrow as pa
                import pyarrow.parquet as pq
                from datashard.data_structures import DataFile, FileFormat
                sch_ = t.file_manager.data_file_manager.create_arrow_schema(tablekit.schema())
                rel_ = f"data/shared-{i}.parquet"
                pq.write_table(pa.table({"id": [8500 + i], "name": ["shared"]}, schema=sch_), os.path.join(store.root, rel_))
                for _n in range(2):
                    tx = t.new_transaction().begin()
                    tx.append_files([DataFile(file_path="/" + rel_, file_format=FileFormat.PARQUET, partition_values={}, record_count=1,
                                              file_size_in_bytes=os.path.getsize(os.path.join(store.root, rel_)))])
                    tx._verif_prebuilt = [rel_]
                    open_txs.append(tx)
            elif op == "rollback-first" and open_txs:
                open_txs.pop(0).rollback()
            elif op == "age":
                if s3env is not None:
                    _age_all(None, 7200, s3env.fake, store.prefix + "/")
                else:
                    _age_all(store.root, 7200)
            elif op in ("gc", "gc0", "gc1h"):
                grace = rng.choice([0, 3_600_000, 10**12]) if op == "gc" else (0 if op == "gc0" else 3_600_000)
                before = set(store.list())
                reach, md = _all_retained_reachable(store)
                inflight = set()
                for tx in open_txs:
                    inflight.update(p.lstrip("/") for p in tx._written_files)
                    inflight.update(getattr(tx, "_verif_prebuilt", []))
                ages = {f: (time.time() - store.mtime(f)) * 1000 for f in before}
                t.garbage_collect(grace_period_ms=grace)
                after = set(store.list())
                deleted = before - after
                rep.evaluations += 1
                rep.distribution[f"gc:grace={'0' if grace == 0 else ('default' if grace == 3_600_000 else 'large')}"] += 1
                if deleted:
                    rep.nontrivial(["gc", location, trace])
                bad = deleted & (reach | inflight)
                if bad:
                    clash = os.path.basename(location.rstrip("/")) in ("d", "da", "dat", "data", "m", "me", "meta", "metadata") and not os.path.isabs(location)
                    sig = "C05:table-location-string-prefix-of-listed-path" if clash else "C05:gc-deleted-live-file"
                    rep.violate(sig, f"location {location!r}: collection (grace {grace}) deleted {sorted(bad)[:2]} which is reachable / in flight",
                                {"kind": "history", "location": location, "trace": trace, "grace": grace})
                    return
                # liveness: unreferenced data / manifest files older than grace are removed
                for f in before:
                    if (f.startswith("data/") or f.startswith("metadata/manifests/")) and f not in reach and f not in inflight \
                            and ages[f] > grace + (2000 if grace > 0 else 20) and f in after and not _marker_protected(store, f):
                        rep.violate("C05:old-orphan-not-collected", f"location {location!r}: {f} unreferenced, older than grace, still there",
                                    {"kind": "history", "location": location, "trace": trace, "grace": grace})
                # …and a file YOUNGER than the grace period is left alone (the grace period is what protects what a writer is producing)
                for f in before:
                    if (f.startswith("data/") or f.startswith("metadata/manifests/")) and f not in after and 0 <= ages[f] < grace - 10_000:
                        rep.violate("C05:young-file-collected-before-its-grace-period", f"location {location!r}: {f} is {ages[f] / 1000:.0f} s old, grace "
                                    f"{grace / 1000:.0f} s, and was deleted", {"kind": "history", "location": location, "trace": trace, "grace": grace})
                # every retained snapshot still readable
                try:
                    _all_retained_reachable(store)
                    t.scan()
                except Exception as e:      # noqa: BLE001
                    rep.violate("C05:snapshot-unreadable-after-gc", f"location {location!r}: {type(e).__name__}: {str(e)[:120]}",
                                {"kind": "history", "location": location, "trace": trace})
                    return
        except Exception as e:      # noqa: BLE001
            name = type(e).__name__
            base = os.path.basename(location.rstrip("/"))
            if name == "GarbageCollectionAborted" and base in ("m", "me", "meta", "metadata") and not os.path.isabs(location):
                rep.violate("C05:table-location-string-prefix-of-listed-path",
                            f"location {location!r}: collection aborts forever ({str(e)[:100]})", {"kind": "history", "location": location, "trace": trace})
            else:
                rep.violate(f"C05:operation-raises:{op}:{name}", f"location {location!r}: {op} raises {name}: {str(e)[:120]}",
                            {"kind": "history", "location": location, "trace": trace})
            return
    for tx in open_txs:
        try:
            tx.rollback()
        except Exception:       # noqa: BLE001
            pass


def _marker_protected(store, f):
    import json as _json
    base = f.rsplit("/", 1)[-1]
    if store.get(f"metadata/inflight/{base}.inflight") is not None:
        return True
    for m_ in store.list():
        if m_.startswith("metadata/inflight/") and m_.endswith(f"-{base}.inflight"):
            try:
                if _json.loads(store.get(m_)).get("file_path", "").lstrip("/") == f:
                    return True
            except Exception:       # noqa: BLE001
                return True
    return False


def _end_to_end(ctx, rep):
    rng = ctx.rng("e2e")
    base = scratch_dir("c05-")
    cwd = os.getcwd()
    n = max(ctx.budget(5, 40), len(SCRIPTS))       # every directed script runs in every tier
    spellings = ["abs", "abs/", "rel", "./rel", "rel/", "d", "data", "m", "metadata", "symlink", "s3", "s3nested", "s3:data", "s3:metadata", "s3:d",
                 "s3tz"]
    try:
        for round_ in range(n):
            for sp in spellings:
                work = os.path.join(base, f"w{round_}_{sp.replace('/', '_')}")
                os.makedirs(work)
                os.chdir(work)
                try:
                    if sp.startswith("s3"):
                        import contextlib
                        import time as _t

                        @contextlib.contextmanager
                        def tz(name):
                            old_tz = os.environ.get("TZ")
                            if name:
                                os.environ["TZ"] = name
                                _t.tzset()
                            try:
                                yield
                            finally:
                                if name:
                                    if old_tz is None:
                                        os.environ.pop("TZ", None)
                                    else:
                                        os.environ["TZ"] = old_tz
                                    _t.tzset()
                        # "s3tz": the process lives nine hours east of UTC (object ages are computed from the store's UTC LastModified)
                        with fakes3.S3Env() as env, fakes3.NoSleep(), tz("Asia/Tokyo" if sp == "s3tz" else None):
                            loc = {"s3": "wh/t", "s3nested": "data/metadata/t", "s3tz": "wh/t"}.get(sp) or sp.split(":")[1]
                            _history(ctx, rep, rng, loc, lambda: reader.S3Store(env.fake, loc), s3env=env,
                                     script=SCRIPTS[round_] if round_ < len(SCRIPTS) else None)
                        continue
                    if sp == "abs":
                        loc, root = os.path.join(work, "tbl"), os.path.join(work, "tbl")
                    elif sp == "abs/":
                        loc, root = os.path.join(work, "tbl") + "/", os.path.join(work, "tbl")
                    elif sp == "symlink":
                        real = os.path.join(work, "real_tbl")
                        os.makedirs(real)
                        os.symlink(real, os.path.join(work, "link"))
                        loc, root = os.path.join(work, "link"), real
                    elif sp in ("rel", "./rel", "rel/"):
                        loc, root = sp.replace("rel", "tbl"), os.path.join(work, "tbl")
                    else:
                        loc, root = sp, os.path.join(work, sp)
                    _history(ctx, rep, rng, loc, lambda root=root: reader.DirStore(root), script=SCRIPTS[round_] if round_ < len(SCRIPTS) else None)
                finally:
                    os.chdir(cwd)
                    shutil.rmtree(work, ignore_errors=True)
    finally:
        os.chdir(cwd)
        shutil.rmtree(base, ignore_errors=True)


def _check_markers(ctx, rep, model_ok):
    """which marker protects which queued file: `_marker_path_for` vs `marker.name`, and the markers a real `append_files` batch
    writes vs `marker.register` (batches with repeated paths, equal base names in different directories, library-style names)"""
    import hashlib
    import pyarrow as pa
    import pyarrow.parquet as pq
    from datashard.data_structures import DataFile, FileFormat
    if not model_ok:
        return
    base = scratch_dir("c05m-")
    try:
        t = tablekit.create(os.path.join(base, "t"))
        root = os.path.join(base, "t")
        sch = t.file_manager.data_file_manager.create_arrow_schema(tablekit.schema())
        pool = ["data/a.parquet", "/data/a.parquet", "data/region=eu/part-0.parquet", "data/region=us/part-0.parquet", "/data/region=eu/part-0.parquet",
                "data/x/y/z.parquet", "data/x/z.parquet", "data/z.parquet", "metadata/manifests/m.avro", "data//dd.parquet", "data/sub/a.parquet"]
        tx0 = t.new_transaction().begin()
        salt0 = getattr(tx0, "_marker_salt", None)
        dig0 = lambda p_: hashlib.sha256(((salt0 + ":") if salt0 is not None else "").encode() + p_.lstrip("/").encode()).hexdigest()[:16]
        fn = getattr(tx0, "_marker_path_for", None)
        if fn is not None:
            for pre in (False, True):
                reqs = [f"marker.name {enc(p_)} {enc(dig0(p_))} {int(pre)}" for p_ in pool]
                for p_, m_ in zip(pool, driver.ask(reqs)):
                    rep.corr_cases += 1
                    try:
                        impl = fn(p_, pre) if pre else fn(p_)
                    except TypeError:
                        impl = "no-prebuilt-argument"
                    want = "metadata/inflight/" + dec(m_) + ".inflight"
                    if impl != want:
                        rep.diverge("marker.name (Transaction._marker_path_for)", {"path": p_, "prebuilt": pre}, want, impl)
        tx0.rollback()
        rng = ctx.rng("markers")
        for p_ in pool:
            full = os.path.join(root, p_.lstrip("/"))
            os.makedirs(os.path.dirname(full), exist_ok=True)
            if not os.path.exists(full):
                pq.write_table(pa.table({"id": [1], "name": ["m"]}, schema=sch), full)
        files = [p_ for p_ in pool if p_.endswith(".parquet")]
        for _ in range(ctx.budget(12, 120)):
            batch = [rng.choice(files) for _ in range(rng.randint(1, 5))]
            tx = t.new_transaction().begin()
            salt = getattr(tx, "_marker_salt", None)
            dig = lambda p_, salt=salt: hashlib.sha256(((salt + ":") if salt is not None else "").encode() + p_.lstrip("/").encode()).hexdigest()[:16]
            written = []
            st = t.storage
            ow = st.write_file

            def wf(pp, data, *a_, _o=ow, **k_):
                if str(pp).lstrip("/").startswith("metadata/inflight/"):
                    import json as _json
                    written.append(_json.loads(data)["file_path"])
                return _o(pp, data, *a_, **k_)
            st.write_file = wf
            try:
                tx.append_files([DataFile(file_path=p_, file_format=FileFormat.PARQUET, partition_values={}, record_count=1,
                                          file_size_in_bytes=os.path.getsize(os.path.join(root, p_.lstrip("/")))) for p_ in batch])
            finally:
                del st.write_file
                tx.rollback()
            m_ = driver.ask(["marker.register " + " ".join(f"{enc(p_)}:{enc(dig(p_))}" for p_ in batch)])[0]
            want = [dec(x_).lstrip("/") for x_ in m_.split(",") if x_]
            rep.corr_cases += 1
            if want != written:
                rep.diverge("marker.register (append_files: which queued files get a marker of their own)", {"batch": batch}, want, written)
            # oracle: every queued path is named by the payload of some marker this transaction wrote
            rep.evaluations += 1
            uncovered = sorted({b_.lstrip("/") for b_ in batch} - set(written))
            if uncovered:
                rep.violate("C05:gc-deleted-live-file", f"append_files({batch}): no in-flight marker names {uncovered} (markers written for {written})",
                            {"kind": "marker-coverage", "batch": batch})
    finally:
        shutil.rmtree(base, ignore_errors=True)


def run(ctx, model_ok):
    rep = Report()
    rep.rule = ("normalisation: 20 table-location spellings × 36 path forms + location-prefixed forms; delete decision: random listings / "
                "ages / live spellings incl. escaping entries; end to end: histories of 3–7 (thorough –14) operations over {append, delete files, "
                "expire, delete snapshot, open transaction, age files, collect} at 12 location spellings (absolute, trailing slash, relative, ./, "
                "d, data, m, metadata, symlinked, S3 prefix, S3 prefix containing 'data/metadata') × grace {0, 1 h, huge}. "
                "non-trivial = a collection that deletes something; distinct by (location, trace).")
    _check_norm(ctx, rep, model_ok)
    _check_prefix(ctx, rep, model_ok)
    _check_markers(ctx, rep, model_ok)
    _end_to_end(ctx, rep)
    return rep
