"""Correspondence for C07: the REAL `GarbageCollector.collect` runs against a fully scripted environment (stub storage,
stub metadata / file managers realising an abstract `Input`), and its outcome is compared with `gc.run`."""
import json
import time
import types

from .. import driver


def key_path(k):
    return ("data/" if k[0] else "metadata/manifests/") + f"f{k[1]}"


def tok(k):
    return ("d" if k[0] else "m") + str(k[1])


class Boom(OSError):
    pass


def realise(inp):
    """build stubs for one abstract input; returns (gc, storage)"""
    from datashard.garbage_collector import GarbageCollector
    deleted = []
    n_reads = len(inp["reads"])

    class Storage:
        def exists(self, p):
            if p == "metadata/vX.metadata.json":
                return not inp["dangling"]
            return True

        def list_files(self, prefix):
            if prefix == "metadata/inflight":
                if inp["markers"] is None:
                    raise Boom("listing inflight")
                return [f"metadata/inflight/f{m['name']}.inflight" for m in inp["markers"]]
            lst = inp["data"] if prefix == "data" else inp["man"]
            if lst is None:
                raise Boom("listing " + prefix)
            return [("../esc%d" % i) if f["esc"] else key_path(f["key"]) for i, f in enumerate(lst)]

        def _listed(self, p):
            for lst in (inp["data"] or []), (inp["man"] or []):
                for f in lst:
                    if key_path(f["key"]) == p:
                        return f
            return None

        def get_modified_time(self, p):
            if p.startswith("metadata/inflight/"):
                m = [m for m in inp["markers"] if p.endswith(f"/f{m['name']}.inflight")][0]
                if m["stat"] is None:
                    raise Boom("stat marker")
                return time.time() - (10 if m["stat"] else 10 * 24 * 3600)
            f = self._listed(p)
            if f is None or not f["stat"]:
                raise Boom("stat")
            return time.time() - (7200 if f["old"] else 1)

        def read_file(self, p):
            m = [m for m in inp["markers"] if p.endswith(f"/f{m['name']}.inflight")][0]
            if not m["payload"]:
                raise Boom("payload")
            return json.dumps({"file_path": key_path(m["target"])}).encode()

        def delete_file(self, p):
            if p.startswith("metadata/inflight/"):
                m = [m for m in inp["markers"] if p.endswith(f"/f{m['name']}.inflight")][0]
                if not m["del"]:
                    raise Boom("delete marker")
                return
            f = self._listed(p)
            if f is None or not f["del"]:
                raise Boom("delete")
            deleted.append(p)

    st = Storage()
    snap = types.SimpleNamespace(manifest_list="metadata/manifests/ml0")
    md = types.SimpleNamespace(snapshots=[snap])

    class MM:
        metadata_path = "metadata"

        def refresh(self):
            if not inp["meta"]:
                raise Boom("refresh")
            return md

        def _read_version_hint(self):
            return (3, "vX.metadata.json")

    reach_m = [k for k in inp["reach"] if not k[0]]
    reach_d = [k for k in inp["reach"] if k[0]]

    class FM:
        manifests_path = "metadata/manifests"
        storage = st

        def read_manifest_list_file(self, p):
            if n_reads >= 1 and not inp["reads"][0]:
                raise Boom("mlist")
            # the manifests: one per remaining read slot; reachable manifests distributed over them
            return [types.SimpleNamespace(manifest_path=f"metadata/manifests/man{j}") for j in range(1, n_reads)] + \
                   [types.SimpleNamespace(manifest_path=key_path(k)) for k in reach_m]

        def read_manifest_file(self, p):
            if p.startswith("metadata/manifests/man"):
                j = int(p[len("metadata/manifests/man"):])
                if not inp["reads"][j]:
                    raise Boom("manifest")
                return [types.SimpleNamespace(file_path="/" + key_path(k)) for k in reach_d] if j == 1 else []
            return []
    gc = GarbageCollector.__new__(GarbageCollector)
    gc.table_path = "/tbl"
    gc.metadata_manager = MM()
    gc.file_manager = FM()
    gc.storage = st
    return gc, deleted


def render(inp):
    def b(x):
        return "1" if x else "0"
    reads = ",".join(b(r) for r in inp["reads"]) or "-"
    reach = ",".join(tok(k) for k in inp["reach"]) or "-"
    if inp["markers"] is None:
        mk = "fail"
    else:
        mk = ",".join(f"{m['name']}/{tok(m['target'])}/{'x' if m['stat'] is None else b(m['stat'])}/{b(m['payload'])}/{b(m['del'])}" for m in inp["markers"]) or "-"

    def lst(l):
        if l is None:
            return "fail"
        return ",".join(f"{tok(f['key'])}/{b(f['esc'])}/{b(f['stat'])}/{b(f['old'])}/{b(f['del'])}" for f in l) or "-"
    return f"gc.run meta={b(inp['meta'])} dangling={b(inp['dangling'])} reads={reads} reach={reach} markers={mk} data={lst(inp['data'])} man={lst(inp['man'])} flags=0000"


def gen(rng):
    def key(d=None):
        return (rng.random() < 0.5 if d is None else d, rng.randint(1, 6))
    n_reads = rng.randint(1, 4)
    inp = {
        "meta": rng.random() > 0.05, "dangling": rng.random() < 0.05,
        "reads": [rng.random() > 0.08 for _ in range(n_reads)],
        "reach": list({key() for _ in range(rng.randint(0, 3))}),
        "markers": None if rng.random() < 0.08 else [
            {"name": n, "target": (rng.random() < 0.5, n), "stat": rng.choice([True, True, False, None]), "payload": rng.random() > 0.3,
             "del": rng.random() > 0.3} for n in rng.sample(range(1, 7), rng.randint(0, 3))],
    }
    if n_reads == 1:
        inp["reach"] = [k for k in inp["reach"] if not k[0]]     # data files are only reachable through a manifest read

    def listing(d):
        if rng.random() < 0.07:
            return None
        out = []
        for n in rng.sample(range(1, 7), rng.randint(0, 5)):
            out.append({"key": (d, n), "esc": rng.random() < 0.04, "stat": rng.random() > 0.1, "old": rng.random() > 0.3, "del": rng.random() > 0.1})
        return out
    inp["data"], inp["man"] = listing(True), listing(False)
    return inp


def correspond(ctx, rep):
    rng = ctx.rng("c07model")
    inputs = [gen(rng) for _ in range(ctx.budget(600, 20000))]
    reqs = [render(i) for i in inputs]
    replies = driver.ask(reqs)
    for inp, rq, m in zip(inputs, reqs, replies):
        gc, deleted = realise(inp)
        try:
            gc.collect(grace_period_ms=3_600_000)
            outcome = "returned"
        except Exception:       # noqa: BLE001
            outcome = "raised"
        # escaping entries are never "deleted"; map real paths back to keys
        keys = []
        for p in deleted:
            keys.append(("d" if p.startswith("data/") else "m") + p.rsplit("/f", 1)[-1])
        impl = outcome + " " + (",".join(keys) or "-")
        rep.corr_cases += 1
        rep.distribution["model:" + outcome] += 1
        if m != impl:
            rep.diverge("gc.run (GarbageCollector.collect on a scripted environment)", {"request": rq}, m, impl)
    rep.sample({"gc_run_case": reqs[0], "model": replies[0]})
