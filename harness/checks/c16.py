"""C16 — commits are durable: the pointer never outruns the data it references.

Theorems: DSV/Props/C16.lean (atomic_write_durable, durable_stable, lower_atomic, judge_sound, commit_durable).
Correspondence: the real syscall trace of every operation type (strace, including pyarrow's C++ parquet writes) must have
the shape of the model's lowering for every file it writes.  Oracle: the Lean judge (proved sound) is run on the REAL trace:
at every prefix at or after the pointer's rename every file reachable from the new version must be durable.
"""
import os
import shutil

from .. import driver, reader, systrace, tablekit
from ..report import Report
from ..util import scratch_dir

ASSUMPTIONS = [
    "disk and kernel honour fsync (file content) and directory fsync (directory entries)",
    "files present before the traced operation are durable (each was produced by an earlier traced operation of the same kind)",
    "ancestor directories were made durable at table creation (DESIGN §7)",
]


def _pre_state(path, n_prior):
    t = tablekit.create(path)
    for i in range(n_prior):
        t.append_records(tablekit.rows(2, start=10 * i, tag=f"p{i}_"))
    return t


def _trace_and_judge(ctx, rep, op, n_prior, base, model_ok):
    path = os.path.join(base, f"{op}{n_prior}")
    arg = {}
    if op != "create":
        t = _pre_state(path, n_prior)
        if op == "delfiles":
            ps = tablekit.data_paths(t)
            if not ps:
                return
            arg = {"victim": ps[0]}
        elif op == "expire":
            sn = t.snapshots()
            if len(sn) < 2:
                return
            arg = {"cutoff": sn[-1]["timestamp_ms"]}
        elif op == "delsnap":
            sn = t.snapshots()
            if len(sn) < 2:
                return
            arg = {"snapshot": sn[0]["snapshot_id"]}
        elif op == "gc":
            with open(os.path.join(path, "data/orphan.parquet"), "wb") as f:
                f.write(b"x")
            os.utime(os.path.join(path, "data/orphan.parquet"), (1, 1))
        del t
    pre_files = set(reader.DirStore(path).list()) if os.path.isdir(path) else set()
    lines = systrace.run_traced(op, path, arg, base)
    evs, ids, meta = systrace.abstract(lines, path)
    rep.evaluations += 1
    rep.distribution[f"op:{op}"] += 1
    rep.nontrivial(["c16", op, n_prior])
    real = os.path.realpath(path)
    store = reader.DirStore(path)
    hint_path = os.path.join(real, "metadata.version-hint.text")
    case = {"kind": "trace", "op": op, "prior_snapshots": n_prior}
    if op == "gc":
        # a collection writes nothing that a pointer could reference; nothing to judge but: it must not rename onto the pointer
        if any(m[0] == "rename" and m[2] == hint_path for m in meta):
            rep.violate("C16:gc-touches-pointer", "garbage collection renamed onto the pointer", case)
        return
    reach = reader.reachable(path) | {"metadata/" + reader.pointer(store)[1]}
    reach_ids = sorted(ids[os.path.join(real, r)] for r in reach if os.path.join(real, r) in ids)
    # files that existed before and are never written in the trace are durable by assumption
    pre_ids = []
    for r in pre_files:
        full = os.path.join(real, r)
        if full in ids:
            pre_ids.append(f"{ids[full]}/{ids.get(os.path.dirname(full), 0)}")
        else:
            pass
    # every reachable pre-existing file that the trace never mentions is trivially durable and is left out of the judge
    dirs = ",".join(f"{i}/{ids.get(os.path.dirname(p), 0)}" for p, i in ids.items()) or "-"
    if hint_path not in ids:
        rep.violate("C16:no-pointer-write-traced", f"{op}: the trace contains no write of the pointer", case)
        return
    req = (f"fs.judge hint={ids[hint_path]} reach={','.join(map(str, reach_ids)) or '-'} pre={','.join(pre_ids) or '-'} dirs={dirs} | "
           + " ".join(evs))
    verdict = driver.ask([req])[0] if model_ok else "model unavailable"
    if model_ok and verdict != "durable":
        k = int(verdict.rsplit(" ", 1)[-1]) if verdict.startswith("violation") else -1
        rep.violate("C16:pointer-outruns-data", f"{op} on a table with {n_prior} prior snapshots: {verdict}; event {meta[k] if 0 <= k < len(meta) else '?'}",
                    {**case, "events": [list(m) for m in meta[max(0, k - 6):k + 2]]})
    # ---- correspondence: every file written by the trace follows the lowering creat(tmp) … write … fsync(tmp) → rename(tmp→final) → fsyncDir
    rep.corr_cases += 1
    finals = [m for m in meta if m[0] == "rename"]
    for rn in finals:
        tmp, fin = rn[1], rn[2]
        i_r = meta.index(rn)
        before = meta[:i_r]
        after = meta[i_r + 1:]
        shape_ok = (("creat", tmp) in before and ("write", tmp) in before and ("fsync", tmp) in before
                    and before.index(("fsync", tmp)) > max(i for i, m in enumerate(before) if m == ("write", tmp))
                    and ("fsyncdir", os.path.dirname(fin)) in after)
        if not shape_ok:
            rep.diverge("lowering of an atomic write (write_file / DataFileWriter.close)", {**case, "file": os.path.relpath(fin, real)},
                        "creat(tmp) write(tmp) fsync(tmp) rename(tmp→final) fsyncDir(dir)",
                        [list(m) for m in meta if tmp in m or fin in m or (m[0] == "fsyncdir" and m[1] == os.path.dirname(fin))])
    # files reachable from the new version that were created by this operation but never renamed into place
    if n_prior == 1 and op == "append":
        rep.sample({"op": op, "events": evs[:40], "verdict": verdict})
    shutil.rmtree(path, ignore_errors=True)


def _fsync_faults(ctx, rep, base):
    """fsync can FAIL (EIO / ENOSPC at flush time): fail the k-th fsync of a regular file of an operation, for every k — if the pointer
    still advances, no file reachable from the new version may be the one whose flush failed (in-process; no strace needed)"""
    import stat as _stat
    from .. import reader, tablekit
    real = os.fsync
    for op in ("append", "append2", "delfiles"):
        k = 0
        while True:
            path = os.path.join(base, f"ff-{op}-{k}")
            t = tablekit.create(path)
            with t.new_transaction() as tx:
                tx.append_data(tablekit.rows(2, start=0))
                tx.append_data(tablekit.rows(2, start=5))
                tx.commit()
            before = reader.pointer(reader.DirStore(path))
            seen = {"n": 0, "failed_ino": None}

            def failing(fd, seen=seen, k=k):
                try:
                    st = os.fstat(fd)
                    regular = _stat.S_ISREG(st.st_mode)
                except OSError:
                    regular, st = False, None
                if regular:
                    i = seen["n"]
                    seen["n"] += 1
                    if i == k:
                        seen["failed_ino"] = st.st_ino
                        raise OSError(5, "injected EIO on fsync")
                return real(fd)
            os.fsync = failing
            raised = None
            try:
                if op == "append":
                    t.append_records(tablekit.rows(1, start=100))
                elif op == "append2":
                    with t.new_transaction() as tx:
                        tx.append_data(tablekit.rows(1, start=100))
                        tx.append_data(tablekit.rows(1, start=200))
                        tx.commit()
                else:
                    with t.new_transaction() as tx:
                        tx.delete_files(["/" + tablekit.data_paths(t)[0]])
                        tx.commit()
            except BaseException as e:      # noqa: BLE001
                raised = type(e).__name__
            finally:
                os.fsync = real
            if seen["failed_ino"] is None:      # fewer than k+1 file fsyncs: the sweep of this operation is complete
                shutil.rmtree(path, ignore_errors=True)
                break
            rep.evaluations += 1
            rep.nontrivial(["fsync-fault", op, k])
            rep.distribution[f"fsync-fault:{op}:{'raise' if raised else 'ok'}"] += 1
            store = reader.DirStore(path)
            after = reader.pointer(store)
            case = {"kind": "fsync-fault", "op": op, "failed_fsync_index": k, "raised": raised}
            if after != before:
                try:
                    reach = reader.reachable(path) | {"metadata/" + after[1], "metadata.version-hint.text"}
                except reader.Broken as e:
                    rep.violate("C16:pointer-names-unreadable-version-after-fsync-failure", f"{op}: fsync #{k} failed; pointer advanced to a version that cannot be read: {e}", case)
                    reach = set()
                for rel in reach:
                    try:
                        ino = os.stat(os.path.join(path, rel)).st_ino
                    except OSError:
                        continue
                    if ino == seen["failed_ino"]:
                        rep.violate("C16:pointer-advanced-over-a-file-whose-fsync-failed",
                                    f"{op}: the fsync of {rel.split('/')[0]}/… failed (EIO), {'the operation raised ' + raised if raised else 'the operation reported success'}, "
                                    f"and the pointer now names a version that reaches that file", case)
            shutil.rmtree(path, ignore_errors=True)
            k += 1


def run(ctx, model_ok):
    rep = Report()
    rep.rule = ("every operation type {create, append, two-append transaction, delete files, expire, delete snapshot, collect} × tables with "
                "{0,1,3} (thorough: 0–8) prior snapshots, each run in a child process under strace; the Lean judge evaluates EVERY prefix of the "
                "real syscall trace at or after the pointer's rename; each written file's event sequence is compared with the model's lowering; "
                "plus every single fsync FAILURE (EIO on the k-th file fsync, all k) of append / two-append / delete commits: the pointer must not "
                "advance over the file whose flush failed.")
    base = scratch_dir("c16-")
    try:
        priors = [0, 1, 3] if not ctx.thorough else list(range(0, 9))
        for op in ("create", "append", "append2", "delfiles", "expire", "delsnap", "gc"):
            for n in (priors if op != "create" else [0]):
                _trace_and_judge(ctx, rep, op, n, base, model_ok)
        _fsync_faults(ctx, rep, base)
        rep.exhaustive = True
    finally:
        shutil.rmtree(base, ignore_errors=True)
    return rep
