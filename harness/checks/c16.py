"""C16 — commits are durable: the pointer never outruns the data it references.

Theorems: DSV/Props/C16.lean (atomic_write_durable, durable_stable, lower_atomic, judge_sound, commit_durable).
Correspondence: the real syscall trace of every operation type (strace, including pyarrow's C++ parquet writes) must have
the shape of the model's lowering for every file it writes.  Oracle: the Lean judge (proved sound) is run on the REAL trace:
at every prefix at or after the pointer's rename every file reachable from the new version must be durable.
"""
import os
import shutil

from .. import driver, reader, systrace, tablekit
from ..report import Report
from ..util import scratch_dir

ASSUMPTIONS = [
    "disk and kernel honour fsync (file content) and directory fsync (directory entries)",
    "files present before the traced operation are durable (each was produced by an earlier traced operation of the same kind)",
    "ancestor directories were made durable at table creation (DESIGN §7)",
]


def _pre_state(path, n_prior):
    t = tablekit.create(path)
    for i in range(n_prior):
        t.append_records(tablekit.rows(2, start=10 * i, tag=f"p{i}_"))
    return t


def _trace_and_judge(ctx, rep, op, n_prior, base, model_ok):
    path = os.path.join(base, f"{op}{n_prior}")
    arg = {}
    if op != "create":
        t = _pre_state(path, n_prior)
        if op == "delfiles":
            ps = tablekit.data_paths(t)
            if not ps:
                return
            arg = {"victim": ps[0]}
        elif op == "expire":
            sn = t.snapshots()
            if len(sn) < 2:
                return
            arg = {"cutoff": sn[-1]["timestamp_ms"]}
        elif op == "delsnap":
            sn = t.snapshots()
            if len(sn) < 2:
                return
            arg = {"snapshot": sn[0]["snapshot_id"]}
        elif op == "gc":
            with open(os.path.join(path, "data/orphan.parquet"), "wb") as f:
                f.write(b"x")
            os.utime(os.path.join(path, "data/orphan.parquet"), (1, 1))
        del t
    pre_files = set(reader.DirStore(path).list()) if os.path.isdir(path) else set()
    env_extra = None
    real_op = op
    if op.startswith("append@env:"):
        # an environment switch of the library pinned to a value that READS as "off": nothing about durability may depend on it
        name_, val_ = op[len("append@env:"):].split("=", 1)
        env_extra, real_op = {name_: val_}, "append"
    if op == "append@tmpfs":
        # the process's temp directory on ANOTHER filesystem than the table (a tmpfs /tmp is common): staging a file there and moving
        # it in is a copy, not a rename
        if not os.path.isdir("/dev/shm") or os.stat("/dev/shm").st_dev == os.stat(base).st_dev:
            return
        env_extra, real_op = {"TMPDIR": "/dev/shm"}, "append"
    lines = systrace.run_traced(real_op, path, arg, base, env_extra)
    if op == "recreate":
        cut = next((i for i, ln in enumerate(lines) if ".MARK" in ln), None)
        if cut is None:
            rep.notes.append("recreate: marker not found in the trace")
            return
        lines = lines[cut + 1:]
        pre_files = set()
    evs, ids, meta = systrace.abstract(lines, path)
    rep.evaluations += 1
    rep.distribution[f"op:{op}"] += 1
    rep.nontrivial(["c16", op, n_prior])
    real = os.path.realpath(path)
    store = reader.DirStore(path)
    hint_path = os.path.join(real, "metadata.version-hint.text")
    case = {"kind": "trace", "op": op, "prior_snapshots": n_prior}
    if op == "gc":
        # a collection writes nothing that a pointer could reference; nothing to judge but: it must not rename onto the pointer
        if any(m[0] == "rename" and m[2] == hint_path for m in meta):
            rep.violate("C16:gc-touches-pointer", "garbage collection renamed onto the pointer", case)
        return
    reach = reader.reachable(path) | {"metadata/" + reader.pointer(store)[1]}
    reach_ids = sorted(ids[os.path.join(real, r)] for r in reach if os.path.join(real, r) in ids)
    # files that existed before and are never written in the trace are durable by assumption
    pre_ids = []
    for r in pre_files:
        full = os.path.join(real, r)
        if full in ids:
            pre_ids.append(f"{ids[full]}/{ids.get(os.path.dirname(full), 0)}")
        else:
            pass
    # every reachable pre-existing file that the trace never mentions is trivially durable and is left out of the judge
    dirs = ",".join(f"{i}/{ids.get(os.path.dirname(p), 0)}" for p, i in ids.items()) or "-"
    if hint_path not in ids:
        rep.violate("C16:no-pointer-write-traced", f"{op}: the trace contains no write of the pointer", case)
        return
    req = (f"fs.judge hint={ids[hint_path]} reach={','.join(map(str, reach_ids)) or '-'} pre={','.join(pre_ids) or '-'} dirs={dirs} | "
           + " ".join(evs))
    verdict = driver.ask([req])[0] if model_ok else "model unavailable"
    if model_ok and verdict != "durable":
        k = int(verdict.rsplit(" ", 1)[-1]) if verdict.startswith("violation") else -1
        rep.violate("C16:pointer-outruns-data", f"{op} on a table with {n_prior} prior snapshots: {verdict}; event {meta[k] if 0 <= k < len(meta) else '?'}",
                    {**case, "events": [list(m) for m in meta[max(0, k - 6):k + 2]]})
    # ---- correspondence: every file written by the trace follows the lowering creat(tmp) … write … fsync(tmp) → rename(tmp→final) → fsyncDir
    rep.corr_cases += 1
    finals = [m for m in meta if m[0] == "rename"]
    for rn in finals:
        tmp, fin = rn[1], rn[2]
        i_r = meta.index(rn)
        before = meta[:i_r]
        after = meta[i_r + 1:]
        shape_ok = (("creat", tmp) in before and ("write", tmp) in before and ("fsync", tmp) in before
                    and before.index(("fsync", tmp)) > max(i for i, m in enumerate(before) if m == ("write", tmp))
                    and ("fsyncdir", os.path.dirname(fin)) in after)
        if not shape_ok:
            rep.diverge("lowering of an atomic write (write_file / DataFileWriter.close)", {**case, "file": os.path.relpath(fin, real)},
                        "creat(tmp) write(tmp) fsync(tmp) rename(tmp→final) fsyncDir(dir)",
                        [list(m) for m in meta if tmp in m or fin in m or (m[0] == "fsyncdir" and m[1] == os.path.dirname(fin))])
    # files reachable from the new version that were created by this operation but never renamed into place
    if n_prior == 1 and op == "append":
        rep.sample({"op": op, "events": evs[:40], "verdict": verdict})
    shutil.rmtree(path, ignore_errors=True)


def _shared_handle_overlap(ctx, rep, base, model_ok):
    """two threads through ONE Table object with overlapping commits (A held before its manifest-list write while B commits completely):
    at B's pointer flip every file B's version reaches is durable — whatever state the shared backend object carries for A"""
    path = os.path.join(base, "shared-overlap")
    t = _pre_state(path, 1)
    del t
    pre_files = set(reader.DirStore(path).list())
    try:
        lines = systrace.run_traced("shared-overlap", path, {}, base)
    except RuntimeError as e:
        rep.notes.append(f"shared-overlap: traced child failed: {str(e)[-200:]}")
        return
    cut = next((i for i, ln in enumerate(lines) if ".MARK" in ln), None)
    if cut is None or not os.path.exists(path + ".BNAME"):
        rep.notes.append("shared-overlap: marker not found in the trace")
        return
    bname = open(path + ".BNAME").read().strip()
    lines = lines[:cut]
    evs, ids, meta = systrace.abstract(lines, path)
    rep.evaluations += 1
    rep.distribution["op:shared-overlap"] += 1
    rep.nontrivial(["c16", "shared-overlap"])
    real = os.path.realpath(path)
    hint_path = os.path.join(real, "metadata.version-hint.text")
    case = {"kind": "trace", "op": "two threads, one Table object, overlapping commits", "judged_version": bname}
    if bname.isdigit():
        bname = f"v{bname}.metadata.json"
    reach = reader.reachable(path, name=bname) | {"metadata/" + bname}
    reach_ids = sorted(ids[os.path.join(real, r)] for r in reach if os.path.join(real, r) in ids)
    pre_ids = [f"{ids[os.path.join(real, r)]}/{ids.get(os.path.dirname(os.path.join(real, r)), 0)}" for r in pre_files if os.path.join(real, r) in ids]
    dirs = ",".join(f"{i}/{ids.get(os.path.dirname(p), 0)}" for p, i in ids.items()) or "-"
    if hint_path not in ids:
        rep.violate("C16:no-pointer-write-traced", "shared-overlap: the trace contains no write of the pointer", case)
        return
    if not model_ok:
        return
    req = (f"fs.judge hint={ids[hint_path]} reach={','.join(map(str, reach_ids)) or '-'} pre={','.join(pre_ids) or '-'} dirs={dirs} | " + " ".join(evs))
    verdict = driver.ask([req])[0]
    if verdict != "durable":
        k = int(verdict.rsplit(" ", 1)[-1]) if verdict.startswith("violation") else -1
        rep.violate("C16:pointer-outruns-data", f"two threads sharing one Table object, commits overlapping: at the second thread's pointer flip {verdict}; "
                    f"event {meta[k] if 0 <= k < len(meta) else '?'}", {**case, "events": [list(m) for m in meta[max(0, k - 6):k + 2]]})
    shutil.rmtree(path, ignore_errors=True)
    for ext in (".BNAME", ".MARK"):
        try:
            os.remove(path + ext)
        except OSError:
            pass


def _fsync_faults(ctx, rep, base):
    """fsync can FAIL (EIO / ENOSPC at flush time): fail the k-th fsync of a regular file of an operation, for every k — if the pointer
    still advances, no file reachable from the new version may be the one whose flush failed (in-process; no strace needed)"""
    import stat as _stat
    from .. import reader, tablekit
    real = os.fsync
    for op, which in [(o_, w_) for w_ in ("file", "dir") for o_ in ("append", "append2", "delfiles")]:
        k = 0
        while True:
            path = os.path.join(base, f"ff-{which}-{op}-{k}")
            t = tablekit.create(path)
            with t.new_transaction() as tx:
                tx.append_data(tablekit.rows(2, start=0))
                tx.append_data(tablekit.rows(2, start=5))
                tx.commit()
            before = reader.pointer(reader.DirStore(path))
            seen = {"n": 0, "failed_ino": None}

            def failing(fd, seen=seen, k=k):
                try:
                    st = os.fstat(fd)
                    regular = _stat.S_ISREG(st.st_mode) if which == "file" else _stat.S_ISDIR(st.st_mode)
                except OSError:
                    regular, st = False, None
                if regular:
                    i = seen["n"]
                    seen["n"] += 1
                    if i == k:
                        seen["failed_ino"] = st.st_ino
                        raise OSError(5, "injected EIO on fsync")
                return real(fd)
            os.fsync = failing
            raised = None
            try:
                if op == "append":
                    t.append_records(tablekit.rows(1, start=100))
                elif op == "append2":
                    with t.new_transaction() as tx:
                        tx.append_data(tablekit.rows(1, start=100))
                        tx.append_data(tablekit.rows(1, start=200))
                        tx.commit()
                else:
                    with t.new_transaction() as tx:
                        tx.delete_files(["/" + tablekit.data_paths(t)[0]])
                        tx.commit()
            except BaseException as e:      # noqa: BLE001
                raised = type(e).__name__
            finally:
                os.fsync = real
            if seen["failed_ino"] is None:      # fewer than k+1 file fsyncs: the sweep of this operation is complete
                shutil.rmtree(path, ignore_errors=True)
                break
            rep.evaluations += 1
            rep.nontrivial(["fsync-fault", which, op, k])
            rep.distribution[f"fsync-fault:{which}:{op}:{'raise' if raised else 'ok'}"] += 1
            store = reader.DirStore(path)
            after = reader.pointer(store)
            case = {"kind": "fsync-fault", "fsync_of": which, "op": op, "failed_fsync_index": k, "raised": raised}
            if which == "dir":
                # a failed DIRECTORY fsync comes after its rename took effect: whatever the operation then reports, the pointer must name a
                # version whose files are all there
                try:
                    reader.view(path)
                except reader.Broken as e:
                    rep.violate("C16:pointer-names-missing-files-after-a-directory-fsync-failure",
                                f"{op}: directory fsync #{k} failed (EIO) after its rename; the operation {'raised ' + raised if raised else 'succeeded'}; now: {e}", case)
                # …and the NEXT commit through the same handle is as durable as any other: one transient failure must not switch
                # directory fsyncs off for the life of the object. Every directory a file is renamed into is fsynced afterwards.
                renamed_into, synced = [], []
                real_replace, real_rename = os.replace, os.rename

                def rec_replace(a_, b_, *x_, **y_):
                    r_ = real_replace(a_, b_, *x_, **y_)
                    renamed_into.append(os.path.dirname(os.path.realpath(b_)))
                    synced.append(("rename", renamed_into[-1]))
                    return r_

                def rec_fsync(fd):
                    try:
                        if _stat.S_ISDIR(os.fstat(fd).st_mode):
                            synced.append(("fsyncdir", os.path.realpath(os.readlink(f"/proc/self/fd/{fd}"))))
                    except OSError:
                        pass
                    return real(fd)
                os.replace, os.rename, os.fsync = rec_replace, rec_replace, rec_fsync
                try:
                    t.append_records(tablekit.rows(1, start=900))
                    follow = "ok"
                except BaseException as e:      # noqa: BLE001
                    follow = type(e).__name__
                finally:
                    os.replace, os.rename, os.fsync = real_replace, real_rename, real
                if follow == "ok":
                    unsynced = []
                    for i_, (kind_, d_) in enumerate(synced):
                        if kind_ == "rename" and ("fsyncdir", d_) not in synced[i_ + 1:]:
                            unsynced.append(os.path.relpath(d_, os.path.realpath(path)))
                    if unsynced:
                        rep.violate("C16:directory-fsync-skipped-after-an-earlier-failure",
                                    f"{op}: directory fsync #{k} failed once (EIO); the NEXT commit through the same handle renamed files into "
                                    f"{sorted(set(unsynced))} without fsyncing those directories afterwards", case)
                shutil.rmtree(path, ignore_errors=True)
                k += 1
                continue
            if after != before:
                try:
                    reach = reader.reachable(path) | {"metadata/" + after[1], "metadata.version-hint.text"}
                except reader.Broken as e:
                    rep.violate("C16:pointer-names-unreadable-version-after-fsync-failure", f"{op}: fsync #{k} failed; pointer advanced to a version that cannot be read: {e}", case)
                    reach = set()
                for rel in reach:
                    try:
                        ino = os.stat(os.path.join(path, rel)).st_ino
                    except OSError:
                        continue
                    if ino == seen["failed_ino"]:
                        rep.violate("C16:pointer-advanced-over-a-file-whose-fsync-failed",
                                    f"{op}: the fsync of {rel.split('/')[0]}/… failed (EIO), {'the operation raised ' + raised if raised else 'the operation reported success'}, "
                                    f"and the pointer now names a version that reaches that file", case)
            shutil.rmtree(path, ignore_errors=True)
            k += 1


def _write_sizes(ctx, rep, base):
    """`write_file` itself for payload sizes on both sides of every plausible internal threshold (buffer, block, chunk): all bytes
    written, THEN an fsync of that descriptor, THEN the rename, THEN the directory fsync — whatever the size"""
    import stat as _stat
    from datashard.storage_backend import LocalStorageBackend
    root = os.path.join(base, "ws")
    os.makedirs(root)
    be = LocalStorageBackend(root)
    real = {n: getattr(os, n) for n in ("write", "fsync", "replace", "rename")}
    sizes = [0, 1, 4095, 4096, 4097, 65536, (1 << 20) - 1, 1 << 20, (1 << 20) + 1, 3 * (1 << 20) + 17] + ([8 << 20] if ctx.thorough else [])
    for size, short in [(s_, False) for s_ in sizes] + [(s_, True) for s_ in (1, 4097, 65536, (1 << 20) + 1)]:
        for api in ("write_file", "write_json"):
            ev = []

            def w(fd, data, short=short):
                # `short`: the kernel takes only PART of the buffer per call (a legal outcome of write(2): nearly full disk, a signal,
                # payloads beyond 2 GiB) and says so in its return value
                n = real["write"](fd, bytes(data)[: max(1, len(data) // 2)] if short and len(data) > 1 else data)
                ev.append(("write", fd, n))
                return n

            def fs(fd):
                try:
                    isdir = _stat.S_ISDIR(os.fstat(fd).st_mode)
                except OSError:
                    isdir = False
                r = real["fsync"](fd)
                ev.append(("fsyncdir" if isdir else "fsync", fd, 0))
                return r

            def rp(src, dst, *a, **k):
                ev.append(("rename", None, 0))
                return real["replace"](src, dst, *a, **k)
            os.write, os.fsync, os.replace = w, fs, rp
            try:
                if api == "write_file":
                    content = bytes((i * 31 + size) & 0xFF for i in range(min(size, 4096))) * (size // 4096 + 1)
                    content = content[:size]
                    be.write_file(f"metadata/f{size}.bin", content)
                    on_disk = open(os.path.join(root, f"metadata/f{size}.bin"), "rb").read()
                    same = on_disk == content
                else:
                    obj = {"v": "x" * size}
                    be.write_json(f"metadata/j{size}.json", obj)
                    import json as _json
                    try:
                        same = _json.loads(open(os.path.join(root, f"metadata/j{size}.json"), "rb").read()) == obj
                    except ValueError:
                        same = False
            finally:
                os.write, os.fsync, os.replace = real["write"], real["fsync"], real["replace"]
            rep.evaluations += 1
            rep.nontrivial(["write-size", api, size])
            case = {"kind": "write-size", "api": api, "bytes": size, "short_writes": short}
            kinds = [e[0] for e in ev]
            problems = []
            if not same:
                problems.append("the file on disk differs from the payload" + (" (write(2) took only part of the buffer per call and reported it)" if short else ""))
            if "rename" not in kinds:
                problems.append("no rename")
            else:
                ri = kinds.index("rename")
                writes = [i for i, k_ in enumerate(kinds) if k_ == "write"]
                fsyncs = [i for i, k_ in enumerate(kinds) if k_ == "fsync" and i < ri]
                if not fsyncs or (writes and max(w_ for w_ in writes if w_ < ri) > max(fsyncs)):
                    problems.append("no fsync of the content between the last write and the rename")
                if "fsyncdir" not in kinds[ri:]:
                    problems.append("no directory fsync after the rename")
            for p_ in problems:
                rep.violate("C16:write-not-flushed-before-rename", f"{api} of {size} bytes: {p_} (events: {kinds[:12]})", case)
    shutil.rmtree(root, ignore_errors=True)


def _s3_uploads(ctx, rep):
    """object stores have no fsync: what 'content flushed' means there is that each acknowledged PUT carried the whole content. Every
    PUT of {create, append, delete files} broken ONCE after its body went out (a stream body is consumed by then), for both commit
    paths: if the operation is acknowledged, the pointer reaches only objects with their full content (independent reader)."""
    import botocore.exceptions as bx
    from .. import fakes3, reader
    for cas in (True, False):
        for op in ("create", "append", "delfiles"):
            k = 0
            while True:
                with fakes3.S3Env(cas=cas) as env, fakes3.NoSleep():
                    loc = "wh/u"
                    state = {"seen": 0, "armed": False, "hit": None}

                    def hook(phase, opn, key, kw, state=state, k=k):
                        if phase == "before" and opn == "put-body-sent" and state["armed"]:
                            state["seen"] += 1
                            if state["seen"] - 1 == k:
                                state["hit"] = key
                                raise bx.ConnectionClosedError(endpoint_url="https://example.invalid")
                    env.fake.hook = hook
                    if op != "create":
                        t = tablekit.create(loc)
                        t.append_records(tablekit.rows(3))
                    state["armed"] = True
                    try:
                        if op == "create":
                            t = tablekit.create(loc)
                        elif op == "append":
                            t.append_records(tablekit.rows(2, start=50))
                        else:
                            with t.new_transaction() as tx:
                                tx.delete_files(tablekit.data_paths(t)[:1])
                                tx.commit()
                        ack = True
                    except Exception as e:      # noqa: BLE001
                        ack = False
                        err = f"{type(e).__name__}"
                    state["armed"] = False
                    env.fake.hook = None
                    if state["hit"] is None:
                        break               # fewer than k+1 PUTs: sweep done
                    rep.evaluations += 1
                    rep.nontrivial(["s3-upload", cas, op, k])
                    rep.distribution[f"s3-upload:{'ack' if ack else 'raise'}"] += 1
                    case = {"kind": "s3-upload-broken-after-body-sent", "conditional_writes": cas, "op": op, "put_index": k, "key": state["hit"]}
                    if op == "create" and not ack and not any(k_.endswith("metadata.version-hint.text") for k_ in env.fake.objects):
                        k += 1
                        continue            # a creation that failed before publishing anything: no table, nothing to read
                    try:
                        v = reader.view(reader.S3Store(env.fake, loc))
                        reader.reachable(reader.S3Store(env.fake, loc))
                        empties = [k_ for k_, o_ in env.fake.objects.items() if len(o_.data) == 0 and "/.locks/" not in k_ and not k_.endswith(".inflight")]
                        if empties and ack:
                            rep.violate("C16:s3-empty-object-after-acknowledged-write", f"S3 ({'CAS' if cas else 'plain'}) {op}: PUT #{k} ({state['hit']}) broke after the body "
                                        f"went out; the operation was acknowledged and {empties[:2]} are EMPTY objects", case)
                    except Exception as e:      # noqa: BLE001
                        rep.violate("C16:s3-pointer-to-damaged-object", f"S3 ({'CAS' if cas else 'plain'}) {op}: PUT #{k} ({state['hit']}) broke after the body went out; "
                                    f"operation {'acknowledged' if ack else 'failed'}; the table no longer reads: {type(e).__name__}: {str(e)[:100]}", case)
                k += 1
                if k > 40:
                    break


def run(ctx, model_ok):
    rep = Report()
    rep.rule = ("every operation type {create, append, two-append transaction, delete files, expire, delete snapshot, collect} × tables with "
                "{0,1,3} (thorough: 0–8) prior snapshots, each run in a child process under strace; the Lean judge evaluates EVERY prefix of the "
                "real syscall trace at or after the pointer's rename; each written file's event sequence is compared with the model's lowering; "
                "plus every single fsync FAILURE (EIO on the k-th file fsync, all k) of append / two-append / delete commits: the pointer must not "
                "advance over the file whose flush failed; write_file / write_json for payloads of 0 B – 3 MiB around 4 KiB / 64 KiB / 1 MiB: content "
                "fsynced after the last write and before the rename, directory fsynced after it.")
    base = scratch_dir("c16-")
    try:
        priors = [0, 1, 3] if not ctx.thorough else list(range(0, 9))
        import glob
        import re
        from ..util import REPO
        env_names = set()
        for f_ in glob.glob(os.path.join(REPO, "src", "datashard", "*.py")):
            env_names.update(re.findall(r"DATASHARD_[A-Z0-9_]+", open(f_).read()))
        env_ops = [f"append@env:{n_}={v_}" for n_ in sorted(env_names) if not n_.startswith("DATASHARD_S3_") and n_ != "DATASHARD_STORAGE_TYPE"
                   for v_ in ("0", "false", "no")]
        rep.extra["environment_switches_pinned_off"] = sorted({o_.split(":")[1].split("=")[0] for o_ in env_ops})
        for op in ["create", "append", "append2", "delfiles", "expire", "delsnap", "gc", "recreate", "append@tmpfs", "append-prebuilt", "append-prebuilt-requeued"] + env_ops:
            for n in (priors if op not in ("create", "recreate", "append@tmpfs", "append-prebuilt", "append-prebuilt-requeued") and not op.startswith("append@env:") else ([0] if op == "create" else [1])):
                _trace_and_judge(ctx, rep, op, n, base, model_ok)
        _shared_handle_overlap(ctx, rep, base, model_ok)
        _fsync_faults(ctx, rep, base)
        _write_sizes(ctx, rep, base)
        _s3_uploads(ctx, rep)
        rep.exhaustive = True
    finally:
        shutil.rmtree(base, ignore_errors=True)
    return rep
