"""C09 — retained snapshots are immutable and time travel is stable.

Theorems: DSV/Props/C09.lean over DSV/Model/History.lean (metadata algebra of C15 composed with a write-once file plane).
Correspondence: real-table histories over {append (1–2 files), delete files (partial / whole manifests), delete+append in one
transaction, append+expire, expire, delete snapshot (incl. the current one), failed commit (fault before each pre-commit write),
collection, reopen} are replayed step by step on `hist.run`; after every step the retained snapshots, the current pointer, the
manifest structure of every retained snapshot (which manifests are carried by reference, which rewritten) and the number of
unreferenced files are compared with the model.
Oracle: after every step EVERY retained snapshot is re-read twice — by the independent reader (manifest list → manifests →
parquet bytes) and through the library's own file manager — and compared with the content recorded at its commit; lookup by id
and by timestamp and the current pointer after deleting the current snapshot are compared with the harness's own bookkeeping
(most recently committed retained snapshot not newer than t / most recently committed survivor).
"""
import os
import re
import shutil
import time

from .. import driver, reader, tablekit
from ..report import Report
from ..util import scratch_dir
from ..vclock import VClock

ASSUMPTIONS = [
    "snapshot ids are fresh (random 63-bit ids never collide) — hypothesis OpsOk of the theorems",
    "one actor at a time (concurrency is C01/C02/C06's business); the clock is non-decreasing for the timestamp-lookup oracle "
    "(equal timestamps allowed), as lookup_by_timestamp_hist assumes",
    "data files are write-once: a snapshot's rows are determined by its data-file list (re-read byte-for-byte by the oracle anyway)",
]


class Fault(OSError):
    pass


def _listing(store):
    fs = set(store.list())
    return ({f for f in fs if f.startswith("data/") and f.endswith(".parquet")},
            {f for f in fs if f.startswith("metadata/manifests/") and not os.path.basename(f).startswith("manifest_list_")},
            {f for f in fs if f.startswith("metadata/manifests/manifest_list_")})


def _canon_line(line):
    """rename manifest / list names by first appearance"""
    names = {}

    def sub(m):
        k = m.group(0)
        if k not in names:
            names[k] = f"{k[0]}#{sum(1 for x in names if x[0] == k[0])}"
        return names[k]
    return re.sub(r"\b[ml]\d+\b", sub, line)


class Hist:
    def __init__(self, path):
        self.path = path
        self.store = reader.DirStore(path)
        self.snap_ord = {}       # real snapshot id -> ordinal
        self.data_ord = {}       # data path -> ordinal
        self.man_ord = {}        # manifest / list path -> ordinal (only for the real-side rendering)
        self.recorded = {}       # snapshot ordinal -> (files, rows, manifests, mlist, ts, commit index)
        self.commits = 0
        self.next_data = 0
        self.next_snap = 1
        self.tokens = []
        self.unref_ok = True

    def note_new_data(self, before, after, order_hint=None):
        new = sorted(after - before)
        if order_hint:
            new = [p for p in order_hint if p in new] + [p for p in new if p not in order_hint]
        for p in new:
            self.data_ord[p] = self.next_data
            self.next_data += 1
        return new

    def render(self, v):
        def m_name(p, pref):
            if p not in self.man_ord:
                self.man_ord[p] = len(self.man_ord)
            return f"{pref}{self.man_ord[p]}"
        parts = []
        reach_d, reach_m, reach_l = set(), set(), set()
        for s in v["snaps"]:
            ml, manifests, files = reader.snapshot_files(self.store, {"manifest_list": s["mlist"]})
            reach_l.add(ml)
            per = {}
            for p, _e, mp in files:
                per.setdefault(mp, []).append(p)
                reach_d.add(p)
            body = []
            for mp in manifests:
                reach_m.add(mp)
                body.append(f"{m_name(mp, 'm')}(" + "+".join(str(self.data_ord.get(p, '?' + p)) for p in per.get(mp, [])) + ")")
            parts.append(f"{self.snap_ord.get(s['id'], '?')}@{m_name(ml, 'l')}[{'|'.join(body)}]")
        d, m, l = _listing(self.store)
        cur = v["cur"]
        cur_t = "-" if cur is None else ("r" if cur == -1 else str(self.snap_ord.get(cur, "?")))
        return f"cur={cur_t} snaps={','.join(parts)} unref=d:{len(d - reach_d)},m:{len(m - reach_m)},l:{len(l - reach_l)}"


def _inject(t, target):
    """fail the first storage write whose path class is `target` (before the effect)"""
    from ..vstore import path_class
    st = t.storage
    fired = {"n": 0}
    saved = {}
    for mth in ("write_file", "write_file_cas"):
        if not hasattr(st, mth):
            continue
        orig = getattr(st, mth)
        saved[mth] = orig

        def w(p, *a, _o=orig, **k):
            if fired["n"] == 0 and path_class(p) == target:
                fired["n"] += 1
                raise Fault(f"injected before write of {p}")
            return _o(p, *a, **k)
        setattr(st, mth, w)

    def undo():
        for mth in saved:
            try:
                delattr(st, mth)
            except AttributeError:
                pass
    return fired, undo


# directed histories, run first (each is a shape in which a different wrong shortcut would show)
CORPUS = [
    # a delete+append commit is labelled "append" yet drops its parent's manifests; the parent stays retained through a collection
    ["append", "append2", "delete+append:whole", "gc", "append", "gc"],
    # partial delete → rewritten manifest (added count 0) carries survivors; older snapshots expire; collection; re-read
    ["append2", "append2", "delete:partial", "append", "expire:all", "gc", "delete:partial", "gc"],
    # deleting a delete-snapshot repoints an append child past it; collection must still protect the grandparent's files
    ["append", "append", "delete:whole", "append", "delsnap:3", "gc", "delsnap:1", "gc"],
    # equal timestamps + timestamp lookups; delete current repeatedly down to empty, then go on
    ["append@0", "append@0", "append@0", "delcur", "delcur", "delcur", "append", "gc"],
    # expiry exactly at a snapshot's timestamp keeps it (>= cutoff), one below drops nothing more
    ["append@100", "append@100", "append@100", "expire:ts2", "gc", "expire:ts2", "append+expire:ts3", "gc"],
    # a wall clock that steps BACK between commits: the current pointer after deleting the current snapshot follows COMMIT order
    ["append@1000", "append@-600", "append@2000", "delcur", "delcur", "append@-300", "delcur", "gc"],
    # a transaction that re-adds a file older snapshots reference (undoing a delete) together with a missing file: it fails, rolls back
    ["append", "append2", "delete:whole", "readd-fail", "gc", "readd-fail", "append", "gc"],
    # failed commits between real ones, cleaned by collection, then deletes of whole manifests
    ["append", "failed-append", "append2", "failed-delete", "gc", "delete:whole", "failed-append", "gc", "delcur", "gc"],
    # the clock steps back, then an expiry whose cutoff lies between the two: the CURRENT snapshot survives although older than the cutoff;
    # deleting a later current snapshot must come back to it (most recently committed survivor)
    ["append@1000", "append@-600", "expire:ts1", "append@100", "delcur", "gc", "append@100", "delcur"],
    # a bound on the metadata LOG is not a bound on snapshots
    ["prevmax:2", "append", "append", "append", "append", "prevmax:1", "append", "append", "gc"],
    # markers of a COMMITTED transaction left behind (cleanup failed after the commit point), collection days later
    ["append", "append-keepmarkers", "gc-late", "append", "append-keepmarkers", "delete:whole", "gc-late", "gc"],
]


def _one_history(ctx, rep, rng, path, model_ok, hi, script=None):
    with VClock() as clock:
        clock.now_ms = 1000
        t = tablekit.create(path)
        h = Hist(path)
        now = 1000
        trace = []
        steps = len(script) if script else rng.randint(4, 9 if not ctx.thorough else 24)
        for si in range(steps):
            arg = None
            if script:
                kind = script[si]
                dt_ = None
                if "@" in kind:
                    kind, dt_ = kind.split("@")
                if ":" in kind:
                    kind, arg = kind.split(":")
                now = max(1, now + (int(dt_) if dt_ is not None else 1000))
            else:
                kind = rng.choice(["append", "append", "append2", "delete", "delete", "delete+append", "append+expire", "expire", "delsnap",
                                   "delcur", "failed-append", "failed-delete", "gc", "reopen"])
                now += rng.choice([0, 0, 100, 1000])
            clock.now_ms = now
            d0, m0, l0 = _listing(h.store)
            ids_before = [s.snapshot_id for s in t.metadata_manager.refresh().snapshots]
            cur_paths = tablekit.data_paths(t)
            tok = None
            expect_cur = None
            deleted_current = False
            case = {"kind": "history", "history": hi, "trace": trace}
            try:
                if kind == "append":
                    t.append_records(tablekit.rows(rng.randint(1, 3), start=si * 100))
                    tok = f"c:{now}:{h.next_snap}:-:1:-"
                elif kind == "append-keepmarkers":
                    # a commit whose best-effort marker cleanup AFTER the commit point fails: the markers of a COMMITTED transaction stay behind
                    st_ = t.storage
                    od_ = st_.delete_file

                    def nodel(p_, *a_, _o=od_, **k_):
                        if "inflight" in str(p_):
                            raise OSError(5, "injected: marker delete failed")
                        return _o(p_, *a_, **k_)
                    st_.delete_file = nodel
                    try:
                        t.append_records(tablekit.rows(2, start=si * 100))
                    finally:
                        try:
                            del st_.delete_file
                        except AttributeError:
                            st_.delete_file = od_
                    tok = f"c:{now}:{h.next_snap}:-:1:-"
                elif kind == "append2":
                    with t.new_transaction() as tx:
                        tx.append_data(tablekit.rows(1, start=si * 100))
                        tx.append_data(tablekit.rows(2, start=si * 100 + 10))
                        tx.commit()
                    tok = f"c:{now}:{h.next_snap}:-:2:-"
                elif kind in ("delete", "delete+append", "failed-delete"):
                    if not cur_paths:
                        continue
                    victims = rng.sample(cur_paths, rng.randint(1, min(3, len(cur_paths))))
                    if arg in ("partial", "whole"):
                        v0 = reader.view(path)
                        cur_s = [s_ for s_ in v0["snaps"] if s_["id"] == v0["cur"]][0]
                        _ml, _ms, files_ = reader.snapshot_files(h.store, {"manifest_list": cur_s["mlist"]})
                        groups = {}
                        for p_, _e, mp_ in files_:
                            groups.setdefault(mp_, []).append(p_)
                        multi = [g for g in groups.values() if len(g) >= 2]
                        if arg == "partial" and multi:
                            victims = [multi[0][0]]
                        else:
                            victims = list(next(iter(groups.values())))
                    vt = "+".join(str(h.data_ord[v]) for v in victims)
                    form = rng.choice(["/", ""])
                    if kind == "failed-delete":
                        fired, undo = _inject(t, rng.choice(["manifest", "mlist", "meta"]))
                        try:
                            with t.new_transaction() as tx:
                                tx.delete_files([form + v for v in victims])
                                tx.commit()
                            failed = False
                        except Exception:       # noqa: BLE001
                            failed = True
                        finally:
                            undo()
                        if failed:
                            tok = ("f", 0, vt)
                        else:       # the targeted write did not occur (e.g. no manifest rewritten): the commit went through
                            tok = f"c:{now}:{h.next_snap}:-:0:{vt}"
                    else:
                        with t.new_transaction() as tx:
                            tx.delete_files([form + v for v in victims])
                            if kind == "delete+append":
                                tx.append_data(tablekit.rows(1, start=si * 100 + 50))
                            tx.commit()
                        tok = f"c:{now}:{h.next_snap}:-:{1 if kind == 'delete+append' else 0}:{vt}"
                elif kind == "append+expire":
                    cutoff = max(0, now - rng.choice([0, 100, 1000, 5000]))
                    if arg and arg.startswith("ts"):
                        cutoff = h.recorded[int(arg[2:])][4]
                    with t.new_transaction() as tx:
                        tx.append_data(tablekit.rows(1, start=si * 100))
                        tx.expire_snapshots(cutoff)
                        tx.commit()
                    tok = f"c:{now}:{h.next_snap}:{cutoff}:1:-"
                elif kind == "expire":
                    cutoff = max(0, now - rng.choice([0, 100, 1000, 5000]))
                    if arg == "all":
                        cutoff = now + 1
                    elif arg and arg.startswith("ts"):
                        cutoff = h.recorded[int(arg[2:])][4]
                    with t.new_transaction() as tx:
                        tx.expire_snapshots(cutoff)
                        tx.commit()
                    tok = f"e:{cutoff}"
                elif kind in ("delsnap", "delcur"):
                    if not ids_before:
                        continue
                    md = t.metadata_manager.refresh()
                    victim = md.current_snapshot_id if kind == "delcur" else rng.choice(ids_before)
                    if arg is not None:
                        real = [i for i, o in h.snap_ord.items() if o == int(arg) and i in ids_before]
                        if not real:
                            continue
                        victim = real[0]
                    if victim in (None, -1):
                        continue
                    if victim == md.current_snapshot_id:
                        deleted_current = True
                        surv = [i for i in ids_before if i != victim]
                        expect_cur = max(surv, key=lambda i: h.recorded[h.snap_ord[i]][5]) if surv else None
                    t.snapshot_manager.delete_snapshot(victim)
                    tok = f"x:{h.snap_ord[victim]}"
                elif kind == "failed-append":
                    fired, undo = _inject(t, rng.choice(["manifest", "mlist", "meta"]))
                    try:
                        t.append_records(tablekit.rows(2, start=si * 100))
                        failed = False
                    except Exception:       # noqa: BLE001
                        failed = True
                    finally:
                        undo()
                    tok = ("f", 1, "-") if failed else f"c:{now}:{h.next_snap}:-:1:-"
                elif kind == "readd-fail":
                    # every data file some retained snapshot references but the current one does not
                    v0 = reader.view(path)
                    cur_files = set(next((s_["files"] for s_ in v0["snaps"] if s_["id"] == v0["cur"]), []))
                    older = sorted({f_ for s_ in v0["snaps"] for f_ in s_["files"]} - cur_files)
                    if not older:
                        continue
                    from datashard.data_structures import DataFile, FileFormat
                    mk_df = lambda rel: DataFile(file_path="/" + rel, file_format=FileFormat.PARQUET, partition_values={}, record_count=1,
                                                 file_size_in_bytes=max(1, os.path.getsize(os.path.join(path, rel)) if os.path.exists(os.path.join(path, rel)) else 1))
                    try:
                        with t.new_transaction() as tx:
                            tx.append_files([mk_df(older[0])])
                            tx.append_files([mk_df("data/does_not_exist.parquet")])
                            tx.commit()
                        failed = False
                    except Exception:       # noqa: BLE001
                        failed = True
                    if not failed:
                        rep.violate("C09:operation-raises:readd-fail:not-raised", "a transaction naming a missing file committed", case)
                        return
                    tok = ("f", 0, "-")
                elif kind in ("gc", "gc-late"):
                    old = time.time() - (7200 if kind == "gc" else 3 * 86400)       # gc-late: past the marker abandonment window too
                    for r, _d, fs in os.walk(path):
                        for f in fs:
                            try:
                                os.utime(os.path.join(r, f), (old, old))
                            except OSError:
                                pass
                    t.garbage_collect(grace_period_ms=rng.choice([0, 1000]))
                    tok = "g"
                elif kind == "reopen":
                    t = tablekit.load(path)
                    continue
                elif kind == "prevmax":
                    # bound the metadata LOG (previous metadata files kept): says nothing about snapshots
                    import copy
                    b_ = t.metadata_manager.refresh()
                    n_ = copy.deepcopy(b_)
                    n_.properties["write.metadata.previous-versions-max"] = str(arg or 2)
                    t.metadata_manager.commit(b_, n_)
                    continue
            except Exception as e:      # noqa: BLE001
                rep.violate(f"C09:operation-raises:{kind}:{type(e).__name__}", f"{kind} raises {type(e).__name__}: {str(e)[:120]}", case)
                return
            d1, m1, l1 = _listing(h.store)
            # ---- what happened, seen from outside
            try:
                v = reader.view(path)
            except reader.Broken as e:
                trace.append([kind, now])
                rep.violate("C09:retained-snapshot-unreadable", f"after {kind}: {e}", case)
                return
            new_snaps = [s for s in v["snaps"] if s["id"] not in h.snap_ord]
            if isinstance(tok, tuple):      # failed commit: did it leave files behind?
                _f, napp, vt = tok
                left = (d1 - d0) | (m1 - m0) | (l1 - l0)
                if new_snaps:
                    rep.violate("C09:failed-commit-published-a-snapshot", f"{kind}: the commit raised, yet a snapshot appeared", case)
                    return
                base_d = h.next_data
                h.note_new_data(d0, d1)
                h.next_data = base_d + napp      # the model names every data file the failed commit wrote, kept or cleaned
                tok = f"f:{napp}:{vt}:{0 if left else 1}"
                if left:
                    h.unref_ok = False
            order_hint = None
            if new_snaps:
                order_hint = new_snaps[0]["files"]
            h.note_new_data(d0, d1, order_hint)
            for s in new_snaps:
                h.snap_ord[s["id"]] = h.next_snap
                h.recorded[h.next_snap] = (tuple(s["files"]), tuple(s["rows"]), tuple(s["manifests"]), s["mlist"], s["ts"], h.commits)
                h.commits += 1
            if tok.startswith("c:"):
                h.next_snap += 1
            if tok == "g":
                h.unref_ok = True
            trace.append([kind, now, tok])
            h.tokens.append(tok)
            rep.evaluations += 1
            rep.distribution["op:" + kind] += 1
            # ---- oracle 1: every retained snapshot reads back what was recorded at its commit
            lib_fm = t.file_manager
            for s in v["snaps"]:
                o = h.snap_ord[s["id"]]
                rec = h.recorded[o]
                if (tuple(s["files"]), tuple(s["rows"])) != rec[:2]:
                    rep.violate("C09:retained-snapshot-changed",
                                f"after {kind}: snapshot #{o} had {len(rec[0])} files / {len(rec[1])} rows at commit, now {len(s['files'])} / {len(s['rows'])}", case)
                    return
                if (tuple(s["manifests"]), s["mlist"]) != rec[2:4]:
                    rep.violate("C09:retained-snapshot-manifests-changed", f"after {kind}: snapshot #{o} now names other manifests / another list", case)
                    return
                if len(v["snaps"]) > 1:
                    rep.nontrivial(["c09", hi, si, o])
                # through the library's own readers (lookup by id, then its manifest list)
                try:
                    ls = t.snapshot_by_id(s["id"])
                    if ls is None or ls.snapshot_id != s["id"] or ls.timestamp_ms != rec[4] or ls.manifest_list.lstrip("/") != rec[3]:
                        rep.violate("C09:lookup-by-id-wrong", f"after {kind}: snapshot_by_id(#{o}) returned {ls}", case)
                        return
                    lib_files = []
                    for mf in lib_fm.read_manifest_list_file(ls.manifest_list.lstrip("/")):
                        for df in lib_fm.read_manifest_file(mf.manifest_path.lstrip("/")):
                            lib_files.append(df.file_path.lstrip("/"))
                    if tuple(lib_files) != rec[0]:
                        rep.violate("C09:retained-snapshot-changed", f"after {kind}: library read of snapshot #{o} lists other files than at commit", case)
                        return
                except Exception as e:      # noqa: BLE001
                    rep.violate("C09:retained-snapshot-unreadable", f"after {kind}: library read of snapshot #{o}: {type(e).__name__}: {str(e)[:100]}", case)
                    return
            # ---- oracle 1a: a snapshot leaves the table only through an expiry or an explicit deletion (no retention count is ever configured here)
            if kind not in ("expire", "append+expire", "delsnap", "delcur"):
                still_ = {s["id"] for s in v["snaps"]}
                gone_ = [h.snap_ord[i_] for i_ in ids_before if i_ not in still_]
                if gone_:
                    rep.violate("C09:snapshot-vanished-without-expiry-or-deletion", f"after {kind}: snapshots #{gone_} are no longer retained", case)
                    return
            # ---- oracle 1b: an expiry removes only snapshots OLDER than its cutoff (and never the current one)
            if kind in ("expire", "append+expire") and tok and tok[0] in "ce":
                cutoff_ = int(tok.split(":")[1]) if tok.startswith("e:") else int(tok.split(":")[3])
                still = {s["id"] for s in v["snaps"]}
                for i_ in ids_before:
                    if i_ not in still and h.recorded[h.snap_ord[i_]][4] >= cutoff_:
                        rep.violate("C09:expiry-dropped-a-snapshot-not-older-than-the-cutoff",
                                    f"expire_snapshots({cutoff_}) removed snapshot #{h.snap_ord[i_]} whose timestamp is {h.recorded[h.snap_ord[i_]][4]}", case)
                        return
            # ---- oracle 2: lookup by timestamp = most recently committed retained snapshot not newer than t
            retained = [(h.recorded[h.snap_ord[s["id"]]][4], h.recorded[h.snap_ord[s["id"]]][5], s["id"]) for s in v["snaps"]]
            by_commit = sorted(retained, key=lambda x: x[1])
            monotone = all(a[0] <= b[0] for a, b in zip(by_commit, by_commit[1:]))
            for q in sorted({ts for ts, _c, _i in retained} | {ts - 1 for ts, _c, _i in retained} | {now + 5, 0}):
                cands = [(c, i) for ts, c, i in retained if ts <= q]
                want = max(cands)[1] if cands else None
                got = t.time_travel(timestamp=q)
                goti = None if got is None else got.snapshot_id
                rep.evaluations += 1
                if not monotone and goti != want and not getattr(rep, "_stepback_reported", False):
                    # the statement read literally ("the most recently committed retained snapshot not newer than the requested time")
                    # fails here: a listed finding (known_findings.json), Lean witness lookup_by_timestamp_stepback_refuted
                    rep._stepback_reported = True
                    rep.violate("C09:timestamp-lookup-after-clock-stepback-prefers-later-timestamp",
                                f"after {kind} (clock stepped back between commits): time_travel(timestamp={q}) → #{h.snap_ord.get(goti)} ; "
                                f"most recently committed retained snapshot not newer: #{h.snap_ord.get(want)}", case)
                if not monotone:
                    # a clock that stepped back: "most recently committed" and "latest timestamp" part ways; demand only what both readings
                    # share — an answer exists iff some retained snapshot is not newer than q, it is not newer than q, and no retained
                    # snapshot lies strictly between it and q
                    ts_of = {i: ts for ts, _c, i in retained}
                    ok = (goti is None) == (not cands) and (goti is None or (ts_of.get(goti, q + 1) <= q and not any(ts_of[goti] < ts <= q for ts, _c, _i in retained)))
                    if not ok:
                        rep.violate("C09:lookup-by-timestamp-wrong", f"after {kind} (non-monotonic clock): time_travel(timestamp={q}) → #{h.snap_ord.get(goti)}", case)
                        return
                    continue
                if goti != want:
                    rep.violate("C09:lookup-by-timestamp-wrong",
                                f"after {kind}: time_travel(timestamp={q}) → #{h.snap_ord.get(goti)} ; most recently committed retained snapshot not newer: #{h.snap_ord.get(want)}", case)
                    return
            # ---- oracle 3: deleting the current snapshot repoints to the most recently committed survivor
            if deleted_current:
                cur = v["cur"]
                if (expect_cur is None and cur not in (None, -1)) or (expect_cur is not None and cur != expect_cur):
                    rep.violate("C09:delete-current-repoints-wrong",
                                f"deleting the current snapshot left current=#{h.snap_ord.get(cur)}; most recently committed survivor: #{h.snap_ord.get(expect_cur)}", case)
                    return
            # ---- tie with the model
            if model_ok:
                m = driver.ask(["hist.run " + " ".join(h.tokens)])[0]
                im = h.render(v)
                rep.corr_cases += 1
                a, b = _canon_line(m), _canon_line(im)
                if not h.unref_ok:
                    a, b = a.split(" unref=")[0], b.split(" unref=")[0]
                if a != b:
                    rep.diverge("hist.run (history of commits / expiry / deletion / failed commits / collection)", {"ops": list(h.tokens)}, a, b)
                    return
        if hi == 0 and h.tokens:
            rep.sample({"history_ops": list(h.tokens)})


def run(ctx, model_ok):
    rep = Report()
    rep.rule = ("6 directed histories (delete+append over a retained parent, partial delete → rewritten manifest → expiry → collection, deleting "
                "a delete-snapshot under an append child, equal timestamps and delete-current down to empty, expiry exactly at a snapshot's "
                "timestamp, failed commits between real ones) then random real-table histories of 4–9 (thorough –24) operations over {append 1–2 files, delete 1–3 files, delete+append, append+expire, "
                "expire, delete snapshot, delete CURRENT snapshot, failed append / delete (fault before the manifest, manifest-list or metadata "
                "write), collection (grace 0 / 1 s on aged files), reopen} with equal and increasing timestamps; after every step every retained "
                "snapshot is re-read by the independent reader and through the library and compared with the record made at its commit; "
                "timestamp lookups at every retained timestamp ±1; non-trivial = a retained snapshot re-read while ≥2 are retained.")
    rng = ctx.rng("hist")
    base = scratch_dir("c09-")
    try:
        for ci, script in enumerate(CORPUS):
            p = os.path.join(base, f"c{ci}")
            _one_history(ctx, rep, rng, p, model_ok, -1 - ci, script=script)
            rep.distribution["corpus-history"] += 1
            shutil.rmtree(p, ignore_errors=True)
        for hi in range(ctx.budget(120, 1500)):
            p = os.path.join(base, f"h{hi}")
            _one_history(ctx, rep, rng, p, model_ok, hi)
            shutil.rmtree(p, ignore_errors=True)
    finally:
        shutil.rmtree(base, ignore_errors=True)
    return rep
