"""C08 — a stale lock holder or delayed pointer write cannot lose an update on S3.

Theorems: DSV/Props/C08.lean (ack_replaced_validated with NO assumption on the lock, lost_lock_is_conflict,
two_reads_refuted).  Correspondence / oracle: 2–3 real committers on the in-memory CAS S3 with (a) a lock granting
everyone, (b) the real CAS lock with lease lapses and takeovers injected by the scheduler; delayed conditional PUTs are
late-scheduled pointer writes.  Same trace acceptance and serializability oracle as C01.
"""
import shutil

from .. import driver, sched
from ..report import Report
from ..util import scratch_dir
from . import c01

ASSUMPTIONS = c01.ASSUMPTIONS + ["a delayed (in-flight) conditional PUT is modelled as its effect taking place late — S3 applies a PUT atomically at one instant"]

# model configuration of the code under test with a lock that gives no exclusion
NOLOCK_CFG = "cas=1 excl=0 strict=1 single=1"


def _between_validate_and_etag(rng):
    """actor 1 runs up to and including its validation read, then actor 2 commits completely, then actor 1 goes on"""
    def choose(s, ready):
        # actor 1's reads of the pointer: base read (1st), validation read (2nd, under the lock)
        a1_hint_reads = len([1 for a, w in s.trace if a == 1 and w in ("read_file hint", "read_file_with_etag hint")])
        a1_meta_reads = len([1 for a, w in s.trace if a == 1 and w == "read_file meta"])
        if (a1_hint_reads < 2 or a1_meta_reads < 2) and 1 in ready:
            return 1
        if 2 in ready:
            return 2
        return sorted(ready)[0]
    return choose


def _other_commits_after_k(k):
    """actor 1 passes k gated operations, then actor 2 commits completely, then actor 1 goes on"""
    def mk(rng):
        def choose(s, ready):
            n1 = len([1 for a, _w in s.trace if a == 1])
            if n1 < k and 1 in ready:
                return 1
            if 2 in ready:
                return 2
            return sorted(ready)[0]
        return choose
    return mk


def _lease_lapses_after_validation(rng, env):
    """actor 1 (holding the real lock) runs up to and including its validation read; its lease then lapses (the lock object is
    back-dated past the lease); actor 2 takes the lock over and enters its critical section; actor 1 resumes at its fencing check
    while 2 holds the lock; then 2 goes on"""
    import datetime as _dt
    st = {"aged": False}

    def choose(s, ready):
        tr1 = [w for a, w in s.trace if a == 1]
        validated = "lock.acquire" in tr1 and "read_file meta" in tr1[tr1.index("lock.acquire"):]
        if not validated and 1 in ready:
            return 1
        tr2 = [w for a, w in s.trace if a == 2]
        b_inside = "lock.acquire" in tr2 and "read_file meta" in tr2[tr2.index("lock.acquire"):]
        if not b_inside and 2 in ready:
            # keep the lock object stale until actor 2 owns it (actor 1's renewals are not scheduled in this window)
            if "lock.acquire" not in tr2 or tr2[-1] == "lock.acquire":
                for k, o in env.fake.objects.items():
                    if k.endswith(".locks/metadata.lock"):
                        o.mtime = o.mtime - _dt.timedelta(seconds=120)
            return 2
        # actor 2 now holds the lock inside its critical section: actor 1 resumes at its fencing check
        if 1 in ready:
            return 1
        return sorted(ready)[0]
    return choose


def _legacy_pointer(ctx, rep):
    """a table written by an old release (pointer holds a bare version number, files named vN.metadata.json), first accesses by the
    current code: committer 1 OPENS the table and appends, with committer 2's whole open-and-append placed before each S3 request of
    committer 1 (real lock). Every acknowledged append is reflected exactly once — whatever any code path writes to the pointer."""
    import re as _re
    from .. import fakes3, reader, tablekit
    k = 0
    while k < 80:
        with fakes3.S3Env() as env, fakes3.NoSleep():
            loc = "wh/legacy"
            t0 = tablekit.create(loc)
            for i in range(3):
                t0.append_records(tablekit.rows(1, start=100 + i, tag="init"))
            last = 0
            for k_ in list(env.fake.objects):
                m_ = _re.match(r"^(.*/metadata/)v(\d+)-[0-9a-f]+\.metadata\.json$", k_)
                if m_:
                    env.fake.objects[f"{m_.group(1)}v{m_.group(2)}.metadata.json"] = env.fake.objects.pop(k_)
                    last = max(last, int(m_.group(2)))
            env.fake.put_object(Bucket="bkt", Key=f"{loc}/metadata.version-hint.text", Body=str(last).encode())
            del t0
            store = reader.S3Store(env.fake, loc)
            try:
                reader.view(store)
            except Exception as e:      # noqa: BLE001
                rep.notes.append(f"legacy layout not readable by the independent reader: {e}")
                return
            S = sched.Sched(_other_commits_after_k(k)(None), watchdog_s=40)

            def hook(phase, op, key, kw):
                if phase == "before" and S.actor() is not None and op not in ("put-body-sent", "body-read", "list-page"):
                    S.gate(f"s3.{op}")
            env.fake.hook = hook
            rows = {1: tablekit.rows(1, start=1000, tag="a1_"), 2: tablekit.rows(1, start=2000, tag="a2_")}

            def body(a):
                def fn():
                    h = tablekit.load(loc)
                    return h.append_records(rows[a])
                return fn
            restore = c01._patch_sleep(S)
            try:
                with c01._NoBackoff(S):
                    res = S.run({1: body(1), 2: body(2)})
            except sched.Stuck as e:
                rep.notes.append(f"legacy-pointer case k={k} stuck: {e}")
                break
            finally:
                restore()
                env.fake.hook = None
            gates1 = len([1 for a, _w in S.trace if a == 1])
            rep.evaluations += 1
            rep.nontrivial(["legacy-pointer", k])
            rep.distribution["legacy-pointer"] += 1
            case = {"kind": "legacy-pointer-first-access", "other_commits_after_request": k, "schedule": list(S.schedule)[:80]}
            try:
                v = reader.view(store)
            except Exception as e:      # noqa: BLE001
                rep.violate("C08:table-unreadable-after-legacy-first-access", f"{type(e).__name__}: {str(e)[:100]}", case)
                k += 1
                continue
            for a in (1, 2):
                ok = res[a][0] == "ok" and res[a][1] is not False
                n = sum(v["rows"].count(reader.rowkey(r)) for r in rows[a])
                if ok and n != 1:
                    rep.violate("C08:lost-update:acknowledged-append", f"legacy table, committer 2's open+append placed before request #{k} of committer 1: the acknowledged "
                                f"append of committer {a} is reflected {n}/1 times", case)
                if not ok and n:
                    rep.violate("C08:anomaly:append", f"legacy table: append of committer {a} raised ({type(res[a][1]).__name__}) but is reflected", case)
            if k >= gates1:
                break
        k += 1 if (ctx.thorough or ctx.intensify) else 2


def _lease_lapses_taken_over_and_released(rng, env):
    """actor 1 (holding the real lock) runs up to and including its validation read; its lease lapses; actor 2 takes the lock over and
    RELEASES it again without moving the pointer; only then actor 1 resumes at its fencing check: the lock object is gone"""
    import datetime as _dt

    def choose(s, ready):
        tr1 = [w for a, w in s.trace if a == 1]
        validated = "lock.acquire" in tr1 and "read_file meta" in tr1[tr1.index("lock.acquire"):]
        if not validated and 1 in ready:
            return 1
        if 2 in ready:
            tr2 = [w for a, w in s.trace if a == 2]
            if "lock.acquire" not in tr2 or tr2[-1] == "lock.acquire":
                for k, o in env.fake.objects.items():
                    if k.endswith(".locks/metadata.lock"):
                        o.mtime = o.mtime - _dt.timedelta(seconds=120)
            return 2
        return sorted(ready)[0]
    return choose


def cases(ctx):
    rng = ctx.rng("cases")
    out = []
    for kinds in (["append", "append"], ["delsnap", "append"], ["delfiles", "append"]):
        out.append({"backend": "s3cas", "topology": "separate", "clock": "real", "actors": 2, "kinds": kinds, "lock": "none",
                    "chooser": _between_validate_and_etag, "model_cfg": NOLOCK_CFG})
    # the real lock: actor 1 validates, its lease lapses, actor 2 takes the lock over and commits, actor 1 resumes at its fencing check
    for kinds in (["append", "append"], ["delsnap", "append"], ["append", "expire"]):
        out.append({"backend": "s3cas", "topology": "separate", "clock": "real", "actors": 2, "kinds": kinds, "lock": "real",
                    "chooser": _lease_lapses_after_validation, "chooser_takes_env": True, "model_cfg": NOLOCK_CFG, "strict_fence": True})
    # the lock is taken over and released again (nothing committed) while actor 1 sits between validation and its fence
    for kinds in (["append", "locktouch"], ["delfiles", "locktouch"]):
        out.append({"backend": "s3cas", "topology": "separate", "clock": "real", "actors": 2, "kinds": kinds, "lock": "real",
                    "chooser": _lease_lapses_taken_over_and_released, "chooser_takes_env": True, "no_model": True})
    # the same takeover, and from then on the superseded committer cannot READ the lock object (503s): its fence must fail closed
    out.append({"backend": "s3cas", "topology": "separate", "clock": "real", "actors": 2, "kinds": ["append", "append"], "lock": "real",
                "chooser": _lease_lapses_after_validation, "chooser_takes_env": True, "model_cfg": NOLOCK_CFG, "lock_get_fault_actor": 1, "no_model": True, "strict_fence": True})
    # the pointer object is missing (lost hint): both committers recover by listing; the commit point must still be create-if-absent
    for lock in ("none", "none", "none", "real"):
        out.append({"backend": "s3cas", "topology": "separate", "clock": "real", "actors": 2, "kinds": ["append", "append"], "lock": lock,
                    "drop_hint": True, "no_model": True})
    for k in range(0, 60, 1 if (ctx.thorough or ctx.intensify) else 3):
        out.append({"backend": "s3cas", "topology": "separate", "clock": "real", "actors": 2, "kinds": ["append", "append"], "lock": "none",
                    "drop_hint": True, "no_model": True, "chooser": _other_commits_after_k(k)})
    # hint present, no exclusion, scheduling points at S3 request granularity: the other committer's whole commit before each request
    for k in range(0, 90, 1 if (ctx.thorough or ctx.intensify) else 3):
        out.append({"backend": "s3cas", "topology": "separate", "clock": "real", "actors": 2, "kinds": ["append", "append"], "lock": "none",
                    "gate_requests": True, "no_model": True, "chooser": _other_commits_after_k(k)})
    # the conditional pointer PUT of committer 1 times out in flight (no effect); the other committer's whole commit before each request
    for k in range(0, 90, 1 if (ctx.thorough or ctx.intensify) else 3):
        out.append({"backend": "s3cas", "topology": "separate", "clock": "real", "actors": 2, "kinds": ["append", "append"], "lock": "none",
                    "gate_requests": True, "hint_put_fault": True, "no_model": True, "chooser": _other_commits_after_k(k)})
    # ONE writer object committing twice in a row; the other committer's whole commit before each request of the pair (no exclusion, and
    # with the real lock)
    for lock in ("none", "real"):
        for k in range(0, 150, 1 if (ctx.thorough or ctx.intensify) else 4):
            out.append({"backend": "s3cas", "topology": "separate", "clock": "real", "actors": 2, "kinds": ["append2", "append"], "lock": lock,
                        "gate_requests": True, "no_model": True, "chooser": _other_commits_after_k(k)})
    # a committer whose fencing check fails must report a conflict
    out.append({"backend": "s3cas", "topology": "separate", "clock": "real", "actors": 2, "kinds": ["append", "append"], "lock": "none",
                "held_script": {1: [False, True, True]}, "model_cfg": NOLOCK_CFG})
    for _ in range(ctx.budget(30, 1200)):
        actors = rng.choice([2, 2, 3])
        lock = rng.choice(["none", "none", "takeover", "real"])
        out.append({"backend": "s3cas", "topology": "separate", "clock": rng.choice(["frozen", "real"]), "actors": actors, "lock": lock,
                    "kinds": [rng.choice(["append", "append", "delsnap", "delfiles", "expire"]) for _ in range(actors)],
                    "model_cfg": NOLOCK_CFG if lock in ("none", "takeover") else None})
    for i, c in enumerate(out):
        c["id"] = i
    return out


def run(ctx, model_ok):
    rep = Report()
    rep.rule = ("2–3 committers on the in-memory CAS S3; lock ∈ {grants everyone, real CAS lock, real CAS lock with lease lapses injected "
                "while a holder is inside its critical section}; directed schedule 'a commit lands between the validation read and the "
                "conditional PUT' first; fencing-failure script. Trace acceptance by the Lean model with exclusive=false + serializability oracle.")
    base = scratch_dir("c08-")
    try:
        _legacy_pointer(ctx, rep)
        for c in cases(ctx):
            try:
                before = len(rep.violations)
                c01.run_case(ctx, rep, c, base, model_ok)
                for v in rep.violations[before:]:
                    v["signature"] = v["signature"].replace("C01:", "C08:")
                    if c.get("lock") == "none" and "not reflected" in v["what"]:
                        v["signature"] = "C08:commit-between-validation-read-and-etag-read-overwritten"
            except sched.Stuck as e:
                rep.notes.append(f"case {c['id']} stuck: {e}")
                rep.distribution["stuck"] += 1
    finally:
        shutil.rmtree(base, ignore_errors=True)
    return rep
