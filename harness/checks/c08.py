"""C08 — a stale lock holder or delayed pointer write cannot lose an update on S3.

Theorems: DSV/Props/C08.lean (ack_replaced_validated with NO assumption on the lock, lost_lock_is_conflict,
two_reads_refuted).  Correspondence / oracle: 2–3 real committers on the in-memory CAS S3 with (a) a lock granting
everyone, (b) the real CAS lock with lease lapses and takeovers injected by the scheduler; delayed conditional PUTs are
late-scheduled pointer writes.  Same trace acceptance and serializability oracle as C01.
"""
import shutil

from .. import driver, sched
from ..report import Report
from ..util import scratch_dir
from . import c01

ASSUMPTIONS = c01.ASSUMPTIONS + ["a delayed (in-flight) conditional PUT is modelled as its effect taking place late — S3 applies a PUT atomically at one instant"]

# model configuration of the code under test with a lock that gives no exclusion
NOLOCK_CFG = "cas=1 excl=0 strict=1 single=1"


def _between_validate_and_etag(rng):
    """actor 1 runs up to and including its validation read, then actor 2 commits completely, then actor 1 goes on"""
    def choose(s, ready):
        # actor 1's reads of the pointer: base read (1st), validation read (2nd, under the lock)
        a1_hint_reads = len([1 for a, w in s.trace if a == 1 and w in ("read_file hint", "read_file_with_etag hint")])
        a1_meta_reads = len([1 for a, w in s.trace if a == 1 and w == "read_file meta"])
        if (a1_hint_reads < 2 or a1_meta_reads < 2) and 1 in ready:
            return 1
        if 2 in ready:
            return 2
        return sorted(ready)[0]
    return choose


def _other_commits_after_k(k):
    """actor 1 passes k gated operations, then actor 2 commits completely, then actor 1 goes on"""
    def mk(rng):
        def choose(s, ready):
            n1 = len([1 for a, _w in s.trace if a == 1])
            if n1 < k and 1 in ready:
                return 1
            if 2 in ready:
                return 2
            return sorted(ready)[0]
        return choose
    return mk


def _lease_lapses_after_validation(rng, env):
    """actor 1 (holding the real lock) runs up to and including its validation read; its lease then lapses (the lock object is
    back-dated past the lease); actor 2 takes the lock over and enters its critical section; actor 1 resumes at its fencing check
    while 2 holds the lock; then 2 goes on"""
    import datetime as _dt
    st = {"aged": False}

    def choose(s, ready):
        tr1 = [w for a, w in s.trace if a == 1]
        validated = "lock.acquire" in tr1 and "read_file meta" in tr1[tr1.index("lock.acquire"):]
        if not validated and 1 in ready:
            return 1
        tr2 = [w for a, w in s.trace if a == 2]
        b_inside = "lock.acquire" in tr2 and "read_file meta" in tr2[tr2.index("lock.acquire"):]
        if not b_inside and 2 in ready:
            # keep the lock object stale until actor 2 owns it (actor 1's renewals are not scheduled in this window)
            if "lock.acquire" not in tr2 or tr2[-1] == "lock.acquire":
                for k, o in env.fake.objects.items():
                    if k.endswith(".locks/metadata.lock"):
                        o.mtime = o.mtime - _dt.timedelta(seconds=120)
            return 2
        # actor 2 now holds the lock inside its critical section: actor 1 resumes at its fencing check
        if 1 in ready:
            return 1
        return sorted(ready)[0]
    return choose


def cases(ctx):
    rng = ctx.rng("cases")
    out = []
    for kinds in (["append", "append"], ["delsnap", "append"], ["delfiles", "append"]):
        out.append({"backend": "s3cas", "topology": "separate", "clock": "real", "actors": 2, "kinds": kinds, "lock": "none",
                    "chooser": _between_validate_and_etag, "model_cfg": NOLOCK_CFG})
    # the real lock: actor 1 validates, its lease lapses, actor 2 takes the lock over and commits, actor 1 resumes at its fencing check
    for kinds in (["append", "append"], ["delsnap", "append"], ["append", "expire"]):
        out.append({"backend": "s3cas", "topology": "separate", "clock": "real", "actors": 2, "kinds": kinds, "lock": "real",
                    "chooser": _lease_lapses_after_validation, "chooser_takes_env": True, "model_cfg": NOLOCK_CFG, "strict_fence": True})
    # the same takeover, and from then on the superseded committer cannot READ the lock object (503s): its fence must fail closed
    out.append({"backend": "s3cas", "topology": "separate", "clock": "real", "actors": 2, "kinds": ["append", "append"], "lock": "real",
                "chooser": _lease_lapses_after_validation, "chooser_takes_env": True, "model_cfg": NOLOCK_CFG, "lock_get_fault_actor": 1, "no_model": True, "strict_fence": True})
    # the pointer object is missing (lost hint): both committers recover by listing; the commit point must still be create-if-absent
    for lock in ("none", "none", "none", "real"):
        out.append({"backend": "s3cas", "topology": "separate", "clock": "real", "actors": 2, "kinds": ["append", "append"], "lock": lock,
                    "drop_hint": True, "no_model": True})
    for k in range(0, 60, 1 if (ctx.thorough or ctx.intensify) else 3):
        out.append({"backend": "s3cas", "topology": "separate", "clock": "real", "actors": 2, "kinds": ["append", "append"], "lock": "none",
                    "drop_hint": True, "no_model": True, "chooser": _other_commits_after_k(k)})
    # hint present, no exclusion, scheduling points at S3 request granularity: the other committer's whole commit before each request
    for k in range(0, 90, 1 if (ctx.thorough or ctx.intensify) else 3):
        out.append({"backend": "s3cas", "topology": "separate", "clock": "real", "actors": 2, "kinds": ["append", "append"], "lock": "none",
                    "gate_requests": True, "no_model": True, "chooser": _other_commits_after_k(k)})
    # the conditional pointer PUT of committer 1 times out in flight (no effect); the other committer's whole commit before each request
    for k in range(0, 90, 1 if (ctx.thorough or ctx.intensify) else 3):
        out.append({"backend": "s3cas", "topology": "separate", "clock": "real", "actors": 2, "kinds": ["append", "append"], "lock": "none",
                    "gate_requests": True, "hint_put_fault": True, "no_model": True, "chooser": _other_commits_after_k(k)})
    # a committer whose fencing check fails must report a conflict
    out.append({"backend": "s3cas", "topology": "separate", "clock": "real", "actors": 2, "kinds": ["append", "append"], "lock": "none",
                "held_script": {1: [False, True, True]}, "model_cfg": NOLOCK_CFG})
    for _ in range(ctx.budget(30, 1200)):
        actors = rng.choice([2, 2, 3])
        lock = rng.choice(["none", "none", "takeover", "real"])
        out.append({"backend": "s3cas", "topology": "separate", "clock": rng.choice(["frozen", "real"]), "actors": actors, "lock": lock,
                    "kinds": [rng.choice(["append", "append", "delsnap", "delfiles", "expire"]) for _ in range(actors)],
                    "model_cfg": NOLOCK_CFG if lock in ("none", "takeover") else None})
    for i, c in enumerate(out):
        c["id"] = i
    return out


def run(ctx, model_ok):
    rep = Report()
    rep.rule = ("2–3 committers on the in-memory CAS S3; lock ∈ {grants everyone, real CAS lock, real CAS lock with lease lapses injected "
                "while a holder is inside its critical section}; directed schedule 'a commit lands between the validation read and the "
                "conditional PUT' first; fencing-failure script. Trace acceptance by the Lean model with exclusive=false + serializability oracle.")
    base = scratch_dir("c08-")
    try:
        for c in cases(ctx):
            try:
                before = len(rep.violations)
                c01.run_case(ctx, rep, c, base, model_ok)
                for v in rep.violations[before:]:
                    v["signature"] = v["signature"].replace("C01:", "C08:")
                    if c.get("lock") == "none" and "not reflected" in v["what"]:
                        v["signature"] = "C08:commit-between-validation-read-and-etag-read-overwritten"
            except sched.Stuck as e:
                rep.notes.append(f"case {c['id']} stuck: {e}")
                rep.distribution["stuck"] += 1
    finally:
        shutil.rmtree(base, ignore_errors=True)
    return rep
