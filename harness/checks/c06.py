"""C06 — garbage collection is safe against concurrently committing transactions.

Theorems: DSV/Props/C06.lean (gc_concurrent_safe, inflight_protected, metadata_first_refuted) over DSV/Model/GcRace.lean.
Correspondence / oracle: one real garbage_collect() interleaved by the scheduler with 1–2 real transactions (appends whose
data files are aged past the grace period before they commit; retries; rollbacks): the abstract trace is replayed on the
model (`gcrace.trace`, same committed / deleted sets) and every file of every snapshot of the final metadata must exist.
"""
import os
import shutil
import time

from .. import driver, reader, sched, tablekit, vstore
from ..report import Report
from ..util import scratch_dir
from . import c01

ASSUMPTIONS = [
    "the grace period (60 s here) exceeds the duration of the collection run; a live transaction is younger than the abandonment timeout",
    "files written during the run are young; files written before it may be on either side of the grace period",
]

# read order of the collector in the code under test: markers first (repaired) = "1", metadata first (as found) = "0"
MARKERS_FIRST = "1"

GRACE_MS = 60_000


def _age(path, rel, seconds=7200):
    t = time.time() - seconds
    os.utime(os.path.join(path, rel), (t, t))


def _collector_first_reads(name_of):
    """chooser: collector runs until it has read the metadata (as-found order: before the markers), then the transaction
    commits completely, then the collector goes on — the window of the defect"""
    def mk(rng):
        def choose(s, ready):
            g_meta = any(a == 9 and w == "read_file meta" for a, w in s.trace)
            g_markers = any(a == 9 and w == "list_files marker" for a, w in s.trace)
            first_done = g_meta if MARKERS_FIRST == "0" else g_markers
            if not first_done and 9 in ready:
                return 9
            for a in sorted(ready):
                if a != 9:
                    return a
            return 9
        return choose
    return mk


def _retry_then_gc_after(k):
    """transaction 1 prepares its manifests on its base; transaction 2 then commits completely (so 1 will lose the race and retry);
    1 goes on until it has passed k gated operations in total; then the WHOLE collection runs; then the rest"""
    def mk(rng):
        def choose(s, ready):
            n1 = len([1 for a, _w in s.trace if a == 1])
            prepared = any(a == 1 and w == "write_file manifest" for a, w in s.trace)
            if not prepared and 1 in ready:
                return 1
            if 2 in ready:
                return 2
            if n1 < k and 1 in ready:
                return 1
            if 9 in ready:
                return 9
            return sorted(ready)[0]
        return choose
    return mk


def _in_order(order):
    """whole actors one after another in the given order"""
    def mk(rng):
        def choose(s, ready):
            for a in order:
                if a in ready:
                    return a
            return sorted(ready)[0]
        return choose
    return mk


def _gc_after_k(k):
    """transaction 1 passes k gated operations of its commit, then the WHOLE collection runs, then the rest"""
    def mk(rng):
        def choose(s, ready):
            n1 = len([1 for a, _w in s.trace if a == 1])
            if n1 < k and 1 in ready:
                return 1
            if 9 in ready:
                return 9
            return sorted(ready)[0]
        return choose
    return mk


def run_case(ctx, rep, case, base, model_ok):
    rng = ctx.rng("case", case["id"])
    path = os.path.join(base, f"t{case['id']}")
    t0 = tablekit.create(path)
    t0.append_records(tablekit.rows(2, tag="init"))
    if case.get("kind") == "delete-partial":
        with t0.new_transaction() as tx0:
            tx0.append_data(tablekit.rows(1, start=60, tag="m1_"))
            tx0.append_data(tablekit.rows(1, start=61, tag="m2_"))
            tx0.commit()
    # an old orphan that SHOULD be collected (non-vacuity)
    with open(os.path.join(path, "data/old_orphan.parquet"), "wb") as f:
        f.write(b"x")
    _age(path, "data/old_orphan.parquet")
    store = reader.DirStore(path)
    init_files = {rel for rel in store.list() if rel.startswith("data/") or rel.startswith("metadata/manifests/")}
    for rel in init_files:
        if rng.random() < 0.7:
            _age(path, rel)
    ids = {}            # table-relative path -> model file id

    def fid(rel):
        rel = rel.lstrip("/")
        if rel not in ids:
            ids[rel] = len(ids) + 1
        return ids[rel]
    reach0 = reader.reachable(path)
    init_tok = ",".join(f"{fid(r)}/{1 if (time.time() - store.mtime(r)) * 1000 > case.get("grace", GRACE_MS) else 0}" for r in sorted(init_files)) or "-"
    committed_tok = ",".join(str(fid(r)) for r in sorted(reach0 & init_files)) or "-"
    # transactions: prepared (marker + data file written, possibly aged) before the scheduled part
    handles, txs, prefix = {}, {}, []
    for a in range(1, case["txs"] + 1):
        h = tablekit.load(path)
        tx = h.new_transaction().begin()
        if case.get("marker_fault"):
            # the FIRST in-flight marker write of this transaction fails (EIO): registering the marker is what protects the file
            mf = {"n": 0}
            o_wf = h.storage.write_file

            def failing_wf(p_, *a_, _o=o_wf, **k_):
                if mf["n"] == 0 and str(p_).lstrip("/").startswith("metadata/inflight"):
                    mf["n"] = 1
                    raise OSError(5, "injected EIO on the in-flight marker write")
                return _o(p_, *a_, **k_)
            h.storage.write_file = failing_wf
            try:
                tx.append_data(tablekit.rows(1, start=1000 * a, tag=f"t{a}_"))
            except OSError:
                rep.evaluations += 1
                rep.distribution["marker-fault:append-refused"] += 1
                shutil.rmtree(path, ignore_errors=True)
                return
            finally:
                del h.storage.write_file
        elif case.get("kind") in ("prebuilt-file", "prebuilt-nested", "prebuilt-shared"):
            # a data file built OUTSIDE the library (already older than the grace period) queued through the file-level API
            import pyarrow as pa
            import pyarrow.parquet as pq
            from datashard.data_structures import DataFile, FileFormat
            sch_ = h.file_manager.data_file_manager.create_arrow_schema(tablekit.schema())
            sub_ = "region=eu/" if case.get("kind") == "prebuilt-nested" else ""
            os.makedirs(os.path.join(path, "data", sub_), exist_ok=True)
            fa_ = 1 if case.get("kind") == "prebuilt-shared" else a      # shared: every transaction queues the SAME file
            fp_ = os.path.join(path, "data", sub_, f"prebuilt_{fa_}.parquet")
            if not os.path.exists(fp_):
                pq.write_table(pa.table({"id": [1000 * fa_], "name": [f"ext{fa_}"]}, schema=sch_), fp_)
            _age(path, f"data/{sub_}prebuilt_{fa_}.parquet")
            df_ = DataFile(file_path=f"/data/{sub_}prebuilt_{fa_}.parquet", file_format=FileFormat.PARQUET, partition_values={},
                           record_count=1, file_size_in_bytes=os.path.getsize(fp_))
            tx.append_files([df_])
            if case.get("reused"):
                # the SAME Transaction object begun again after a rollback, the same file queued again: the second attempt needs its own protection
                tx.rollback()
                tx.begin()
                tx.append_files([df_])
            tx._written_files.append(f"data/prebuilt_{a}.parquet") if False else None
        elif case.get("kind") == "delete-partial":
            tx.delete_files(["/" + tablekit.data_paths(h)[-1]])
            tx.append_data(tablekit.rows(1, start=1000 * a, tag=f"t{a}_"))
        else:
            tx.append_data(tablekit.rows(1, start=1000 * a, tag=f"t{a}_"))
        rel = tx._written_files[0].lstrip("/") if tx._written_files else f"data/{'region=eu/' if case.get('kind') == 'prebuilt-nested' else ''}prebuilt_{1 if case.get('kind') == 'prebuilt-shared' else a}.parquet"
        old = case["aged"][a - 1]
        if old:
            _age(path, rel)
            if case.get("age_markers"):
                # a transaction open for two hours: its MARKER is as old as its file (far below the 24 h abandonment timeout)
                for m_ in os.listdir(os.path.join(path, "metadata", "inflight")):
                    _age(path, os.path.join("metadata", "inflight", m_))
        prefix += [f"{a}:marker:{fid(rel)}:{1 if old else 0}", f"{a}:write:{fid(rel)}"]
        handles[a], txs[a] = h, tx
    g = tablekit.load(path)
    chooser = case["chooser"](rng) if case.get("chooser") else sched.random_chooser(rng, 0.5)
    S = sched.Sched(chooser, watchdog_s=40)
    for a, h in handles.items():
        vstore.instrument_table(h, S)
    vstore.instrument_table(g, S)
    restore = c01._patch_sleep(S)

    def tx_body(a):
        def fn():
            if case["rollback"][a - 1]:
                return txs[a].rollback()
            return txs[a].commit()
        return fn
    try:
        with c01._NoBackoff(S):
            res = S.run({**{a: tx_body(a) for a in txs}, 9: lambda: g.garbage_collect(grace_period_ms=case.get("grace", GRACE_MS))})
    finally:
        restore()
    rep.evaluations += 1
    rep.distribution[f"txs={case['txs']}"] += 1
    case_rec = {"kind": "gc-race", "txs": case["txs"], "aged": case["aged"], "rollback": case["rollback"], "schedule": [str(x) for x in S.schedule]}
    rep.nontrivial(["c06", case_rec["schedule"], case["aged"], case["rollback"]])
    # ---------------- oracle: every file of every snapshot in the final metadata exists
    problems = []
    try:
        v = reader.view(path)
        for s_ in v["snaps"]:
            pass
    except reader.Broken as e:
        problems.append(str(e))
    for a, r in res.items():
        if r[0] == "raise" and a != 9:
            problems.append(f"transaction {a} raised {type(r[1]).__name__}: {str(r[1])[:80]}")
    if store.get("data/old_orphan.parquet") is not None and res[9][0] == "ok":
        rep.distribution["orphan-survived"] += 1
    for p_ in problems:
        sig = "C06:committed-file-deleted-by-concurrent-gc" if "missing" in p_ else "C06:" + p_.split(":")[0].replace(" ", "-")[:50]
        if "missing" in p_ and any(case["aged"]):
            sig = "C06:commit-between-metadata-read-and-marker-load"
        if case.get("kind") in ("prebuilt-file", "prebuilt-nested", "prebuilt-shared"):
            sig = "C06:prebuilt-file-of-an-open-transaction-has-no-marker"
        rep.violate(sig, f"{case['txs']} tx, aged {case['aged']}: {p_}", case_rec)
    # ---------------- correspondence: abstract trace → model
    if model_ok and not case.get("no_model"):
        toks = list(prefix)
        state = {a: "active" for a in txs}
        gc_seen = {"meta": False, "markers": False}
        for (a, kind, d) in S.events:
            if a is None or kind != "storage":
                continue
            op, cls, p = d["op"], d["cls"], d.get("path", "")
            if a == 9:
                if cls == "hint" and op == "read_file" and not gc_seen["meta"] and "result" in d:
                    # (repaired collector re-reads the hint for the dangling check: only the first read is the metadata snapshot)
                    gc_seen["meta"] = True
                    toks.append("9:readMeta")
                elif cls == "marker" and op == "list_files" and not gc_seen["markers"]:
                    gc_seen["markers"] = True
                    toks.append("9:readMarkers")
                elif op == "delete_file" and cls in ("data", "manifest", "mlist") and "result" in d:
                    toks.append(f"9:delete:{fid(p)}")
            else:
                if cls == "marker" and op == "write_file" and "result" in d:
                    target = p.rsplit("/", 1)[-1][: -len(".inflight")]
                    rel = ("data/" if target.endswith(".parquet") else "metadata/manifests/") + target
                    toks.append(f"{a}:marker:{fid(rel)}:0")
                elif cls in ("manifest", "mlist") and op == "write_file" and "result" in d:
                    toks.append(f"{a}:write:{fid(p)}")
                elif cls == "hint" and op in ("write_file", "write_file_cas") and "result" in d:
                    toks.append(f"{a}:flip")
                    state[a] = "flipped"
                elif cls == "marker" and op == "delete_file" and state[a] == "flipped":
                    target = p.rsplit("/", 1)[-1][: -len(".inflight")]
                    rel = ("data/" if target.endswith(".parquet") else "metadata/manifests/") + target
                    toks.append(f"{a}:unmark:{fid(rel)}")
                elif cls == "data" and op == "delete_file" and state[a] == "active" and case["rollback"][a - 1]:
                    toks.append(f"{a}:rollback")
                    state[a] = "rolledback"
        toks.append("9:gcFinish") if res[9][0] == "ok" else None
        # retried commits register new manifests under the same transaction: the model's actor is the transaction
        req = f"gcrace.trace mf={MARKERS_FIRST} init={init_tok} committed={committed_tok} | " + " ".join(toks)
        reply = driver.ask([req])[0]
        rep.corr_cases += 1
        if not reply.startswith("ok"):
            rep.diverge("gcrace.trace (garbage_collect × Transaction)", {"request": req, **case_rec}, reply, "trace of the implementation")
        else:
            mdel = {int(x) for x in reply.split("deleted=")[1].split(",") if x}
            now_files = set(store.list())
            idel = {i for r, i in ids.items() if r in init_files | set(ids) and r not in now_files and (r.startswith("data/") or r.startswith("metadata/manifests/"))}
            # files removed by a rollback are not collector deletions
            rolled = set()
            for a in txs:
                if case["rollback"][a - 1]:
                    rolled |= {fid(x.lstrip("/")) for x in []}
            gc_deleted = {fid(d["path"]) for (a, k, d) in S.events if a == 9 and k == "storage" and d["op"] == "delete_file"
                          and d["cls"] in ("data", "manifest", "mlist") and "result" in d}
            if mdel != gc_deleted:
                rep.diverge("gcrace.trace deleted set", {"request": req, **case_rec}, sorted(mdel), sorted(gc_deleted))
        if case["id"] == 0:
            rep.sample({"trace": req, "reply": reply})
    case["tx1_gates"] = len([1 for a, _w in S.trace if a == 1])
    shutil.rmtree(path, ignore_errors=True)


def _late_transactions(ctx, rep, base):
    """a transaction that STARTS while the collection is already running: after each gated operation k of the collector, a whole
    transaction (queue a data file, commit) runs; the file is (a) written by the transaction itself — young, protected by the grace
    period — or (b) a PRE-BUILT file already older than the grace period, protected by nothing but its marker"""
    from datashard.data_structures import DataFile, FileFormat
    import pyarrow as pa
    import pyarrow.parquet as pq
    stride = 1 if (ctx.thorough or ctx.intensify) else 2
    for variant in ("own-file", "prebuilt-old-file"):
        k = 0
        while k < 80:
            path = os.path.join(base, f"late-{variant}-{k}")
            t0 = tablekit.create(path)
            t0.append_records(tablekit.rows(2, tag="init"))
            for rel in [r_ for r_ in reader.DirStore(path).list() if r_.startswith("data/") or r_.startswith("metadata/manifests/")]:
                _age(path, rel)
            h, g = tablekit.load(path), tablekit.load(path)
            if variant == "prebuilt-old-file":
                sch_ = h.file_manager.data_file_manager.create_arrow_schema(tablekit.schema())
                pq.write_table(pa.table({"id": [4000], "name": ["late"]}, schema=sch_), os.path.join(path, "data/late.parquet"))
                _age(path, "data/late.parquet")

            def choose(s, ready, k=k):
                n9 = len([1 for a, _w in s.trace if a == 9])
                if n9 < k and 9 in ready:
                    return 9
                if 1 in ready:
                    return 1
                return sorted(ready)[0]
            S = sched.Sched(choose, watchdog_s=40)
            vstore.instrument_table(h, S)
            vstore.instrument_table(g, S)

            def tx_body():
                if variant == "own-file":
                    return h.append_records(tablekit.rows(1, start=4000, tag="late_"))
                return h.append_data([DataFile(file_path="/data/late.parquet", file_format=FileFormat.PARQUET, partition_values={}, record_count=1,
                                               file_size_in_bytes=os.path.getsize(os.path.join(path, "data/late.parquet")))])
            restore = c01._patch_sleep(S)
            try:
                with c01._NoBackoff(S):
                    res = S.run({1: tx_body, 9: lambda: g.garbage_collect(grace_period_ms=GRACE_MS)})
            except sched.Stuck as e:
                rep.notes.append(f"late transaction {variant} k={k} stuck: {e}")
                break
            finally:
                restore()
            gates9 = len([1 for a, _w in S.trace if a == 9])
            rep.evaluations += 1
            rep.nontrivial(["late-tx", variant, k])
            rep.distribution[f"late-tx:{variant}"] += 1
            case = {"kind": "transaction-started-during-the-collection", "file": variant, "whole_transaction_after_collector_op": k,
                    "transaction": res[1][0], "collection": res[9][0]}
            committed = res[1][0] == "ok"
            try:
                reader.view(path)
            except reader.Broken as e:
                rep.violate("C06:file-of-a-transaction-that-started-during-the-run-deleted" if variant == "prebuilt-old-file" else "C06:committed-file-deleted-by-concurrent-gc",
                            f"{variant}: the whole transaction ran after operation #{k} of the collection (grace 60 s, run far shorter); it "
                            f"{'committed' if committed else 'raised'}; the table now: {e}", case)
            shutil.rmtree(path, ignore_errors=True)
            if k >= gates9:
                break
            k += stride


def _two_collections(ctx, rep, base):
    """one long transaction, TWO collections: the first while the data file is being written (its marker exists, the file does not
    yet), the second — after the file has aged past the grace period — inside the commit, before the pointer moves"""
    for when2, first in [(w_, f_) for w_ in ("before-metadata-commit", "before-manifest-list") for f_ in ("before-write", "after-write")]:
        path = os.path.join(base, f"two-{when2}-{first}")
        t0 = tablekit.create(path)
        t0.append_records(tablekit.rows(2, tag="init"))
        h, g = tablekit.load(path), tablekit.load(path)
        tx = h.new_transaction().begin()
        dfm = h.file_manager.data_file_manager
        o_write = dfm.write_data_file
        log = []

        def hooked_write(*a, **k):
            if first == "before-write":
                log.append(("gc1", g.garbage_collect(grace_period_ms=0)))
                return o_write(*a, **k)
            r_ = o_write(*a, **k)           # the file now exists; whatever protects it must already be in place
            log.append(("gc1", g.garbage_collect(grace_period_ms=0)))
            return r_
        dfm.write_data_file = hooked_write
        try:
            tx.append_data(tablekit.rows(1, start=1000, tag="long_"))
        except Exception as e:      # noqa: BLE001
            rep.evaluations += 1
            rep.violate("C06:live-transaction-file-deleted-by-concurrent-gc", f"a whole collection (grace 0) placed {first.replace('-', ' the ')} of the data file inside "
                        f"append_data: the append raises {type(e).__name__}: {str(e)[:80]}", {"kind": "two-collections", "second": when2, "first": first})
            shutil.rmtree(path, ignore_errors=True)
            continue
        finally:
            dfm.write_data_file = o_write
        rel = tx._written_files[0].lstrip("/")
        _age(path, rel)
        target = h.metadata_manager if when2 == "before-metadata-commit" else h.file_manager
        name = "commit" if when2 == "before-metadata-commit" else "create_manifest_list_file"
        o2 = getattr(target, name)
        fired = {"n": 0}

        def hooked2(*a, _o=o2, **k):
            if fired["n"] == 0:
                fired["n"] = 1
                log.append(("gc2", g.garbage_collect(grace_period_ms=3_600_000)))
            return _o(*a, **k)
        setattr(target, name, hooked2)
        raised = None
        try:
            tx.commit()
        except Exception as e:      # noqa: BLE001
            raised = f"{type(e).__name__}: {str(e)[:80]}"
        finally:
            setattr(target, name, o2)
        rep.evaluations += 1
        rep.nontrivial(["two-collections", when2])
        case = {"kind": "two-collections", "second": when2, "first": first}
        try:
            reader.view(path)
        except reader.Broken as e:
            rep.violate("C06:committed-file-deleted-by-concurrent-gc", f"collection while the data file was being written, then (file aged 2 h) {when2}: {e}", case)
        if raised:
            rep.violate("C06:transaction-raised", f"two collections ({when2}): commit raised {raised}", case)
        shutil.rmtree(path, ignore_errors=True)


def cases(ctx):
    rng = ctx.rng("cases")
    out = [{"txs": 1, "aged": [True], "rollback": [False], "chooser": _collector_first_reads(None)},
           {"txs": 1, "aged": [True], "rollback": [False], "age_markers": True},
           {"txs": 2, "aged": [True, True], "rollback": [False, False], "age_markers": True},
           {"txs": 1, "aged": [False], "rollback": [False], "chooser": _collector_first_reads(None)},
           {"txs": 2, "aged": [True, True], "rollback": [False, False], "chooser": _collector_first_reads(None)},
           {"txs": 1, "aged": [True], "rollback": [True]}]
    for _ in range(ctx.budget(40, 1500)):
        n = rng.choice([1, 1, 2])
        out.append({"txs": n, "aged": [rng.random() < 0.7 for _ in range(n)], "rollback": [rng.random() < 0.15 for _ in range(n)],
                    "age_markers": rng.random() < 0.5})
    for i, c in enumerate(out):
        c["id"] = i
    return out


def run(ctx, model_ok):
    rep = Report()
    rep.rule = ("one real garbage_collect(grace 60 s) × 1–2 real append transactions (data files aged 2 h on a coin flip; 15 % roll back) "
                "interleaved at storage-operation granularity; directed schedules placing the whole commit between the collector's two reads "
                "first, then a commit that loses an OCC race and retries with the WHOLE collection placed after each (quick: every 2nd) of its gated "
                "operations; with grace 0 a whole collection after each gated operation of an append, of a partial delete (rewritten manifest) and of "
                "an append whose first marker write failed, of an append of a PRE-BUILT aged file (file-level API; also with the 60 s grace). Oracle: every file of every snapshot of the final metadata exists; correspondence: same deleted set as the model.")
    base = scratch_dir("c06-")
    try:
        # directed: a commit that loses the race and retries, with a whole collection placed after each of its gated operations
        cid = 100000
        # (also with PRE-BUILT aged files: their markers are not tied to a file the transaction wrote, so anything a retry cleans up
        # "by written file" must not take them along)
        for extra in ({}, {"kind": "prebuilt-file", "no_model": True}, {"kind": "prebuilt-nested", "no_model": True}):
            k = 0
            while True:
                c = {"id": cid, "txs": 2, "aged": [True, True], "rollback": [False, False], "chooser": _retry_then_gc_after(k), "age_markers": k % 4 == 0, **extra}
                cid += 1
                try:
                    run_case(ctx, rep, c, base, model_ok)
                    rep.distribution["directed-retry-gc" + ("-" + extra["kind"] if extra else "")] += 1
                except sched.Stuck as e:
                    rep.notes.append(f"retry/gc case {extra} k={k} stuck: {e}")
                    break
                if k >= c.get("tx1_gates", 0):
                    break
                k += 1 if (ctx.thorough or ctx.intensify) else (2 if not extra else 3)
        # two live transactions queue the SAME pre-built aged file; one of them rolls back (or commits) completely, then a whole
        # collection, then the other commits: the survivor's protection must not have gone with the first one's marker
        for order, rb in (((2, 9, 1), [False, True]), ((1, 9, 2), [True, False]), ((2, 9, 1), [False, False])):
            for g_ in (0, GRACE_MS):
                c = {"id": cid, "txs": 2, "aged": [True, True], "rollback": rb, "chooser": _in_order(order), "kind": "prebuilt-shared", "no_model": True, "grace": g_}
                cid += 1
                try:
                    run_case(ctx, rep, c, base, model_ok)
                    rep.distribution["directed-shared-prebuilt"] += 1
                except sched.Stuck as e:
                    rep.notes.append(f"shared pre-built case {order} stuck: {e}")
        # grace 0: EVERYTHING unreachable and unprotected goes — a whole collection after each gated operation of one commit
        # (append / partial delete that rewrites a manifest / append whose first marker write failed)
        for variant in ({"kind": "append"}, {"kind": "delete-partial"}, {"kind": "append", "marker_fault": True}, {"kind": "prebuilt-file"},
                        {"kind": "prebuilt-file", "grace": GRACE_MS}, {"kind": "prebuilt-nested"}, {"kind": "prebuilt-nested", "grace": GRACE_MS},
                        {"kind": "prebuilt-file", "reused": True}, {"kind": "prebuilt-file", "reused": True, "grace": GRACE_MS}):
            k = 0
            while True:
                c = {"id": cid, "txs": 1, "aged": [True], "rollback": [False], "chooser": _gc_after_k(k), "grace": 0, "no_model": True, **variant}
                cid += 1
                try:
                    run_case(ctx, rep, c, base, model_ok)
                    rep.distribution["directed-grace0"] += 1
                except sched.Stuck as e:
                    rep.notes.append(f"grace-0 case {variant} k={k} stuck: {e}")
                    break
                if k >= c.get("tx1_gates", 0):
                    break
                k += 1 if (ctx.thorough or ctx.intensify) else 2
        _two_collections(ctx, rep, base)
        _late_transactions(ctx, rep, base)
        for c in cases(ctx):
            try:
                run_case(ctx, rep, c, base, model_ok)
            except sched.Stuck as e:
                rep.notes.append(f"case {c['id']} stuck: {e}")
                rep.distribution["stuck"] += 1
    finally:
        shutil.rmtree(base, ignore_errors=True)
    return rep
