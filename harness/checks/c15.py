"""C15 — table metadata stays well-formed through every history.

Theorems: DSV/Props/C15.lean (wf_step / wf_history over all operations, repoint_correct, current_never_expired,
mlog_bounded, rewrite_preserves_origin, last_seq_monotone, lookup_*, delete_current_repoints).
Correspondence: repoint / timestamp lookup / most-recent / metadata-log functions vs the model (forest enumeration),
and whole real-table histories vs `meta.run` step by step.  Oracle: independent invariant checker on the JSON + manifests.
"""
import itertools
import os
import shutil

from .. import driver, invariants, reader, tablekit
from ..report import Report
from ..util import scratch_dir
from ..vclock import VClock

ASSUMPTIONS = [
    "snapshot ids are fresh (random 63-bit ids never collide) — hypothesis OpOk of wf_step",
    "histories are applied by one committer at a time (concurrency is C01's business)",
]


def _p(x):
    return "-" if x is None else ("r" if x == -1 else str(x))


def _snaps_tok(snaps):
    return ",".join(f"{s.snapshot_id}/{s.timestamp_ms}/{_p(s.parent_snapshot_id)}" for s in snaps) if snaps else "-"


def _mk(i, ts, parent):
    from datashard.data_structures import Snapshot
    return Snapshot(snapshot_id=i, timestamp_ms=ts, manifest_list=f"m{i}", parent_snapshot_id=parent, sequence_number=0)


def _check_repoint(ctx, rep, model_ok):
    from datashard.snapshot_manager import repoint_parents_to_surviving_ancestors
    cases = []
    nmax = 4 if not ctx.thorough else 5
    for n in range(1, nmax + 1):
        choices = [None, -1] + list(range(1, n + 2))
        combos = itertools.product(choices, repeat=n)
        stride = 1 if n <= 3 else (7 if not ctx.thorough else (1 if n == 4 else 23))
        for k, parents in enumerate(combos):
            if k % stride:
                continue
            for mask in range(1 << n):
                cases.append((parents, [i + 1 for i in range(n) if mask >> i & 1]))
    # duplicate ids (dict: last binding wins)
    cases_dup = [((2, None, 1), [3], [1, 1, 3]), ((None, 1, 2), [3], [1, 2, 3])]
    reqs, impls = [], []
    for parents, kept in cases:
        allS = [_mk(i + 1, 0, p) for i, p in enumerate(parents)]
        keptS = [s for s in allS if s.snapshot_id in kept]
        req = f"meta.repoint {_snaps_tok(allS)} {','.join(map(str, kept)) if kept else '-'}"
        repoint_parents_to_surviving_ancestors(allS, keptS)
        impls.append(",".join(f"{s.snapshot_id}/0/0/{_p(s.parent_snapshot_id)}" for s in keptS) if keptS else "-")
        reqs.append(req)
        # oracle (independent): new parent is None, -1, or a kept snapshot reachable from the old parent
        orig = {i + 1: p for i, p in enumerate(parents)}
        for s in keptS:
            np_ = s.parent_snapshot_id
            if np_ not in (None, -1):
                x, seen, ok = orig[s.snapshot_id], set(), False
                while x not in (None, -1) and x not in seen:
                    if x == np_:
                        ok = True
                        break
                    seen.add(x)
                    x = orig.get(x)
                if np_ not in kept or not ok:
                    rep.violate("C15:repoint-invents-ancestor", f"forest {parents} kept {kept}: snapshot {s.snapshot_id} → parent {np_}",
                                {"kind": "repoint", "parents": [_p(p) for p in parents], "kept": kept})
    model = driver.ask(reqs) if model_ok else [None] * len(reqs)
    for rq, im, m in zip(reqs, impls, model):
        rep.evaluations += 1
        rep.nontrivial(["repoint", rq])
        if m is not None:
            rep.corr_cases += 1
            if m != im:
                rep.diverge("meta.repoint (repoint_parents_to_surviving_ancestors)", {"req": rq}, m, im)
    rep.distribution["repoint:forests"] += len(reqs)
    rep.sample({"repoint_case": reqs[len(reqs) // 2], "model": model[len(reqs) // 2]})


class _StubMM:
    def __init__(self, snaps):
        self.snaps = snaps

    def get_all_snapshots(self):
        return list(self.snaps)


def _check_lookups(ctx, rep, model_ok):
    from datashard.data_structures import HistoryEntry, TableMetadata
    from datashard.snapshot_manager import SnapshotManager
    rng = ctx.rng("lookups")
    reqs, impls = [], []
    for _ in range(ctx.budget(300, 5000)):
        n = rng.randint(0, 6)
        snaps = [_mk(i + 1, rng.choice([10, 20, 20, 30, 40]), None) for i in range(n)]
        rng.shuffle(snaps)
        t = rng.choice([5, 10, 15, 20, 25, 30, 40, 50])
        sm = SnapshotManager(_StubMM(snaps))
        r = sm.get_snapshot_by_timestamp(t)
        reqs.append(f"meta.bytime {_snaps_tok(snaps)} {t}")
        impls.append("-" if r is None else str(r.snapshot_id))
        # oracle (any clock, any stored order): the answer is not newer than t, nothing retained lies strictly between it and t,
        # and "no answer" only when nothing is old enough
        elig = [s_ for s_ in snaps if s_.timestamp_ms <= t]
        if (r is None) != (not elig) or (r is not None and (r.timestamp_ms > t or any(s_.timestamp_ms > r.timestamp_ms for s_ in elig))):
            rep.violate("C15:timestamp-lookup-wrong", f"snapshots (id/ts) {[(s_.snapshot_id, s_.timestamp_ms) for s_ in snaps]}: lookup at {t} → "
                        f"{None if r is None else (r.snapshot_id, r.timestamp_ms)}", {"kind": "lookup", "req": reqs[-1]})
        # most recent
        log = [s.snapshot_id for s in rng.sample(snaps, rng.randint(0, n))] + rng.sample([7, 8, 9], rng.randint(0, 2))
        rng.shuffle(log)
        md = TableMetadata(location="x")
        md.snapshots = snaps
        md.snapshot_log = [HistoryEntry(timestamp_ms=0, snapshot_id=i) for i in log]
        mr = SnapshotManager._most_recent_snapshot_id(md)
        reqs.append(f"meta.recent {_snaps_tok(snaps)} {','.join(map(str, log)) if log else '-'}")
        impls.append(_p(mr))
    model = driver.ask(reqs) if model_ok else [None] * len(reqs)
    for rq, im, m in zip(reqs, impls, model):
        rep.evaluations += 1
        rep.nontrivial(["lookup", rq])
        if m is not None:
            rep.corr_cases += 1
            if m != im:
                rep.diverge(rq.split(" ")[0] + " (snapshot_manager)", {"req": rq}, m, im)
    rep.sample({"lookup_case": reqs[0], "model": model[0]})


def _check_mlog(ctx, rep, model_ok):
    from datashard.data_structures import TableMetadata
    from datashard.metadata_manager import MetadataManager
    rng = ctx.rng("mlog")
    reqs, impls = [], []
    props = [None, "1", "2", "3", 2, "0", "-1", "abc", "", "2.5", 2.9, " 2 ", [], True]
    for _ in range(ctx.budget(300, 4000)):
        raw = rng.choice(props)
        try:
            parsed = int(raw) if raw is not None else None
        except (TypeError, ValueError):
            parsed = None
        old = [(rng.randint(1, 9), rng.randint(1, 6)) for _ in range(rng.randint(0, 5))]
        f = rng.randint(1, 6)
        if old and rng.random() < 0.2:
            f = old[-1][1]
        bt = rng.randint(1, 9)
        mm = MetadataManager.__new__(MetadataManager)
        mm.metadata_path = "metadata"
        new = TableMetadata(location="x")
        new.metadata_log = [{"timestamp-ms": a, "metadata-file": f"metadata/f{b}"} for a, b in old]
        if raw is not None:
            new.properties["write.metadata.previous-versions-max"] = raw
        base = TableMetadata(location="x")
        base.last_updated_ms = bt
        mm._append_metadata_log(new, base, f"f{f}")
        impls.append(",".join(f"{e['timestamp-ms']}/{e['metadata-file'][len('metadata/f'):]}" for e in new.metadata_log) or "-")
        reqs.append(f"meta.stamp {parsed if parsed is not None else '-'} {','.join(f'{a}/{b}' for a, b in old) if old else '-'} {bt} {f}")
        # oracle: bound
        appended = not (old and old[-1][1] == f)
        if parsed is not None and parsed >= 1 and (len(old) <= parsed or appended) and len(new.metadata_log) > parsed:
            # (mlog_trimmed: a commit that appends an entry trims to the bound whatever the length before, e.g. after the bound was lowered)
            rep.violate("C15:metadata-log-exceeds-bound", f"bound {parsed}, {len(old)} entries before, {len(new.metadata_log)} after the commit",
                        {"kind": "mlog", "req": reqs[-1]})
    model = driver.ask(reqs) if model_ok else [None] * len(reqs)
    for rq, im, m in zip(reqs, impls, model):
        rep.evaluations += 1
        rep.nontrivial(["mlog", rq])
        if m is not None:
            rep.corr_cases += 1
            if m != im:
                rep.diverge("meta.stamp (_append_metadata_log)", {"req": rq}, m, im)


# ------------------------------------------------------------------ histories

def _canon(md, idmap):
    def cid(x):
        if x is None:
            return "-"
        if x == -1:
            return "r"
        return str(idmap.get(x, f"?{x}"))
    snaps = ",".join(f"{cid(s['snapshot_id'])}/{s['timestamp_ms']}/{s.get('sequence_number')}/{cid(s.get('parent_snapshot_id'))}" for s in md["snapshots"]) or "-"
    log = ",".join(f"{e['timestamp_ms']}/{cid(e['snapshot_id'])}" for e in md["snapshot_log"]) or "-"
    return f"cur={cid(md['current_snapshot_id'])} lastSeq={md['last_sequence_number']} snaps={snaps} log={log}"


def _parse_int_prop(raw):
    try:
        return int(raw)
    except (TypeError, ValueError):
        return None


# directed histories, run first: deleting the CURRENT snapshot and committing again; deleting interior / oldest snapshots and committing
# again; several deletes; expiry at equal timestamps
HIST_SCRIPTS = [
    ["append", "append", "append", "delcur", "append", "delcur", "delcur", "append", "append"],
    ["append", "append", "append", "deloldest", "append", "delsnap", "append", "delcur", "append"],
    ["append", "append", "append", "delfiles2", "append", "delfiles", "append+expire", "append", "delfiles2", "delcur", "append"],
    # a three-file manifest partially deleted TWICE (the second delete rewrites a manifest that is itself a rewrite)
    ["append3", "append", "delone", "append", "delone", "append", "delone"],
    # a retention bound while the wall clock steps back: the snapshot being committed is not the newest by timestamp
    ["append@1000", "append@2000", "retention:2", "append@3000", "append@500", "append@400", "delcur@400", "append@4000"],
    # one data file listed by TWO manifests (queued again through the file-level API), then deleted: it must be gone from both
    ["append", "append", "reappend", "append", "delone", "append"],
    ["append3", "reappend", "delone", "append"],
    # hive-style layout: equal base names in two directories (same manifest), a third pair in another manifest; one of them deleted
    ["append", "prebuilt-pair", "append", "prebuilt-pair", "delpair1", "append", "delpair1"],
    ["prevmax:3", "append@1000", "append@1000", "append@1000", "append@1000", "prevmax:1", "append@1000", "retention:1", "append@900"],
]


def _histories(ctx, rep, model_ok):
    rng = ctx.rng("hist")
    base = scratch_dir("c15-")
    try:
        for hi in range(ctx.budget(25, 400)):
            path = os.path.join(base, f"h{hi}")
            with VClock() as clock:
                clock.now_ms = 1000
                t = tablekit.create(path)
                ghost = invariants.Ghost()
                idmap, ops, trace = {}, [], []
                next_id = 1
                known_paths = []
                script = HIST_SCRIPTS[hi] if hi < len(HIST_SCRIPTS) else None
                steps = len(script) if script else rng.randint(3, 8 if not ctx.thorough else 20)
                for si in range(steps):
                    kind = script[si] if script else rng.choice(["append", "append", "append", "append+expire", "delfiles", "expire", "delsnap", "delcur", "retention", "prevmax"])
                    now = rng.choice([1000, 1000, 2000, 3000, 2500, 4000, 500])
                    forced_raw = None
                    multi_delete = None
                    if "@" in kind:
                        kind, now_ = kind.split("@")
                        now = int(now_)
                    if ":" in kind:
                        kind, forced_raw = kind.split(":")
                    clock.now_ms = now
                    before_ids = {s.snapshot_id for s in t.metadata_manager.refresh().snapshots}
                    op_tok = None
                    try:
                        if kind == "append":
                            t.append_records(tablekit.rows(rng.randint(1, 2), start=si * 10))
                            op_tok = f"add:{now}:{next_id}:-"
                        elif kind == "append3":
                            with t.new_transaction() as tx:
                                for j_ in range(3):
                                    tx.append_data(tablekit.rows(1, start=si * 10 + j_))
                                tx.commit()
                            op_tok = f"add:{now}:{next_id}:-"
                        elif kind == "reappend":
                            # a file that is ALREADY listed is queued again through the file-level API: two manifests name it afterwards
                            from datashard.data_structures import DataFile, FileFormat
                            first = tablekit.data_paths(t)[0]
                            full_ = os.path.join(path, first)
                            with t.new_transaction() as tx:
                                tx.append_files([DataFile(file_path="/" + first, file_format=FileFormat.PARQUET, partition_values={},
                                                          record_count=len(reader.read_rows(reader.DirStore(path), first)),
                                                          file_size_in_bytes=os.path.getsize(full_))])
                                tx.commit()
                            op_tok = f"add:{now}:{next_id}:-"
                        elif kind == "prebuilt-pair":
                            # two PRE-BUILT files with the same base name in two partition directories (hive-style), one transaction
                            import pyarrow as pa
                            import pyarrow.parquet as pq
                            from datashard.data_structures import DataFile, FileFormat
                            sch_ = t.file_manager.data_file_manager.create_arrow_schema(tablekit.schema())
                            dfs_ = []
                            for reg_ in ("eu", "us"):
                                rel_ = f"data/region={reg_}/part-{si}.parquet"
                                os.makedirs(os.path.dirname(os.path.join(path, rel_)), exist_ok=True)
                                pq.write_table(pa.table({"id": [7000 + si], "name": [reg_]}, schema=sch_), os.path.join(path, rel_))
                                # the two accepted spellings of a table-relative path: with and without a leading slash
                                dfs_.append(DataFile(file_path=("/" + rel_) if reg_ == "eu" else rel_, file_format=FileFormat.PARQUET, partition_values={}, record_count=1,
                                                     file_size_in_bytes=os.path.getsize(os.path.join(path, rel_))))
                            with t.new_transaction() as tx:
                                tx.append_files(dfs_)
                                tx.commit()
                            op_tok = f"add:{now}:{next_id}:-"
                        elif kind == "delpair1":
                            # delete ONE of the two same-named files: exactly that one disappears
                            victims = ([p_ for p_ in tablekit.data_paths(t) if "region=us/" in p_] + [p_ for p_ in tablekit.data_paths(t) if "region=eu/" in p_])[:1]
                            if not victims:
                                continue
                            with t.new_transaction() as tx:
                                tx.delete_files(["/" + victims[0]])
                                tx.commit()
                            op_tok = f"add:{now}:{next_id}:-"
                            trace.append(["expect-deleted", victims])
                        elif kind == "delone":
                            cur_paths = tablekit.data_paths(t)
                            victims = cur_paths[:1]
                            with t.new_transaction() as tx:
                                tx.delete_files(["/" + victims[0]])
                                tx.commit()
                            op_tok = f"add:{now}:{next_id}:-"
                            trace.append(["expect-deleted", victims])
                        elif kind == "append+expire":
                            cutoff = rng.choice([0, 1000, 2000, 2600, 3000, 9999])
                            with t.new_transaction() as tx:
                                tx.append_data(tablekit.rows(1, start=si * 10))
                                tx.expire_snapshots(cutoff)
                                tx.commit()
                            op_tok = f"add:{now}:{next_id}:{cutoff}"
                        elif kind in ("delfiles", "delfiles2"):
                            cur_paths = tablekit.data_paths(t)
                            if not cur_paths or (kind == "delfiles2" and len(cur_paths) < 2):
                                continue
                            victims = rng.sample(cur_paths, rng.randint(1, min(2, len(cur_paths)))) if kind == "delfiles" else list(cur_paths[:2])
                            form = rng.choice(["/", ""])
                            with t.new_transaction() as tx:
                                if len(victims) > 1 and (kind == "delfiles2" or rng.random() < 0.6):
                                    multi_delete = list(victims)
                                    for v in victims:           # several delete_files() operations in ONE transaction
                                        tx.delete_files([form + v])
                                else:
                                    tx.delete_files([form + v for v in victims])
                                tx.commit()
                            op_tok = f"add:{now}:{next_id}:-"
                            trace.append(["expect-deleted", victims])
                        elif kind == "expire":
                            cutoff = rng.choice([0, 1000, 2000, 2600, 3000, 9999])
                            with t.new_transaction() as tx:
                                tx.expire_snapshots(cutoff)
                                tx.commit()
                            op_tok = f"exp:{cutoff}"
                        elif kind in ("delsnap", "delcur", "deloldest"):
                            ids = sorted(idmap.values())
                            victim = rng.choice(ids + [99]) if ids else 99
                            if kind != "delsnap":
                                md_c = t.metadata_manager.refresh()
                                live = [s_.snapshot_id for s_ in md_c.snapshots]
                                if kind == "delcur" and md_c.current_snapshot_id in idmap:
                                    victim = idmap[md_c.current_snapshot_id]
                                elif kind == "deloldest" and live and live[0] in idmap:
                                    victim = idmap[live[0]]
                            real = [k for k, v in idmap.items() if v == victim]
                            t.snapshot_manager.delete_snapshot(real[0] if real else 123456789)
                            op_tok = f"del:{victim}"
                        elif kind in ("retention", "prevmax"):
                            key = "datashard.snapshot.retention-count" if kind == "retention" else "write.metadata.previous-versions-max"
                            raw = rng.choice(["1", "2", "3", 2, "0", "-1", "abc", None, "100"]) if forced_raw is None else forced_raw
                            import copy
                            b = t.metadata_manager.refresh()
                            n = copy.deepcopy(b)
                            if raw is None:
                                n.properties.pop(key, None)
                            else:
                                n.properties[key] = raw
                            t.metadata_manager.commit(b, n)
                            parsed = _parse_int_prop(raw) if raw is not None else None
                            op_tok = f"{'ret' if kind == 'retention' else 'pm'}:{parsed if parsed is not None else '-'}"
                    except Exception as e:      # noqa: BLE001
                        rep.violate(f"C15:operation-raises:{kind}", f"{kind} raises {type(e).__name__}: {str(e)[:100]}", {"kind": "history", "trace": trace + [[kind, now]]})
                        break
                    trace.append([kind, now, op_tok])
                    ops.append(op_tok)
                    md_now = t.metadata_manager.refresh()
                    for s in md_now.snapshots:
                        if s.snapshot_id not in before_ids and s.snapshot_id not in idmap:
                            idmap[s.snapshot_id] = next_id
                    if op_tok.startswith("add"):
                        next_id += 1
                    rep.evaluations += 1
                    rep.distribution["hist:" + kind] += 1
                    # independent invariant checker
                    res = invariants.observe(path, ghost)
                    if isinstance(res, list):
                        rep.violate("C15:pointer-unreadable", str(res), {"kind": "history", "trace": trace})
                        break
                    bad, md = res
                    bad2, paths = invariants.observe_manifests(path, ghost, md)
                    if kind in ("delfiles", "delfiles2") and multi_delete and model_ok:
                        ordn = {p_: i_ + 1 for i_, p_ in enumerate(sorted(known_paths))}
                        m_ = driver.ask(["tx.partition " + " ".join(f"d:{ordn[v_]}" for v_ in multi_delete if v_ in ordn)])[0]
                        removed = sorted(ordn[p_] for p_ in known_paths if p_ not in paths and p_ in ordn)
                        rep.corr_cases += 1
                        want_ = sorted(int(x_) for x_ in m_.split("deletes=")[1].split(" ")[0].split(",") if x_)
                        if want_ != removed:
                            rep.diverge("tx.partition (several deletes queued in one transaction)", {"ops": multi_delete}, m_, removed)
                    if kind in ("delfiles", "delfiles2", "delone", "delpair1"):
                        gone = set(trace[-2][1])
                        expect = [p for p in known_paths if p not in gone]
                        if sorted(paths) != sorted(expect):
                            bad2.append(f"delete removed {sorted(set(known_paths) - set(paths))} instead of exactly {sorted(gone)}")
                    known_paths = paths if md["current_snapshot_id"] not in (None, -1) else known_paths
                    for b in bad + bad2:
                        rep.violate("C15:invariant:" + b.split(" ")[0] + "-" + b.split(" ")[1], b, {"kind": "history", "trace": trace})
                    if model_ok:
                        m = driver.ask(["meta.run " + " ".join(ops)])[0]
                        rep.corr_cases += 1
                        im = _canon(md, idmap)
                        if m != im:
                            rep.diverge("meta.run (history)", {"ops": list(ops)}, m, im)
                            break
                if len(ops) >= 3:
                    rep.nontrivial(["hist", ops])
                if hi == 0:
                    rep.sample({"history_ops": list(ops)})
            shutil.rmtree(path, ignore_errors=True)
    finally:
        shutil.rmtree(base, ignore_errors=True)


def _retried_commits(ctx, rep):
    """histories in which a commit LOSES an optimistic-concurrency race and retries on a fresh base (another handle commits while it is
    preparing its manifests): the retried snapshot must be well-formed against the version it finally commits onto"""
    base = scratch_dir("c15r-")
    try:
        for intruder in ("append", "delete", "expire", "delsnap"):
            for victim in ("append", "delete"):
                path = os.path.join(base, f"r-{intruder}-{victim}")
                t = tablekit.create(path)
                ghost = invariants.Ghost()
                t.append_records(tablekit.rows(1, start=0))
                t.append_records(tablekit.rows(1, start=10))
                invariants.observe(path, ghost)
                a, b = tablekit.load(path), tablekit.load(path)
                fm = a.file_manager
                orig = fm.create_manifest_list_file
                fired = {"n": 0}

                def hooked(*args, _o=orig, **kw):
                    if fired["n"] == 0:
                        fired["n"] = 1
                        if intruder == "append":
                            b.append_records(tablekit.rows(1, start=500))
                        elif intruder == "delete":
                            with b.new_transaction() as tx:
                                tx.delete_files(["/" + tablekit.data_paths(b)[0]])
                                tx.commit()
                        elif intruder == "expire":
                            with b.new_transaction() as tx:
                                tx.expire_snapshots(0)
                                tx.commit()
                        else:
                            b.snapshot_manager.delete_snapshot(b.snapshots()[0]["snapshot_id"])
                    return _o(*args, **kw)
                fm.create_manifest_list_file = hooked
                case = {"kind": "retried-commit", "intruder": intruder, "victim": victim}
                try:
                    if victim == "append":
                        a.append_records(tablekit.rows(1, start=900))
                    else:
                        with a.new_transaction() as tx:
                            tx.delete_files(["/" + tablekit.data_paths(a)[-1]])
                            tx.commit()
                except Exception as e:      # noqa: BLE001
                    rep.distribution[f"retry:{intruder}/{victim}:raise:{type(e).__name__}"] += 1
                finally:
                    fm.create_manifest_list_file = orig
                rep.evaluations += 1
                rep.nontrivial(["retry", intruder, victim])
                res = invariants.observe(path, ghost)
                if isinstance(res, list):
                    rep.violate("C15:pointer-unreadable", str(res), case)
                    continue
                bad, md = res
                bad2, _paths = invariants.observe_manifests(path, ghost, md)
                for b_ in bad + bad2:
                    rep.violate("C15:invariant:" + b_.split(" ")[0] + "-" + b_.split(" ")[1], f"after a retried {victim} (a concurrent {intruder} won the race): {b_}", case)
                shutil.rmtree(path, ignore_errors=True)
    finally:
        shutil.rmtree(base, ignore_errors=True)


def _stale_hint_commits(ctx, rep):
    """a commit made while the pointer parses but is stale (legacy bare number / names a file that is gone): the metadata log of the new
    version names only files that exist, and the new file's version number is above every existing version"""
    import re
    base = scratch_dir("c15s-")
    try:
        for how in ("legacy-number", "newest-file-lost", "legacy-number-of-missing"):
            path = os.path.join(base, how)
            t = tablekit.create(path)
            for i in range(3):
                t.append_records(tablekit.rows(1, start=i * 10))
            store = reader.DirStore(path)
            ptr = reader.pointer(store)
            cur_v = int(reader.META_RE.match(ptr[1]).group(1))
            hp = os.path.join(path, "metadata.version-hint.text")
            if how == "legacy-number":
                open(hp, "w").write(str(cur_v))
            elif how == "legacy-number-of-missing":
                open(hp, "w").write(str(cur_v + 4))
            else:
                os.remove(os.path.join(path, "metadata", ptr[1]))
            del t
            try:
                h = tablekit.load(path)
                h.append_records(tablekit.rows(1, start=900))
            except Exception as e:      # noqa: BLE001
                rep.distribution[f"stale-hint:{how}:raise:{type(e).__name__}"] += 1
                continue
            rep.evaluations += 1
            rep.nontrivial(["stale-hint", how])
            p2 = reader.pointer(store)
            md = reader.read_metadata(store, p2[1])
            files = {n for ns in reader.metadata_files(store).values() for n in ns}
            case = {"kind": "commit-under-stale-pointer", "pointer": how}
            for e_ in md.get("metadata_log", []):
                name = e_["metadata-file"].rsplit("/", 1)[-1]
                if name not in files:
                    rep.violate("C15:invariant:metadata-log-names-a-missing-version", f"pointer {how}: after the commit the metadata log names {name}, "
                                f"which does not exist", case)
            newv = int(reader.META_RE.match(p2[1]).group(1))
            others = [int(reader.META_RE.match(n).group(1)) for n in files if n != p2[1] and reader.META_RE.match(n)]
            if others and newv <= max(others):
                rep.violate("C15:invariant:new-version-number-not-above-existing", f"pointer {how}: the commit wrote version {newv} although version "
                            f"{max(others)} exists", case)
    finally:
        shutil.rmtree(base, ignore_errors=True)


def run(ctx, model_ok):
    rep = Report()
    rep.rule = ("repoint: every forest of ≤3 snapshots (parents None/-1/any id incl. self, cycles, dangling) × every kept subset, every 7th "
                "forest of 4 (thorough: all of 4, every 23rd of 5); timestamp lookup / most-recent / metadata-log functions on random inputs "
                "with ties and invalid property values; real-table histories of 3–8 (thorough –20) operations over {append, append+expire, "
                "delete files, expire, delete snapshot, retention property, metadata-log bound} with out-of-order and equal timestamps, compared "
                "with meta.run after every step and checked by an independent invariant checker; 8 retried commits (a concurrent append / delete / "
                "expire / delete-snapshot wins the race while an append / delete prepares its manifests) checked by the same invariants. non-trivial = distinct case / history ≥3 ops.")
    _check_repoint(ctx, rep, model_ok)
    _check_lookups(ctx, rep, model_ok)
    _check_mlog(ctx, rep, model_ok)
    _histories(ctx, rep, model_ok)
    _retried_commits(ctx, rep)
    _stale_hint_commits(ctx, rep)
    return rep
