"""C07 — garbage collection fails closed.

Theorems: DSV/Props/C07.lean over the collector's decision model (DSV/Model/GcRun.lean).
Correspondence: the real collector under a fault plan over its storage calls vs the model given the same statuses.
Oracle: file set before vs after a collection that raised; reachable and marker-protected files still present after a
collection that did not.
"""
import os
import shutil
import time

from .. import driver, reader, tablekit
from ..report import Report
from ..util import scratch_dir

ASSUMPTIONS = [
    "faults are exceptions raised by the storage backend before the call's effect (local backend); corruption = missing / truncated / "
    "garbage file or a transient read error",
]


class Injected(OSError):
    pass


class Plan:
    """count the collector's storage calls; fail call number `at` (0-based) or every call matching `match`"""

    def __init__(self, at=None, match=None, exc=None):
        self.at, self.match, self.n, self.log = at, match, 0, []
        self.exc = exc or Injected

    def wrap(self, storage):
        self.saved = {}
        for m in ("read_file", "open_file", "exists", "list_files", "get_modified_time", "delete_file", "read_json"):
            orig = getattr(storage, m)
            self.saved[m] = orig

            def w(*a, _o=orig, _m=m, **k):
                if _m == "read_json":
                    return _o(*a, **k)          # goes through read_file
                idx = self.n
                self.n += 1
                self.log.append((_m, a[0] if a else ""))
                if self.at == idx or (self.match and self.match(_m, a[0] if a else "")):
                    raise self.exc(f"injected fault at call {idx}: {_m}({a[0] if a else ''})")
                return _o(*a, **k)
            setattr(storage, m, w)

    def unwrap(self, storage):
        for m in self.saved:
            try:
                delattr(storage, m)
            except AttributeError:
                pass


def _build(path):
    """3 retained snapshots (append, append, partial delete → rewritten manifest), old orphans, one open transaction
    with an in-flight data file, and an in-flight manifest (marker + file) of a commit in progress — everything aged."""
    t = tablekit.create(path)
    t.append_records(tablekit.rows(2, start=0))
    t.append_records(tablekit.rows(2, start=10))
    victims = tablekit.data_paths(t)[:1]
    with t.new_transaction() as tx:
        tx.delete_files(["/" + victims[0]])
        tx.commit()
    # orphans
    for rel in ("data/orphan_a.parquet", "metadata/manifests/manifest_orphan.avro"):
        with open(os.path.join(path, rel), "wb") as f:
            f.write(b"orphan")
    # open transaction: in-flight data file with its marker
    tx = t.new_transaction().begin()
    tx.append_data(tablekit.rows(1, start=99))
    inflight_data = [p.lstrip("/") for p in tx._written_files]
    # a manifest written by a commit in progress, protected by a marker whose payload names it
    mpath = "metadata/manifests/manifest_inflight_deadbeef.avro"
    with open(os.path.join(path, mpath), "wb") as f:
        f.write(b"in-flight manifest")
    tx._register_inflight(mpath)
    # …and a PRE-BUILT file in a partition sub-directory queued by the same open transaction (file-level API)
    import pyarrow as pa
    import pyarrow.parquet as pq
    from datashard.data_structures import DataFile, FileFormat
    pre = "data/region=eu/part-0.parquet"
    os.makedirs(os.path.join(path, "data/region=eu"), exist_ok=True)
    pq.write_table(pa.table({"id": [77], "name": ["pre"]}, schema=t.file_manager.data_file_manager.create_arrow_schema(tablekit.schema())),
                   os.path.join(path, pre))
    tx.append_files([DataFile(file_path="/" + pre, file_format=FileFormat.PARQUET, partition_values={}, record_count=1,
                              file_size_in_bytes=os.path.getsize(os.path.join(path, pre)))])
    protected = set(inflight_data) | {mpath, pre}
    old = time.time() - 7200
    for r, _d, fs in os.walk(path):
        for fn in fs:
            os.utime(os.path.join(r, fn), (old, old))
    # markers must be fresh (a live transaction is younger than the abandonment timeout) but old enough not to matter otherwise
    return t, tx, protected


def _files(path):
    return set(reader.DirStore(path).list())


def _reachable_all(path):
    store = reader.DirStore(path)
    p = reader.pointer(store)
    md = reader.read_metadata(store, p[1])
    out = set()
    for s in md["snapshots"]:
        c = reader.snapshot_content(store, s)
        out.add(c["mlist"])
        out.update(c["manifests"])
        out.update(c["files"])
    return out


def _run_gc(t, plan):
    plan.wrap(t.storage)
    try:
        try:
            t.garbage_collect(grace_period_ms=1000)
            return "ok"
        except Injected:
            return "raise"
        except Exception as e:      # noqa: BLE001
            return "raise:" + type(e).__name__
    finally:
        plan.unwrap(t.storage)


def _judge(rep, what, case, before, after, outcome, reach, protected, sig_hint=None):
    deleted = before - after
    deleted = {d for d in deleted if not d.startswith("metadata/inflight/")}
    rep.evaluations += 1
    rep.distribution["gc:" + outcome.split(":")[0]] += 1
    if deleted:
        rep.nontrivial(["c07", what, sorted(deleted)])
    live = deleted & (reach | protected)
    if outcome.startswith("raise") and deleted:
        rep.violate(sig_hint or "C07:raise-after-delete", f"{what}: the collection raised after deleting {sorted(deleted)[:3]}", case)
    if live:
        if deleted & protected and not (deleted & reach):
            sig = sig_hint or "C07:protection-dropped"
        else:
            sig = "C07:deleted-reachable-under-fault"
        rep.violate(sig, f"{what}: deleted {sorted(live)[:3]} which is reachable / protected (outcome {outcome})", case)


def _single_faults(ctx, rep, base):
    """every single fault at every storage call of a collection run"""
    path = os.path.join(base, "sf")
    t, tx, protected = _build(path)
    reach = _reachable_all(path)
    probe = Plan()
    snap = os.path.join(base, "sf.snap")
    shutil.copytree(path, snap, copy_function=shutil.copy2)
    _run_gc(t, probe)
    n_calls = probe.n
    rep.extra["collector_storage_calls"] = n_calls
    for k, exc in [(k_, e_) for e_ in (None, FileNotFoundError, PermissionError) for k_ in range(n_calls)]:
        op, arg = probe.log[k] if k < len(probe.log) else ("?", "")
        if exc is not None and not (op in ("read_file", "open_file", "get_modified_time") and (
                "inflight" in arg or ctx.thorough or ctx.intensify)):
            continue        # other error classes: the calls whose failure could be mistaken for "the thing is gone"
        shutil.rmtree(path)
        shutil.copytree(snap, path, copy_function=shutil.copy2)
        before = _files(path)
        plan = Plan(at=k, exc=exc)
        outcome = _run_gc(t, plan)
        what = f"fault ({(exc or Injected).__name__}) at call {k}: {op}({arg})"
        hint = None
        if op == "list_files" and arg == "metadata/inflight":
            hint = "C07:inflight-list-failed"
        elif op == "read_file" and arg.startswith("metadata/inflight/"):
            hint = "C07:marker-payload-unreadable-target-not-under-data"
        elif op == "list_files":
            hint = "C07:raise-after-delete"
        if not outcome.startswith("raise") and op in ("read_file", "open_file", "exists", "list_files") and not arg.startswith("metadata/inflight/") and (
                arg == "metadata.version-hint.text" or arg.startswith("metadata/") or op == "list_files"):
            # the pointer, a metadata file, a manifest (list) or a listing could not be read: what is reachable is not known
            rep.violate("C07:untrusted-input-not-raised", f"{what}: the collection returned normally although {op}({arg}) failed "
                        f"({(exc or Injected).__name__})", {"kind": "single-fault", "call": k, "op": op, "arg": arg, "error": (exc or Injected).__name__})
        _judge(rep, what, {"kind": "single-fault", "call": k, "op": op, "arg": arg, "error": (exc or Injected).__name__}, before, _files(path), outcome, reach, protected, hint)
    shutil.rmtree(snap)
    shutil.rmtree(path, ignore_errors=True)
    try:
        tx.rollback()
    except Exception:       # noqa: BLE001
        pass


def _corruptions(ctx, rep, base):
    """every corruption class on every reachable metadata-plane file"""
    path = os.path.join(base, "co")
    t, tx, protected = _build(path)
    reach = _reachable_all(path)
    store = reader.DirStore(path)
    cur_meta = "metadata/" + reader.pointer(store)[1]
    targets = [cur_meta] + sorted(p for p in reach if p.startswith("metadata/"))
    snap = os.path.join(base, "co.snap")
    shutil.copytree(path, snap, copy_function=shutil.copy2)
    for target in targets:
        for cls in ("missing", "truncated", "truncated-24", "truncated-60", "truncated-1", "garbage", "empty", "transient", "entry-bitrot",
                    "json-empty-object", "json-empty-list", "json-null", "no-snapshots-key", "snapshots-null", "no-current-snapshot-id-key"):
            if (cls.startswith("truncated-") or cls == "entry-bitrot") and not target.endswith(".avro"):
                continue
            if cls in ("no-snapshots-key", "snapshots-null", "no-current-snapshot-id-key") and not target.endswith(".json"):
                continue
            if cls == "entry-bitrot" and "manifest_list_" in target:
                continue
            shutil.rmtree(path)
            shutil.copytree(snap, path, copy_function=shutil.copy2)
            full = os.path.join(path, target)
            plan = Plan()
            if cls == "missing":
                os.remove(full)
            elif cls == "truncated":
                data = open(full, "rb").read()
                open(full, "wb").write(data[: max(1, len(data) // 3)])
            elif cls.startswith("truncated-"):      # cut INSIDE the last Avro block (the header stays intact)
                data = open(full, "rb").read()
                cut = int(cls.split("-")[1])
                if len(data) <= cut + 8:
                    continue
                open(full, "wb").write(data[: len(data) - cut])
            elif cls == "entry-bitrot":         # the Avro container stays valid; ONE entry's file_format no longer names a known format
                import fastavro
                with open(full, "rb") as f_:
                    rd_ = fastavro.reader(f_)
                    ws_, recs_ = rd_.writer_schema, list(rd_)
                if not recs_:
                    continue
                recs_[-1] = dict(recs_[-1], data_file=dict(recs_[-1]["data_file"], file_format="parquat"))
                with open(full, "wb") as f_:
                    fastavro.writer(f_, ws_, recs_)
            elif cls in ("json-empty-object", "json-empty-list", "json-null"):
                # bytes that are VALID JSON and not a file of this kind (a metadata file is an object with its required fields; manifests are Avro)
                open(full, "wb").write({"json-empty-object": b"{}", "json-empty-list": b"[]", "json-null": b"null"}[cls])
            elif cls in ("no-snapshots-key", "snapshots-null", "no-current-snapshot-id-key"):
                import json as _json
                d_ = _json.load(open(full))
                if cls == "no-snapshots-key":
                    d_.pop("snapshots", None)
                elif cls == "snapshots-null":
                    d_["snapshots"] = None
                else:
                    d_.pop("current_snapshot_id", None)
                open(full, "w").write(_json.dumps(d_))
            elif cls == "garbage":
                open(full, "wb").write(b"\x00\xffnot a file of this kind{{{")
            elif cls == "empty":
                open(full, "wb").close()
            elif cls == "transient":
                plan = Plan(match=lambda m, p, target=target: m in ("read_file", "open_file") and p.lstrip("/") == target)
            old = time.time() - 7200
            if os.path.exists(full):
                os.utime(full, (old, old))
            before = _files(path)
            outcome = _run_gc(t, plan)
            after = _files(path)
            what = f"{cls} {target.split('/')[-1][:24]}"
            case = {"kind": "corruption", "class": cls, "target": target}
            rep.evaluations += 1
            rep.nontrivial(["corrupt", cls, target])
            rep.distribution["corrupt:" + outcome.split(":")[0]] += 1
            deleted = {d for d in before - after if not d.startswith("metadata/inflight/")}
            if target == cur_meta and cls == "missing":
                # the pointer dangles: recovery serves an older version (C14/C10 territory); here only: nothing reachable FROM ANY retained
                # snapshot of the version actually served may be deleted — judged by the generic rule below on the original reach set
                pass
            if not outcome.startswith("raise"):
                if target != cur_meta or cls != "missing":
                    rep.violate("C07:untrusted-input-not-raised", f"{what}: the collection did not raise although {target} is {cls}", case)
            if deleted & (reach | protected):
                rep.violate("C07:deleted-reachable-under-corruption", f"{what}: deleted {sorted(deleted & (reach | protected))[:3]}", case)
            elif outcome.startswith("raise") and deleted:
                rep.violate("C07:raise-after-delete", f"{what}: raised after deleting {sorted(deleted)[:3]}", case)
    shutil.rmtree(snap)
    shutil.rmtree(path, ignore_errors=True)


def _escaping_listing(ctx, rep, base):
    path = os.path.join(base, "es")
    t, tx, protected = _build(path)
    reach = _reachable_all(path)
    snap = os.path.join(base, "es.snap")
    shutil.copytree(path, snap, copy_function=shutil.copy2)
    from datashard.storage_backend import LocalStorageBackend
    for prefix in ("data", "metadata/manifests"):
        for pos in ("first", "last"):
            for bad in ("../outside.parquet", ".."):
                shutil.rmtree(path)
                shutil.copytree(snap, path, copy_function=shutil.copy2)
                orig = LocalStorageBackend.list_files

                def fake(self, pfx, _p=prefix, _pos=pos, _bad=bad):
                    r = orig(self, pfx)
                    if pfx == _p:
                        r = ([_bad] + r) if _pos == "first" else (r + [_bad])
                    return r
                LocalStorageBackend.list_files = fake
                try:
                    before = _files(path)
                    outcome = _run_gc(t, Plan())
                finally:
                    LocalStorageBackend.list_files = orig
                what = f"escaping entry {bad!r} {pos} in listing of {prefix}"
                case = {"kind": "escaping", "prefix": prefix, "pos": pos, "entry": bad}
                if not outcome.startswith("raise"):
                    rep.violate("C07:escaping-listing-not-raised", f"{what}: no error", case)
                _judge(rep, what, case, before, _files(path), outcome, reach, protected, "C07:raise-after-delete")
    shutil.rmtree(snap)
    shutil.rmtree(path, ignore_errors=True)


def _marker_faults(ctx, rep, base):
    path = os.path.join(base, "mk")
    t, tx, protected = _build(path)
    reach = _reachable_all(path)
    snap = os.path.join(base, "mk.snap")
    shutil.copytree(path, snap, copy_function=shutil.copy2)
    plans = {
        "inflight listing fails": (lambda: Plan(match=lambda m, p: m == "list_files" and p == "metadata/inflight"), "C07:inflight-list-failed"),
        "marker stat fails": (lambda: Plan(match=lambda m, p: m == "get_modified_time" and "inflight" in p), None),
        "marker payload read fails": (lambda: Plan(match=lambda m, p: m == "read_file" and "inflight" in p), "C07:marker-payload-unreadable-target-not-under-data"),
    }
    for (name, (mk, hint)), exc in [(i_, e_) for i_ in plans.items() for e_ in (None, FileNotFoundError, PermissionError, TimeoutError)]:
        shutil.rmtree(path)
        shutil.copytree(snap, path, copy_function=shutil.copy2)
        before = _files(path)
        plan = mk()
        plan.exc = exc or Injected
        outcome = _run_gc(t, plan)
        _judge(rep, f"{name} ({plan.exc.__name__})", {"kind": "marker-fault", "fault": name, "error": plan.exc.__name__}, before, _files(path), outcome, reach, protected, hint)
    # ABANDONED markers (older than the 24 h timeout) that cannot be removed: a marker still on storage keeps protecting its file
    for exc in (None, PermissionError, TimeoutError):
        shutil.rmtree(path)
        shutil.copytree(snap, path, copy_function=shutil.copy2)
        old3 = time.time() - 3 * 86400
        for fn in os.listdir(os.path.join(path, "metadata/inflight")):
            os.utime(os.path.join(path, "metadata/inflight", fn), (old3, old3))
        before = _files(path)
        plan = Plan(match=lambda m, p: m == "delete_file" and "inflight" in p, exc=exc)
        outcome = _run_gc(t, plan)
        after = _files(path)
        left = {f_ for f_ in after if f_.startswith("metadata/inflight/")}
        gone_protected = (before - after) & protected
        rep.evaluations += 1
        rep.nontrivial(["c07-abandoned-undeletable", (exc or Injected).__name__])
        if gone_protected and left:
            rep.violate("C07:protection-dropped", f"markers older than the abandonment timeout could not be deleted ({(exc or Injected).__name__}); they are still on storage, "
                        f"yet {sorted(gone_protected)[:2]} (the files they name) were deleted (outcome {outcome})",
                        {"kind": "marker-fault", "fault": "abandoned marker cannot be deleted", "error": (exc or Injected).__name__})
    # unparseable / field-less payloads
    for name, payload in (("marker payload garbage", b"\xff{{"), ("marker payload without file_path", b"{}"), ("marker payload empty", b"")):
        shutil.rmtree(path)
        shutil.copytree(snap, path, copy_function=shutil.copy2)
        for fn in os.listdir(os.path.join(path, "metadata/inflight")):
            open(os.path.join(path, "metadata/inflight", fn), "wb").write(payload)
        before = _files(path)
        outcome = _run_gc(t, Plan())
        _judge(rep, name, {"kind": "marker-fault", "fault": name}, before, _files(path), outcome, reach, protected,
               "C07:marker-payload-unreadable-target-not-under-data")
    shutil.rmtree(snap)
    shutil.rmtree(path, ignore_errors=True)


def _os_level_listing_faults(ctx, rep, base):
    """the listing fails BELOW the storage interface: the directory scan of metadata/inflight, data or metadata/manifests raises
    (EACCES / EIO) inside os.walk / os.scandir — the collection must raise without deleting, not see an empty directory"""
    path = os.path.join(base, "osl")
    t, tx, protected = _build(path)
    reach = _reachable_all(path)
    snap = os.path.join(base, "osl.snap")
    shutil.copytree(path, snap, copy_function=shutil.copy2)
    real_scandir, real_listdir = os.scandir, os.listdir
    for victim in ("metadata/inflight", "data", "metadata/manifests"):
        for err in (PermissionError(13, "injected EACCES"), OSError(5, "injected EIO")):
            shutil.rmtree(path)
            shutil.copytree(snap, path, copy_function=shutil.copy2)
            target = os.path.realpath(os.path.join(path, victim))

            def scandir(p_=".", _t=target, _e=err):
                try:
                    if os.path.realpath(os.fsdecode(p_)) == _t:
                        raise _e
                except TypeError:
                    pass
                return real_scandir(p_)

            def listdir(p_=".", _t=target, _e=err):
                try:
                    if os.path.realpath(os.fsdecode(p_)) == _t:
                        raise _e
                except TypeError:
                    pass
                return real_listdir(p_)
            before = _files(path)
            os.scandir, os.listdir = scandir, listdir
            try:
                outcome = _run_gc(t, Plan())
            finally:
                os.scandir, os.listdir = real_scandir, real_listdir
            after = _files(path)
            case = {"kind": "os-level-listing-fault", "directory": victim, "error": type(err).__name__}
            _judge(rep, f"directory scan of {victim} fails ({type(err).__name__}) inside the backend", case, before, after, outcome, reach, protected,
                   "C07:listing-failure-read-as-empty-directory")
            if not outcome.startswith("raise"):
                rep.violate("C07:listing-failure-read-as-empty-directory", f"the directory scan of {victim} failed ({type(err).__name__}) below the storage "
                            f"interface and the collection returned normally ({sorted(before - after)[:2]} deleted)", case)
    shutil.rmtree(snap)
    shutil.rmtree(path, ignore_errors=True)
    try:
        tx.rollback()
    except Exception:       # noqa: BLE001
        pass


def _stale_recovery(ctx, rep, base):
    """the pointer is unusable (garbage / missing / empty) on a table with MORE THAN NINE metadata versions: the collector works from
    whatever version recovery picks — it must be the newest, or nothing reachable from the newest may go"""
    for damage in ("garbage", "missing", "empty"):
        path = os.path.join(base, f"sr-{damage}")
        t = tablekit.create(path)
        for i in range(13):
            t.append_records(tablekit.rows(1, start=i * 10))
            if i == 5:
                with t.new_transaction() as tx:
                    tx.delete_files(["/" + tablekit.data_paths(t)[0]])
                    tx.commit()
        reach = _reachable_all(path)
        hp = os.path.join(path, "metadata.version-hint.text")
        if damage == "missing":
            os.remove(hp)
        else:
            open(hp, "wb").write(b"" if damage == "empty" else b"\x00not a pointer")
        old = time.time() - 7200
        for r, _d, fs in os.walk(path):
            for fn in fs:
                os.utime(os.path.join(r, fn), (old, old))
        before = _files(path)
        outcome = _run_gc(tablekit.load(path), Plan())
        after = _files(path)
        rep.evaluations += 1
        rep.nontrivial(["stale-recovery", damage])
        deleted = {d for d in before - after if not d.startswith("metadata/inflight/")}
        case = {"kind": "stale-recovery", "pointer": damage, "versions": 15}
        if deleted & reach:
            rep.violate("C07:deleted-reachable-under-corruption", f"pointer {damage}, 15 metadata versions: the collection ({outcome}) deleted "
                        f"{len(deleted & reach)} files reachable from the latest committed version, e.g. {sorted(deleted & reach)[:2]}", case)
        shutil.rmtree(path, ignore_errors=True)


def run(ctx, model_ok):
    rep = Report()
    rep.rule = ("a 3-snapshot table (append, append, partial delete with rewritten manifest) with aged orphans, an open transaction's in-flight "
                "data file and an in-flight manifest of a commit in progress: EVERY single fault at every storage call of one collection run; every "
                "corruption class {missing, truncated to a third, cut 1 / 24 / 60 bytes inside the last Avro block, garbage, empty, transient} × every reachable metadata-plane file + the current metadata "
                "file; escaping listing entries first/last in each prefix; marker faults (listing, stat, payload read, garbage / field-less payload). "
                "non-trivial = the run deleted something.")
    base = scratch_dir("c07-")
    try:
        _single_faults(ctx, rep, base)
        _corruptions(ctx, rep, base)
        _os_level_listing_faults(ctx, rep, base)
        _stale_recovery(ctx, rep, base)
        _escaping_listing(ctx, rep, base)
        _marker_faults(ctx, rep, base)
        rep.exhaustive = True
        if model_ok:
            from . import c07model
            c07model.correspond(ctx, rep)
    finally:
        shutil.rmtree(base, ignore_errors=True)
    return rep
