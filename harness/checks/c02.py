"""C02 — readers observe only whole committed snapshots.

Theorems: DSV/Props/C02.lean (read_is_snapshot, api_is_snapshot, read_is_snapshot_refuted / _fixed, monotone_reads).
Correspondence / oracle: 1–2 real readers (every read API) × 1–3 real writers (appends, multi-append transactions,
deletes, rollbacks, failed commits) under the deterministic scheduler. For each read: the positions of its pointer reads
on the timeline of pointer flips are fed to the reader model, which must predict the result; the result must be the row
multiset of ONE version that was current between the read's start and end; per-handle reads never go backwards.
"""
import os
import shutil

from .. import driver, reader, sched, tablekit, vstore
from ..report import Report
from ..util import scratch_dir
from . import c01

ASSUMPTIONS = ["files of versions that were ever current are immutable and present (C01, C05, C06, C09)"]

# "1" = the reader as found (two refreshes), "0" = repaired (one refresh)
DOUBLE_REFRESH = "0"

APIS = ["scan", "scan_parallel", "scan_batches", "iter_records", "row_count", "scan_filter"]


def _read(t, api):
    if api == "scan":
        return ("rows", sorted(reader.rowkey(r) for r in t.scan()))
    if api == "scan_parallel":
        return ("rows", sorted(reader.rowkey(r) for r in t.scan(parallel=2)))
    if api == "scan_batches":
        return ("rows", sorted(reader.rowkey(r) for b in t.scan_batches(batch_size=1) for r in b))
    if api == "iter_records":
        return ("rows", sorted(reader.rowkey(r) for r in t.iter_records()))
    if api == "row_count":
        return ("count", t.row_count())
    if api == "scan_filter":
        return ("rows-ge0", sorted(reader.rowkey(r) for r in t.scan(filter={"id": (">=", 0)})))
    raise ValueError(api)


def run_case(ctx, rep, case, base, model_ok):
    rng = ctx.rng("case", case["id"])
    path = os.path.join(base, f"t{case['id']}")
    t0 = tablekit.create(path)
    if not case["start_empty"]:
        t0.append_records(tablekit.rows(2, tag="init"))
    if "delcur" in case["writers"]:
        t0.append_records(tablekit.rows(1, start=50, tag="second"))
    if any(w in ("delete-partial", "delete+append") for w in case["writers"]):
        with t0.new_transaction() as tx0:       # one manifest holding three data files
            tx0.append_data(tablekit.rows(1, start=60, tag="m1_"))
            tx0.append_data(tablekit.rows(1, start=61, tag="m2_"))
            tx0.append_data(tablekit.rows(1, start=62, tag="m3_"))
            tx0.commit()
    for j_ in range(case.get("extra_appends", 0)):      # more manifests in the current snapshot
        t0.append_records(tablekit.rows(1, start=70 + j_, tag=f"x{j_}_"))
    store = reader.DirStore(path)
    chooser = case["chooser"](rng) if case.get("chooser") else sched.random_chooser(rng, rng.choice([0.0, 0.2, 0.5]))
    S = sched.Sched(chooser, watchdog_s=40)
    actors = {}
    readers = {}
    results = {}
    for wi, wk in enumerate(case["writers"]):
        a = 1 + wi
        h = tablekit.load(path)
        vstore.instrument_table(h, S)

        def wfn(h=h, wk=wk, a=a):
            if wk == "append":
                return h.append_records(tablekit.rows(1, start=100 * a, tag=f"w{a}_"))
            if wk in ("delete-partial", "delete+append"):
                paths = tablekit.data_paths(h)
                with h.new_transaction() as tx:
                    tx.delete_files(["/" + paths[-1]])       # one file of the three-file manifest: the manifest is rewritten
                    if wk == "delete+append":
                        tx.append_data(tablekit.rows(1, start=100 * a, tag=f"w{a}_"))
                    return tx.commit()
            if wk == "append+expire":        # ONE transaction: an append and an expiry of every older snapshot
                with h.new_transaction() as tx:
                    tx.append_data(tablekit.rows(1, start=100 * a, tag=f"w{a}_"))
                    tx.expire_snapshots(10**15)
                    return tx.commit()
            if wk == "multi":
                with h.new_transaction() as tx:
                    tx.append_data(tablekit.rows(1, start=100 * a, tag=f"w{a}a_"))
                    tx.append_data(tablekit.rows(1, start=100 * a + 1, tag=f"w{a}b_"))
                    return tx.commit()
            if wk == "delete":
                paths = tablekit.data_paths(h)
                if not paths:
                    return None
                with h.new_transaction() as tx:
                    tx.delete_files(["/" + paths[0]])
                    return tx.commit()
            if wk == "delcur":      # roll the table back: delete the CURRENT snapshot (the pointer moves to an older one)
                cur = h.metadata_manager.refresh().current_snapshot_id
                if cur in (None, -1):
                    return None
                return h.snapshot_manager.delete_snapshot(cur)
            if wk.startswith("dirfsync"):    # the directory fsync right after the rename of the pointer (or of the metadata file) fails
                import os as _os                 # with EIO, once: the rename itself took effect
                import stat
                import threading
                from ..vstore import path_class
                target = wk.split(":")[1] if ":" in wk else "hint"
                real_fsync, real_replace, me = _os.fsync, _os.replace, threading.get_ident()
                st = {"last": None, "fired": False}

                def replace(src, dst, *a_, **k_):
                    r = real_replace(src, dst, *a_, **k_)
                    if threading.get_ident() == me:
                        st["last"] = _os.path.relpath(str(dst), path) if str(dst).startswith(path) else str(dst)
                    return r

                def failing(fd):
                    if threading.get_ident() == me and not st["fired"] and st["last"] is not None and path_class(st["last"]) == target:
                        try:
                            isdir = stat.S_ISDIR(_os.fstat(fd).st_mode)
                        except OSError:
                            isdir = False
                        if isdir:
                            st["fired"] = True
                            raise OSError(5, "injected EIO on the directory fsync after the rename")
                    return real_fsync(fd)
                _os.fsync, _os.replace = failing, replace
                try:
                    return h.append_records(tablekit.rows(1, start=100 * a, tag=f"w{a}_"))
                except OSError:
                    return "failed"
                finally:
                    _os.fsync, _os.replace = real_fsync, real_replace
            if wk == "rollback":
                tx = h.new_transaction().begin()
                tx.append_data(tablekit.rows(1, start=100 * a, tag=f"w{a}_"))
                return tx.rollback()
            if wk == "failed":
                with tablekit.FailOnce(h.storage, "write_file", lambda p, c: p == "metadata.version-hint.text", OSError("injected")):
                    try:
                        return h.append_records(tablekit.rows(1, start=100 * a, tag=f"w{a}_"))
                    except OSError:
                        return "failed"
        actors[a] = wfn
    shared_h = None
    for ri, apis in enumerate(case["readers"]):
        a = 11 + ri
        if case.get("shared_reader_handle") and shared_h is not None:
            h = shared_h            # several readers (threads) through ONE Table object
        else:
            h = tablekit.load(path)
            vstore.instrument_table(h, S)
            shared_h = h
        readers[a] = apis

        def rfn(h=h, apis=apis, a=a):
            out = []
            for api in apis:
                S.record("read-start", api)
                undo = None
                if case.get("reader_hint_fault"):
                    # the reader's FIRST read of the pointer fails transiently (EMFILE / EIO): it may raise — it must not guess
                    o_rf = h.storage.read_file
                    shot = {"n": 0}

                    def faulty(p_, *a_, _o=o_rf, **k_):
                        if shot["n"] == 0 and str(p_).lstrip("/") == "metadata.version-hint.text":
                            shot["n"] = 1
                            raise OSError(24, "injected transient error on the pointer read")
                        return _o(p_, *a_, **k_)
                    h.storage.read_file = faulty
                    undo = lambda: setattr(h.storage, "read_file", o_rf)
                try:
                    r = _read(h, api)
                except Exception as e:      # noqa: BLE001
                    r = ("raise", f"{type(e).__name__}: {str(e)[:60]}")
                    if case.get("reader_hint_fault") and "injected transient" in str(e):
                        r = ("raise-injected", "")
                finally:
                    if undo:
                        undo()
                S.record("read-end", r)
                out.append(r)
            return out
        actors[a] = rfn
    restore = c01._patch_sleep(S)
    try:
        with c01._NoBackoff(S):
            res = S.run(actors)
    finally:
        restore()
    # ---- timeline of pointer values: initial + every successful pointer write, with the event index of each flip
    p_final = reader.pointer(store)
    flips = []          # (event index, metadata file name)
    for i, (a, kind, d) in enumerate(S.events):
        if kind == "storage" and d["cls"] == "hint" and d["op"] in ("write_file", "write_file_cas") and "result" in d:
            flips.append((i, d["args"][0].decode()))
    names = [None] * (len(flips) + 1)
    # initial name: whatever the first reader / writer read; recover from the metadata log of the first flipped version or the final pointer
    md_files = reader.metadata_files(store)
    first = flips[0][1] if flips else p_final[1]
    if flips:
        md1 = reader.read_metadata(store, flips[0][1])
        names[0] = md1["metadata_log"][-1]["metadata-file"].rsplit("/", 1)[-1] if md1.get("metadata_log") else None
    else:
        names[0] = p_final[1]
    for k, (_i, n) in enumerate(flips):
        names[k + 1] = n
    case_rec = {"kind": "readers-writers", "writers": case["writers"], "readers": case["readers"], "start_empty": case["start_empty"],
                "schedule": [str(x) for x in S.schedule]}
    versions = []
    for n in names:
        try:
            v = reader.view(store, n)
        except reader.Broken as e:
            # no collection ran in this case: a version that was current during the run must still be readable afterwards —
            # a reader that resolved it a moment ago is still opening its files
            rep.violate("C02:files-of-a-version-current-during-the-run-are-gone",
                        f"version {n} was current during the run; with no collection having run, reading it now fails: {e}", case_rec)
            shutil.rmtree(path, ignore_errors=True)
            return
        versions.append({"has": v["cur"] not in (None, -1), "rows": v["rows"]})
    rep.evaluations += 1
    rep.distribution[f"w={len(case['writers'])} r={len(case['readers'])}"] += 1
    # ---- one transaction crosses the commit point ONCE: a writer's single commit call moves the pointer at most one time
    flips_by = {}
    for (a_, kind_, d_) in S.events:
        if kind_ == "storage" and d_["cls"] == "hint" and d_["op"] in ("write_file", "write_file_cas") and "result" in d_:
            flips_by[a_] = flips_by.get(a_, 0) + 1
    for a_, n_ in flips_by.items():
        if n_ > 1:
            rep.violate("C02:transaction-published-in-more-than-one-step",
                        f"writer {a_} ({case['writers'][a_ - 1]}) made one commit call and moved the pointer {n_} times: readers in between see a state "
                        f"that is neither before nor after the transaction", case_rec)
    # ---- each read: pointer reads → timeline positions
    def pos_of(event_index):
        return len([1 for (fi, _n) in flips if fi < event_index])
    for a in readers:
        evs = [(i, k, d) for i, (x, k, d) in enumerate(S.events) if x == a]
        cur_start = None
        hint_reads = []
        last_seen = -1
        for (i, k, d) in evs:
            if k == "read-start":
                cur_start, hint_reads, api = i, [], d
            elif k == "storage" and d["cls"] == "hint" and d["op"] == "read_file" and cur_start is not None:
                hint_reads.append(i)
            elif k == "read-end" and cur_start is not None:
                lo, hi = pos_of(cur_start), pos_of(i)
                got = d
                rep.evaluations += 1
                rep.distribution["api:" + api] += 1
                if hi > lo:
                    rep.nontrivial(["c02", api, case_rec["schedule"]])
                ok_versions = []
                for k_ in range(lo, hi + 1):
                    v = versions[k_]
                    exp = v["rows"]
                    if got[0] == "rows" and got[1] == exp:
                        ok_versions.append(k_)
                    elif got[0] == "count" and got[1] == len(exp):
                        ok_versions.append(k_)
                    elif got[0] == "rows-ge0" and got[1] == exp:
                        ok_versions.append(k_)
                if not ok_versions and got[0] == "raise-injected":
                    rep.distribution["read-raised-the-injected-fault"] += 1
                elif not ok_versions:
                    if got[0] == "raise" and "inconsistent" in got[1] and not versions[lo]["has"]:
                        sig = "C02:spurious-inconsistent-error-on-first-commit"
                    elif got[0] == "raise":
                        sig = "C02:read-raises:" + got[1].split(":")[0]
                    else:
                        sig = "C02:read-is-not-a-committed-snapshot"
                    rep.violate(sig, f"{api} returned {str(got)[:100]}; versions current during the read: {lo}..{hi} with {[len(versions[k_]['rows']) for k_ in range(lo, hi + 1)]} rows",
                                case_rec)
                else:
                    if min(ok_versions) < last_seen and max(ok_versions) < last_seen:
                        rep.violate("C02:reads-moved-backwards", f"{api}: handle saw version {last_seen} then {max(ok_versions)}", case_rec)
                    last_seen = max(last_seen, min(ok_versions))
                # ---- correspondence with the reader model
                if model_ok and hint_reads and got[0] != "raise-injected" and not case.get("reader_hint_fault"):
                    i1 = pos_of(hint_reads[0] + 1)
                    i2 = pos_of(hint_reads[1] + 1) if len(hint_reads) > 1 else i1
                    tl = ",".join(f"{1 if v['has'] else 0}/{len(v['rows'])}" for v in versions)
                    req = f"rd.get {DOUBLE_REFRESH} {tl} {i1} {i2}"
                    m = driver.ask([req])[0]
                    impl = ("raise" if got[0] == "raise" else str(got[1] if got[0] == "count" else len(got[1])))
                    rep.corr_cases += 1
                    if m != impl and not (api == "scan_filter"):
                        rep.diverge("rd.get (_get_all_data_files)", {"request": req, "api": api, **case_rec}, m, impl)
                cur_start = None
    case["reader_gates"] = len([1 for a, _w in S.trace if a == 11])
    case["writer_gates"] = len([1 for a, _w in S.trace if a == 1])
    if case["id"] == 0:
        rep.sample({"timeline_rows": [len(v["rows"]) for v in versions], "schedule": case_rec["schedule"][:60]})
    shutil.rmtree(path, ignore_errors=True)


def _empty_then_first_append(rng):
    """reader performs its first pointer read on the empty table, then the first append commits, then the reader goes on"""
    def choose(s, ready):
        r_reads = len([1 for a, w in s.trace if a == 11 and w == "read_file meta"])
        if r_reads < 1 and 11 in ready:
            return 11
        if 1 in ready:
            return 1
        return sorted(ready)[0]
    return choose


def _writer_after_k(k):
    """the reader passes k of its gated operations, then writer 1 runs a whole commit, then the reader goes on"""
    def mk(rng):
        def choose(s, ready):
            n = len([1 for a, _w in s.trace if a == 11])
            if n < k and 11 in ready:
                return 11
            if 1 in ready:
                return 1
            return sorted(ready)[0]
        return choose
    return mk


def _between_reads(rng):
    """the reader finishes its first read, then writer 1 runs a whole commit, then the reader reads again through the same handle"""
    def choose(s, ready):
        done = len([1 for (a, k, _d) in s.events if a == 11 and k == "read-end"])
        if done < 1 and 11 in ready:
            return 11
        if 1 in ready:
            return 1
        return sorted(ready)[0]
    return choose


def _reader_after_k(k):
    """writer 1 passes k of its gated operations, then the reader runs a whole read, then the writer goes on"""
    def mk(rng):
        def choose(s, ready):
            n = len([1 for a, _w in s.trace if a == 1])
            if n < k and 1 in ready:
                return 1
            if 11 in ready:
                return 11
            return sorted(ready)[0]
        return choose
    return mk


def _second_reader_after_k(k, j=None):
    """reader 11 passes k of its gated operations, then (a whole commit, then) reader 12 (same Table object) runs — its whole read, or
    only its first j gated operations, after which 11 runs to its end before 12 goes on"""
    def mk(rng):
        streak = {"n": 0}

        def choose(s, ready):
            n = len([1 for a, _w in s.trace if a == 11])
            if n < k and 11 in ready:
                return 11
            if 1 in ready:              # a whole commit first (if the case has a writer), then the second reader
                return 1
            if j is not None and len([1 for a, _w in s.trace if a == 12]) >= j and 11 in ready and streak.get("n11", 0) < 150:
                streak["n11"] = streak.get("n11", 0) + 1
                return 11               # 12 stands in the middle of its read: 11 finishes first (unless it waits for something 12 holds)
            if 12 in ready and streak["n"] < 150:
                streak["n"] += 1
                return 12
            streak["n"] = 0         # 12 waits for something 11 holds (a lock of the shared object): let 11 move
            return 11 if 11 in ready else sorted(ready)[0]
        return choose
    return mk


def directed_sweep(ctx, rep, base, model_ok, next_id):
    """every read API × writer kind: a whole commit placed after each of the reader's gated operations in turn"""
    stride = 1 if (ctx.thorough or ctx.intensify) else 2
    # same handle: read, a whole commit of each kind (incl. rolling the table back), read again
    for api in APIS:
        for wk in ("append", "delete", "multi", "delcur", "failed", "rollback", "dirfsync:hint", "delete-partial", "delete+append", "append+expire"):
            c = {"id": next_id, "start_empty": False, "writers": [wk], "readers": [[api, api]], "chooser": _between_reads}
            next_id += 1
            try:
                run_case(ctx, rep, c, base, model_ok)
                rep.distribution["directed-between-reads"] += 1
            except sched.Stuck as e:
                rep.notes.append(f"between-reads case {api}/{wk} stuck: {e}")
    # the other way round: a whole read placed after each gated operation of a commit (incl. commits that fail half-way)
    for wk in ("append", "delete", "failed", "dirfsync:hint", "dirfsync:meta", "delete-partial", "delete+append", "append+expire", "append!rf", "failed!rf"):
        for api in (APIS if (ctx.thorough or ctx.intensify) else ["scan", "row_count", "iter_records"]):
            k = 0
            while True:
                c = {"id": next_id, "start_empty": False, "writers": [wk.split("!")[0]], "readers": [[api]], "chooser": _reader_after_k(k),
                     "reader_hint_fault": wk.endswith("!rf")}
                next_id += 1
                try:
                    run_case(ctx, rep, c, base, model_ok)
                except sched.Stuck as e:
                    rep.notes.append(f"reverse directed case {api}/{wk}/k={k} stuck: {e}")
                    break
                rep.distribution["directed-reverse"] += 1
                if k >= c.get("writer_gates", 0):
                    break
                k += stride
    # two reads through ONE Table object (threads sharing a handle), 5 manifests: the second whole read after each gated operation of the first
    for api in (APIS if (ctx.thorough or ctx.intensify) else ["scan", "row_count", "iter_records", "scan_batches"]):
        k = 0
        while True:
            c = {"id": next_id, "start_empty": False, "writers": ["append"] if k % 2 == 0 else ["delete"], "readers": [[api], [api]],
                 "chooser": _second_reader_after_k(k), "shared_reader_handle": True, "extra_appends": 4}
            next_id += 1
            try:
                run_case(ctx, rep, c, base, model_ok)
                for j in ((3, 6, 9) if not (ctx.thorough or ctx.intensify) else range(1, 14)):
                    c2 = dict(c, id=next_id, chooser=_second_reader_after_k(k, j))
                    next_id += 1
                    run_case(ctx, rep, c2, base, model_ok)
                    rep.distribution["directed-shared-handle-readers"] += 1
            except sched.Stuck as e:
                rep.notes.append(f"shared-handle readers {api}/k={k} stuck: {e}")
                break
            rep.distribution["directed-shared-handle-readers"] += 1
            if k >= c.get("reader_gates", 0):
                break
            k += stride
    for api in APIS:
        for wk in ("append", "delete", "multi", "dirfsync:hint"):
            k = 0
            while True:
                c = {"id": next_id, "start_empty": False, "writers": [wk], "readers": [[api]], "chooser": _writer_after_k(k)}
                next_id += 1
                try:
                    run_case(ctx, rep, c, base, model_ok)
                except sched.Stuck as e:
                    rep.notes.append(f"directed case {api}/{wk}/k={k} stuck: {e}")
                    rep.distribution["stuck"] += 1
                    break
                rep.distribution["directed"] += 1
                if k >= c.get("reader_gates", 0):
                    break
                k += stride
    return next_id


def cases(ctx):
    rng = ctx.rng("cases")
    out = []
    for api in APIS:
        out.append({"start_empty": True, "writers": ["append"], "readers": [[api]], "chooser": _empty_then_first_append})
    out.append({"start_empty": False, "writers": ["multi"], "readers": [["scan", "scan_batches", "row_count"]]})
    for _ in range(ctx.budget(40, 1500)):
        out.append({"start_empty": rng.random() < 0.4,
                    "writers": [rng.choice(["append", "append", "multi", "delete", "rollback", "failed", "delcur", "delete-partial", "delete+append"]) for _ in range(rng.randint(1, 3))],
                    "readers": [[rng.choice(APIS) for _ in range(rng.randint(1, 3))] for _ in range(rng.randint(1, 2))]})
    for i, c in enumerate(out):
        c["id"] = i
    return out


def _s3_reads_between_requests(ctx, rep):
    """object storage: one commit (append / two-append transaction / delete) whose requests are (a) undisturbed, (b) the pointer PUT lands
    and its ANSWER is lost (5xx), (c) a metadata / manifest PUT fails once — and a reader (its own handle) that reads after EVERY request the
    writer makes, and once more when the writer has returned. Every read shows the pre- or the post-state; once the post-state was seen no
    later read shows the pre-state again."""
    from .. import fakes3
    for cas in (True, False):
        for wk in ("append", "multi", "delete"):
            for fault in ("none", "pointer-put-landed-answer-lost", "metadata-put-fails-once", "manifest-put-fails-once"):
                with fakes3.S3Env(cas=cas) as env, fakes3.NoSleep():
                    loc = "wh/r"
                    t0 = tablekit.create(loc)
                    t0.append_records(tablekit.rows(2, tag="init"))
                    t0.append_records(tablekit.rows(1, start=50, tag="second"))
                    w, r = tablekit.load(loc), tablekit.load(loc)
                    pre = sorted(map(reader.rowkey, r.scan()))
                    seen = []
                    state = {"busy": False, "fault_left": 1 if fault != "none" else 0}

                    def look(tag):
                        state["busy"] = True
                        try:
                            for api in ("scan", "row_count"):
                                try:
                                    got = sorted(map(reader.rowkey, r.scan())) if api == "scan" else r.row_count()
                                except Exception as e:      # noqa: BLE001
                                    got = "raise:" + type(e).__name__
                                seen.append((tag, api, got))
                        finally:
                            state["busy"] = False

                    def hook(phase, opn, key, kw):
                        if state["busy"] or opn in ("body-read", "list-page", "put-body-sent"):
                            return
                        k_ = str(key)
                        if state["fault_left"] and opn == "put":
                            if fault == "pointer-put-landed-answer-lost" and phase == "after" and k_.endswith("metadata.version-hint.text"):
                                state["fault_left"] -= 1
                                look("pointer landed")
                                raise fakes3.client_error("InternalError", "PutObject")
                            if fault == "metadata-put-fails-once" and phase == "before" and k_.endswith(".metadata.json"):
                                state["fault_left"] -= 1
                                raise fakes3.client_error("InternalError", "PutObject")
                            if fault == "manifest-put-fails-once" and phase == "before" and "/manifests/" in k_:
                                state["fault_left"] -= 1
                                raise fakes3.client_error("SlowDown", "PutObject")
                        if phase == "after":
                            look(f"{opn} {k_.rsplit('/', 1)[-1][:28]}")
                    env.fake.hook = hook
                    outcome = "ok"
                    try:
                        if wk == "append":
                            w.append_records(tablekit.rows(1, start=100, tag="w_"))
                        elif wk == "multi":
                            with w.new_transaction() as tx:
                                tx.append_data(tablekit.rows(1, start=100, tag="wa_"))
                                tx.append_data(tablekit.rows(1, start=101, tag="wb_"))
                                tx.commit()
                        else:
                            with w.new_transaction() as tx:
                                tx.delete_files(["/" + tablekit.data_paths(w)[0]])
                                tx.commit()
                    except Exception as e:      # noqa: BLE001
                        outcome = "raise:" + type(e).__name__
                    env.fake.hook = None
                    look("writer returned")
                    try:
                        final = sorted(map(reader.rowkey, tablekit.load(loc).scan()))
                    except Exception as e:      # noqa: BLE001
                        final = "raise:" + type(e).__name__
                    rep.evaluations += 1
                    rep.nontrivial(["s3-reads", cas, wk, fault, len(seen)])
                    rep.distribution[f"s3-reads:{outcome.split(':')[0]}"] += 1
                    case = {"kind": "s3-reads-after-each-writer-request", "conditional_writes": cas, "writer": wk, "fault": fault, "writer_outcome": outcome}
                    posts = [g for _t, a_, g in seen if a_ == "scan" and g != pre and not isinstance(g, str)]
                    post = posts[0] if posts else None
                    flipped = False
                    for tag, api, got in seen:
                        if isinstance(got, str) and got.startswith("raise"):
                            rep.violate("C02:read-raises-during-commit", f"S3 ({'CAS' if cas else 'plain'}) {wk} / {fault}: {api} after '{tag}' raises {got}", {**case, "after": tag})
                            break
                        val_pre = pre if api == "scan" else len(pre)
                        val_post = None if post is None else (post if api == "scan" else len(post))
                        if got == val_pre and val_pre != val_post:
                            if flipped:
                                rep.violate("C02:read-moved-backwards", f"S3 ({'CAS' if cas else 'plain'}) {wk} / {fault}: {api} after '{tag}' shows the state BEFORE the commit "
                                            f"although an earlier read through the same handle had shown the state after it (writer: {outcome})", {**case, "after": tag})
                                break
                        elif got == val_post:
                            flipped = True
                        else:
                            rep.violate("C02:read-shows-neither-pre-nor-post", f"S3 ({'CAS' if cas else 'plain'}) {wk} / {fault}: {api} after '{tag}' returns "
                                        f"{got if isinstance(got, int) else len(got)} rows: neither the state before nor after the commit", {**case, "after": tag})
                            break
                    if flipped and final == pre:
                        rep.violate("C02:read-moved-backwards", f"S3 ({'CAS' if cas else 'plain'}) {wk} / {fault}: readers saw the new snapshot, the final table is the old one", case)
                    if post is not None and wk == "multi" and len(post) != len(pre) + 2:
                        rep.violate("C02:multi-op-transaction-partially-visible", f"S3 {wk}: a read showed {len(post)} rows", case)


def run(ctx, model_ok):
    rep = Report()
    rep.rule = ("1–2 readers (1–3 reads each over scan, parallel scan, scan_batches(1), iter_records, row_count, filtered scan) × 1–3 writers "
                "(append, two-append transaction, delete files, rollback, failed commit) on the local backend, interleaved at storage-operation "
                "granularity; directed: 'first append lands between the reader's two refreshes' per API, and a SWEEP placing one whole commit "
                "(append / delete / two-append transaction) after each gated storage operation of each read API in turn (every 2nd in the "
                "quick tier). non-trivial = a flip happened during the read.")
    base = scratch_dir("c02-")
    try:
        cs = cases(ctx)
        directed_sweep(ctx, rep, base, model_ok, len(cs) + 1)
        _s3_reads_between_requests(ctx, rep)
        for c in cs:
            try:
                run_case(ctx, rep, c, base, model_ok)
            except sched.Stuck as e:
                rep.notes.append(f"case {c['id']} stuck: {e}")
                rep.distribution["stuck"] += 1
    finally:
        shutil.rmtree(base, ignore_errors=True)
    return rep
