"""C12 — filters mean what SQL says, identically in every scan API.

Theorems: DSV/Props/C12.lean (build_is_sql, conj_is_sql, apis_agree_*, pushdown_agrees_partial/_refuted,
parse_table_correct, compile_*).  Correspondence: `_build_condition`, `parse_filter_dict`, the parquet reader's
pushdown vs the model.  Oracle: every scan API × option vs an independent evaluator on real tables.
"""
import datetime as dt
import io
import json
import math
import os
import shutil

from .. import driver
from ..fltcommon import NAN, OP_SPELL, as_float, filter_op, multisets, ref_eval, small_filters, tok, toks
from ..report import Report
from ..util import enc, scratch_dir

ASSUMPTIONS = [
    "column values are abstracted to NULL / NaN / elements of a totally ordered domain (Int in the model)",
    "NULL elements of an in/not_in value set are dropped before evaluation (library contract; DESIGN §7)",
    "NaN inside an in/not_in value set is unspecified and not judged (DESIGN §7)",
    "pyarrow compute kernels and the parquet reader's statistics pushdown are observed each run, not proved",
]

DOMAIN = [None, NAN, -1, 0, 1, 2]


def _impl_keeps(op, lit, vset):
    import pyarrow as pa
    from datashard.filters import FilterExpression, to_pyarrow_compute_expression
    value = [as_float(v) for v in vset] if op in ("in", "notin") else as_float(lit)
    t = pa.table({"x": pa.array([as_float(v) for v in DOMAIN], type=pa.float64()), "k": list(range(len(DOMAIN)))})
    ce = to_pyarrow_compute_expression([FilterExpression("x", filter_op(op), value)])
    kept = set(t.filter(ce).column("k").to_pylist())
    return [1 if i in kept else 0 for i in range(len(DOMAIN))]


def _check_eval(ctx, rep, model_ok):
    lits = [None, NAN, -1, 0, 1, 2, 3]
    set_elems = [None, NAN, 0, 1, 3]
    cases = list(small_filters(lits, set_elems, 3 if ctx.thorough else 2))
    reqs = [f"flt.eval {op} {tok(lit)} {toks(vset)} {toks(DOMAIN)}" for op, lit, vset in cases]
    model = driver.ask(reqs) if model_ok else [None] * len(reqs)
    for (op, lit, vset), m in zip(cases, model):
        try:
            impl = _impl_keeps(op, lit, vset)
        except Exception as e:
            impl = f"raise:{type(e).__name__}"
        rep.evaluations += 1
        rep.distribution[f"eval:{op}"] += 1
        rep.nontrivial(["eval", op, tok(lit), toks(vset)])
        if m is not None:
            rep.corr_cases += 1
            mk = [int(t[0]) for t in m.split(" ")]
            if mk != impl:
                rep.diverge("flt.eval (_build_condition on pyarrow)", {"op": op, "lit": tok(lit), "set": toks(vset)}, mk, impl)
        if isinstance(impl, list):
            for x, k in zip(DOMAIN, impl):
                r = ref_eval(op, as_float(lit), [as_float(v) for v in vset], as_float(x))
                if r == "unspecified":
                    continue
                if (r is True) != bool(k):
                    rep.violate(f"C12:build-not-sql:{op}", f"{op} {tok(lit)} {toks(vset)} on row {tok(x)}: kept={k}, SQL={r}",
                                {"kind": "eval", "op": op, "lit": tok(lit), "set": toks(vset), "row": tok(x)})
    rep.sample({"eval_case": reqs[7], "model": model[7]})


def _impl_pushdown(values, op, lit, vset):
    import pyarrow as pa
    import pyarrow.parquet as pq
    from datashard.filters import FilterExpression, to_pyarrow_compute_expression
    value = [as_float(v) for v in vset] if op in ("in", "notin") else as_float(lit)
    t = pa.table({"x": pa.array([as_float(v) for v in values], type=pa.float64())})
    b = io.BytesIO()
    pq.write_table(t, b)
    ce = to_pyarrow_compute_expression([FilterExpression("x", filter_op(op), value)])
    out = pq.read_table(io.BytesIO(b.getvalue()), filters=ce).column("x").to_pylist()
    return out


def _check_pushdown(ctx, rep, model_ok):
    lits = [None, NAN, 0, 1, 2]
    set_elems = [None, 0, 1]
    cases = []
    for values in multisets([None, NAN, 0, 1], 3):
        if not values:
            continue
        for (op, lit, vset) in small_filters(lits, set_elems, 2):
            cases.append((values, op, lit, vset))
    if not ctx.thorough and not ctx.intensify:
        cases = cases[:: 3]
    reqs = [f"flt.push {op} {tok(lit)} {toks(vset)} {toks(values)}" for values, op, lit, vset in cases]
    model = driver.ask(reqs) if model_ok else [None] * len(reqs)
    for (values, op, lit, vset), m in zip(cases, model):
        impl = toks(_impl_pushdown(values, op, lit, vset))
        rep.evaluations += 1
        rep.distribution["push"] += 1
        if m is not None:
            rep.corr_cases += 1
            if m != impl:
                rep.diverge("flt.push (parquet reader statistics pushdown)",
                            {"values": toks(values), "op": op, "lit": tok(lit), "set": toks(vset)}, m, impl)


def _cond_cases():
    """(python condition, protocol encoding) pairs: well-formed and malformed shapes."""
    out = []
    def S(v): return "S:" + tok(v)
    def Q(vs): return "Q:" + toks(vs)
    spellings = ["==", "=", "eq", "!=", "<>", "ne", "<", "lt", "<=", "le", ">", "gt", ">=", "ge", "in", "not_in", "not in", "notin",
                 "between", "is_null", "isnull", "is_not_null", "notnull", "isnotnull",
                 "IN", "Not In", "BETWEEN", "Is_Null", "EQ", "gte", "=<", "startswith", " ==", "== ", "", "like", "not", "is", "null",
                 "i̇n", "K", "ınot", "in "]
    vals = [(1.0, S(1)), (None, S(None)), ([1.0, 2.0], Q([1, 2])), ((1.0, 2.0), Q([1, 2])), ([1.0], Q([1])), ([], Q([])),
            ([None, 1.0], Q([None, 1])), ((1.0, 2.0, 0.0), Q([1, 2, 0])), ("ab", "O"), ({"a": 1}, "O")]
    for s in spellings:
        for pv, ev in vals:
            out.append(((s, pv), f"t2 s={enc(s)} {ev}"))
    for pv, ev in vals:
        out.append(((1, pv), f"t2 nonstr {ev}"))
        out.append(((None, pv), f"t2 nonstr {ev}"))
        out.append(((["=="], pv), f"t2 unhash {ev}"))
    out.append((None, "none"))
    out.append((1.0, "plain S:1"))
    out.append((2.0, "plain S:2"))
    out.append(([1.0, 2.0], "plain Q:1,2"))
    out.append(((">",), "plain O"))
    out.append(((">", 1.0, 2.0), "plain O"))
    out.append(("abc", "plain O"))
    out.append(({"a": 1}, "plain O"))
    return out


def _impl_compile(cond):
    """parse + build + evaluate on a small table; canonical outcome."""
    import pyarrow as pa
    from datashard.filters import parse_filter_dict, to_pyarrow_compute_expression
    t = pa.table({"x": pa.array([1.0, 2.0, None, NAN], type=pa.float64())})
    try:
        es = parse_filter_dict({"x": cond})
        ce = to_pyarrow_compute_expression(es)
        t.filter(ce)
    except Exception:
        return "raise"
    from datashard.filters import FilterOp
    names = {FilterOp.EQ: "eq", FilterOp.NE: "ne", FilterOp.LT: "lt", FilterOp.LE: "le", FilterOp.GT: "gt", FilterOp.GE: "ge",
             FilterOp.IN: "in", FilterOp.NOT_IN: "notin", FilterOp.IS_NULL: "isnull", FilterOp.IS_NOT_NULL: "notnull"}
    parts = []
    for e in es:
        if e.op in (FilterOp.IN, FilterOp.NOT_IN):
            parts.append(f"{names[e.op]}:N:{toks(list(e.value))}")
        else:
            parts.append(f"{names[e.op]}:{tok(e.value)}:-")
    return "ok " + ";".join(parts)


def _check_compile(ctx, rep, model_ok):
    cases = _cond_cases()
    reqs = ["flt.compile " + e for _c, e in cases]
    model = driver.ask(reqs) if model_ok else [None] * len(reqs)
    for (cond, e), m in zip(cases, model):
        impl = _impl_compile(cond)
        rep.evaluations += 1
        rep.distribution["compile:" + impl.split(" ")[0]] += 1
        rep.nontrivial(["compile", e])
        if m is not None:
            rep.corr_cases += 1
            if m != impl:
                rep.diverge("flt.compile (parse_filter_dict/_parse_op/_build_condition)", {"cond": repr(cond), "enc": e}, m, impl)
    rep.sample({"compile_case": reqs[3], "model": model[3]})


# ---------------------------------------------------------------- end to end

FIELDS = [
    {"id": 1, "name": "i", "type": "long", "required": False},
    {"id": 2, "name": "f", "type": "double", "required": False},
    {"id": 3, "name": "s", "type": "string", "required": False},
    {"id": 4, "name": "d", "type": "date", "required": False},
    {"id": 5, "name": "t", "type": "timestamp", "required": False},
    {"id": 6, "name": "b", "type": "boolean", "required": False},
    {"id": 7, "name": "g", "type": "float", "required": False},
    {"id": 8, "name": "n", "type": "int", "required": False},
    {"id": 9, "name": "y", "type": "binary", "required": False},
]
POOLS = {
    "i": [None, -3, 0, 1, 2, 2**53 + 1, -(2**62)],
    "f": [None, NAN, -1.5, 0.0, 1.0, 2.5, float("inf"), -0.0],
    "s": [None, "", "10", "9", "a", "b", "é", "名", "customer-0123456789", "customer-0123456789-a", "customer-0123456789-b"],
    "d": [None, dt.date(2020, 1, 1), dt.date(2020, 1, 2), dt.date(1999, 12, 31)],
    "t": [None, dt.datetime(2020, 1, 1, 0, 0, 0), dt.datetime(2020, 1, 1, 0, 0, 1), dt.datetime(2021, 6, 1)],
    "b": [None, True, False],
    "g": [None, 0.5, 1.5, 0.1, NAN],
    "n": [None, 0, 1, 7, -(2**31)],
    "y": [None, b"", b"a", b"ab", b"\xff\x00"],
}


def _isnan(v):
    return isinstance(v, float) and math.isnan(v)


def _py_pred(col, op, val):
    """independent evaluator on the value as an unfiltered scan returns it (SQL 3VL; None = not matched)."""
    def cmp(x, l, o):
        if x is None or l is None:
            return None
        if _isnan(x) or _isnan(l):
            return o == "!="
        if isinstance(x, dt.date) and not isinstance(x, dt.datetime) and isinstance(l, dt.datetime):
            x = dt.datetime(x.year, x.month, x.day)        # a date is the midnight of its day when compared with a timestamp (SQL widening)
        elif isinstance(l, dt.date) and not isinstance(l, dt.datetime) and isinstance(x, dt.datetime):
            l = dt.datetime(l.year, l.month, l.day)
        return {"==": x == l, "!=": x != l, "<": x < l, "<=": x <= l, ">": x > l, ">=": x >= l}[o]

    def pred(row):
        x = row[col]
        if op == "is_null":
            return x is None
        if op == "is_not_null":
            return x is not None
        if op == "between":
            a, b = cmp(x, val[0], ">="), cmp(x, val[1], "<=")
            return bool(a) and bool(b)
        if op in ("in", "not_in"):
            if x is None:
                return False
            vs = [v for v in val if v is not None]
            hit = any((not _isnan(v)) and (not _isnan(x)) and v == x for v in vs)
            return hit if op == "in" else not hit
        return bool(cmp(x, val, op))
    return pred


def _key(rows, cols=None):
    def k(v):
        if _isnan(v):
            return "nan"
        return repr(v)
    return sorted(json.dumps({c: k(v) for c, v in r.items() if cols is None or c in cols}, sort_keys=True) for r in rows)


def _apis(t, flt, columns):
    """every read API / option → list of rows"""
    yield "scan", lambda: t.scan(filter=flt, columns=columns)
    yield "scan-parallel2", lambda: t.scan(filter=flt, columns=columns, parallel=2)
    yield "scan-nochecksum", lambda: t.scan(filter=flt, columns=columns, verify_checksums=False)
    yield "scan-parallel-nochecksum", lambda: t.scan(filter=flt, columns=columns, parallel=3, verify_checksums=False)
    for bs in (1, 2, 1000):
        yield f"batches{bs}", lambda bs=bs: [r for b in t.scan_batches(batch_size=bs, filter=flt, columns=columns) for r in b]
    yield "batches3-nochecksum", lambda: [r for b in t.scan_batches(batch_size=3, filter=flt, columns=columns, verify_checksums=False) for r in b]
    yield "iter_records", lambda: list(t.iter_records(filter=flt, columns=columns))
    yield "iter_records-nochecksum", lambda: list(t.iter_records(filter=flt, columns=columns, verify_checksums=False))


def _f32(x):
    import struct
    return struct.unpack("f", struct.pack("f", x))[0]


def _set_equality_cause(col, val, row_vals):
    """True iff every differing row is explained by Arrow's is_in matching by value-set identity instead of SQL `=`:
    a zero of the opposite sign in the set, or (32-bit column) a literal that only matches after narrowing to float32."""
    lits = [l for l in val if isinstance(l, float)]
    def explained(v):
        if not isinstance(v, float):
            return False
        if v == 0.0 and any(l == 0.0 and math.copysign(1, l) != math.copysign(1, v) for l in lits):
            return True
        if col == "g" and any(l != v and _f32(l) == v for l in lits):
            return True
        return False
    return bool(row_vals) and all(explained(v) for v in row_vals)


def _classify(api, col, op, val, missing, extra):
    vals_m = [r.get(col) for r in missing]
    vals_e = [r.get(col) for r in extra]
    if api.endswith("nochecksum") and api.startswith("scan") and missing and not extra and all(_isnan(v) for v in vals_m) \
            and op in ("!=", "not_in"):
        return "C12:nan-row-dropped-by-parquet-pushdown-checksum-off"
    if op in ("in", "not_in") and col in ("f", "g") and _set_equality_cause(col, val, vals_m + vals_e):
        return "C12:in-uses-arrow-set-equality-not-sql-equality"
    return f"C12:api-differs-from-sql:{api}:{op}:{col}"


_TABLES = [0]


def _one_table(ctx, rep, rng, path, file_rows):
    """every other table numbers its fields the other way round (same schema id, same names, same order): an answer must not depend on
    which OTHER tables this process has touched before"""
    from datashard import Schema, create_table
    _TABLES[0] += 1
    fields = FIELDS if _TABLES[0] % 2 else [dict(f_, id={1: 8, 8: 1, 2: 7, 7: 2}.get(f_["id"], f_["id"])) for f_ in FIELDS]     # long<->int, double<->float
    t = create_table(path, Schema(schema_id=1, fields=fields))
    for fi, rows in enumerate(file_rows):
        if len(file_rows) >= 2 and fi < 2 and _TABLES[0] % 3 == 0 and rows:
            # every third table: its first two files are PRE-BUILT files with the SAME base name in two partition directories, queued
            # through the file-level API (hive-style layout); nothing about an answer may depend on file names being unique
            import pyarrow as pa
            import pyarrow.parquet as pq
            from datashard.data_structures import DataFile, FileFormat
            rel = f"data/region={'eu' if fi == 0 else 'us'}/part-0.parquet"
            full = os.path.join(path, rel)
            os.makedirs(os.path.dirname(full), exist_ok=True)
            sch = t.file_manager.data_file_manager.create_arrow_schema(Schema(schema_id=1, fields=fields))
            pq.write_table(pa.Table.from_pylist(rows, schema=sch), full)
            t.append_data([DataFile(file_path="/" + rel, file_format=FileFormat.PARQUET, partition_values={}, record_count=len(rows),
                                    file_size_in_bytes=os.path.getsize(full))])
            continue
        t.append_records(rows)
    stored = t.scan()           # values as stored (independent of any filter)
    return t, stored


def _run_filter(rep, t, stored, col, op, val, columns):
    flt = {col: (op, val)} if op not in ("is_null", "is_not_null") else {col: (op, True)}
    pred = _py_pred(col, op, val)
    expect = [r for r in stored if pred(r)]
    pc = (columns + [col]) if columns is not None and col not in columns else columns
    ek = _key(expect, columns)
    results = {}
    cross = col in ("i", "n") and isinstance(val, float)
    raised = []
    for api, fn in _apis(t, flt, columns):
        rep.evaluations += 1
        rep.distribution[f"api:{api.split('-')[0]}"] += 1
        try:
            got = fn()
        except Exception as e:
            if cross:
                # a float literal against an integer column may be rejected (type mismatch = malformed filter);
                # it must then be rejected by EVERY API (checked below), never answered differently
                raised.append(api)
                continue
            rep.violate(f"C12:api-raises:{api}:{op}:{col}", f"{api} raises {type(e).__name__}: {e}"[:300],
                        {"kind": "e2e", "filter": repr(flt), "columns": columns, "api": api})
            continue
        gk = _key(got)
        results[api] = gk
        if gk != ek:
            # recover the differing full rows for cause classification
            gfull = got
            if columns is not None:
                try:
                    gfull = dict(_apis(t, flt, None))[api]()
                except Exception:
                    gfull = []
            fk, xk = _key(gfull), _key(expect)
            missing = [r for r in expect if _key([r])[0] not in fk]
            extra = [r for r in gfull if _key([r])[0] not in xk]
            sig = _classify(api, col, op, val, missing, extra)
            rep.violate(sig, f"{api}(filter={flt!r}, columns={columns}) returns {len(got)} rows, SQL evaluator {len(expect)}",
                        {"kind": "e2e", "filter": repr(flt), "columns": columns, "api": api,
                         "missing": [repr(r) for r in missing[:2]], "extra": [repr(r) for r in extra[:2]]})
    if raised and results:
        rep.violate(f"C12:cross-type-literal-raises-in-some-apis:{op}:{col}", f"{raised} raise but {sorted(results)} answer for {flt!r}",
                    {"kind": "e2e", "filter": repr(flt), "columns": columns})
    if raised:
        rep.distribution["cross-type-raises"] += 1
    if 0 < len(expect) < len(stored):
        rep.nontrivial(["e2e", repr(flt), columns, len(stored)])


def _gen_filter(rng, col, allow_cross=True):
    pool = [v for v in POOLS[col] if v is not None]
    op = rng.choice(["==", "!=", "<", "<=", ">", ">=", "in", "not_in", "between", "is_null", "is_not_null"])
    if op in ("in", "not_in"):
        val = rng.sample(POOLS[col], rng.randint(0, 3))
        val = [v for v in val if not _isnan(v)]
    elif op == "between":
        val = (rng.choice(pool), rng.choice(pool))
    elif op in ("is_null", "is_not_null"):
        val = True
    else:
        val = rng.choice(pool)
        if allow_cross and col in ("i", "n") and rng.random() < 0.2:
            val = rng.choice([0.5, 1.0, 1.5])
    return op, val


def _end_to_end(ctx, rep):
    rng = ctx.rng("e2e")
    base = scratch_dir("c12-")
    try:
        # directed tables first
        directed = [
            ([[{"f": 1.0}, {"f": NAN}, {"f": 1.0}]], "f", "!=", 1.0),
            ([[{"f": 1.0}, {"f": NAN}]], "f", "not_in", [1.0]),
            ([[{"g": 0.1}, {"g": 0.5}]], "g", "in", [0.1]),
            ([[{"g": 0.05}, {"g": 0.1}, {"g": 0.5}]], "g", "in", [0.1]),          # known finding: float32 narrowing
            ([[{"f": -0.0}, {"f": 1.0}]], "f", "in", [0.0]),                       # known finding: signed zero
            ([[{"f": -0.0}, {"f": 1.0}]], "f", "==", 0.0),
            ([[{"g": 0.1}, {"g": 0.5}]], "g", "==", 0.1),
            ([[{"s": "a"}, {"s": None}, {"s": "b"}]], "s", "not_in", ["a", None]),
            ([[{"i": 1}, {"i": None}], [{"i": 2}]], "i", "in", []),
            # columns for which the writer records NO bounds (a float file holding a NaN; binary) while other columns have them
            ([[{"i": 1, "f": 1.0}, {"i": 2, "f": NAN}, {"i": 3, "f": 2.0}], [{"i": 4, "f": None}]], "f", "is_not_null", True),
            ([[{"i": 1, "f": 1.0}, {"i": 2, "f": NAN}, {"i": 3, "f": 2.0}], [{"i": 4, "f": None}]], "f", ">", 0.0),
            ([[{"i": 1, "y": b"a"}, {"i": 2, "y": None}, {"i": 3, "y": b"b"}], [{"i": 4, "y": None}]], "y", "is_not_null", True),
            ([[{"i": 1, "y": b"a"}, {"i": 2, "y": None}, {"i": 3, "y": b"b"}]], "y", "==", b"b"),
            # a file larger than the writer's batch with one NaN in its second thousand
            ([[{"i": k, "f": (NAN if k == 1500 else float(k % 7))} for k in range(2500)], [{"i": 9000, "f": 4.0}]], "f", "!=", 4.0),
            ([[{"i": k, "f": (NAN if k == 1500 else (50.0 if k == 1501 else float(k % 7)))} for k in range(2500)]], "f", ">=", 50.0),
            # a date column filtered with a datetime literal that has a time of day; one file per day
            ([[{"d": dt.date(2024, 1, 1)}], [{"d": dt.date(2024, 1, 2)}, {"d": dt.date(2024, 1, 2)}], [{"d": dt.date(2024, 1, 3)}]], "d", "<", dt.datetime(2024, 1, 2, 12, 0)),
            ([[{"d": dt.date(2024, 1, 1)}], [{"d": dt.date(2024, 1, 2)}, {"d": dt.date(2024, 1, 2)}], [{"d": dt.date(2024, 1, 3)}]], "d", "!=", dt.datetime(2024, 1, 2, 12, 0)),
            # integers a double cannot hold
            ([[{"i": 2**53 + 1}, {"i": 5}], [{"i": 7}]], "i", "==", 2**53 + 1),
            ([[{"i": 2**53 + 1}, {"i": 5}], [{"i": 7}]], "i", ">", 2**53),
            ([[{"i": 2**63 - 1}, {"i": 5}], [{"i": 7}]], "i", ">=", 2**63 - 1),
            ([[{"i": -(2**63) + 1}, {"i": 5}], [{"i": 7}]], "i", "<", -(2**63) + 2),
            # long strings sharing a prefix
            ([[{"s": "customer-0123456789-a"}, {"s": "customer-0123456789-m"}], [{"s": "zz"}]], "s", "==", "customer-0123456789-m"),
            ([[{"s": "customer-0123456789-a"}, {"s": "customer-0123456789-m"}], [{"s": "zz"}]], "s", ">", "customer-0123456789-b"),
            # not_in whose set holds a file's minimum AND its maximum (the values in between still match)
            ([[{"i": 1}, {"i": 2}, {"i": 3}, {"i": 5}], [{"i": 1}, {"i": 5}]], "i", "not_in", [1, 5]),
            ([[{"s": "a"}, {"s": "k"}, {"s": "z"}]], "s", "not_in", ["a", "z", None]),
            ([[{"f": 1.0}, {"f": 2.5}, {"f": 9.0}]], "f", "not_in", [9.0, 1.0]),
            # between with a NULL end point matches nothing (SQL), it is not an open-ended range
            ([[{"i": 1}, {"i": 15}, {"i": None}, {"i": 30}]], "i", "between", (None, 20)),
            ([[{"i": 1}, {"i": 15}, {"i": None}, {"i": 30}]], "i", "between", (10, None)),
            ([[{"i": 1}, {"i": 15}, {"i": None}, {"i": 30}]], "i", "between", (None, None)),
        ]
        for di, (files, col, op, val) in enumerate(directed):
            files = [[{c: r.get(c) for c in POOLS} for r in rows] for rows in files]
            t, stored = _one_table(ctx, rep, rng, os.path.join(base, f"d{di}"), files)
            for columns in (None, ["i"]):
                _run_filter(rep, t, stored, col, op, val, columns)
        for ti in range(ctx.budget(5, 60)):
            files = []
            for _ in range(rng.choice([1, 2, 3, 5])):
                narrow = {c: rng.sample(p, rng.choice([1, 2, 3])) for c, p in POOLS.items()}
                files.append([{c: rng.choice(narrow[c]) for c in POOLS} for _ in range(rng.randint(1, 5))])
            path = os.path.join(base, f"t{ti}")
            t, stored = _one_table(ctx, rep, rng, path, files)
            for _q in range(ctx.budget(6, 20)):
                col = rng.choice(list(POOLS))
                op, val = _gen_filter(rng, col)
                columns = rng.choice([None, None, [col], ["i", "s"], ["b"]])
                _run_filter(rep, t, stored, col, op, val, columns)
            # a two-condition filter: conjunction
            c1, c2 = rng.sample(list(POOLS), 2)
            o1, v1 = _gen_filter(rng, c1, False)
            o2, v2 = _gen_filter(rng, c2, False)
            flt = {c1: (o1, v1), c2: (o2, v2)}
            p1, p2 = _py_pred(c1, o1, v1), _py_pred(c2, o2, v2)
            expect = _key([r for r in stored if p1(r) and p2(r)])
            for api, fn in _apis(t, flt, None):
                rep.evaluations += 1
                try:
                    got = _key(fn())
                except Exception as e:
                    rep.violate(f"C12:api-raises:{api}:conj", f"{api} raises {type(e).__name__}", {"kind": "e2e", "filter": repr(flt), "api": api})
                    continue
                if got != expect:
                    sig = "C12:conj-differs:" + api
                    if ({c1, c2} & {"f", "g"}) and ({o1, o2} & {"in", "not_in"}):
                        sig = "C12:in-uses-arrow-set-equality-not-sql-equality"
                    elif api.endswith("nochecksum") and api.startswith("scan") and ({o1, o2} & {"!=", "not_in"}):
                        sig = "C12:nan-row-dropped-by-parquet-pushdown-checksum-off"
                    rep.violate(sig, f"{api}(filter={flt!r}) returns {len(got)} rows, SQL evaluator {len(expect)}",
                                {"kind": "e2e", "filter": repr(flt), "api": api})
            shutil.rmtree(path, ignore_errors=True)
    finally:
        shutil.rmtree(base, ignore_errors=True)


def _malformed_e2e(ctx, rep):
    """malformed filters must raise from every API (never be reinterpreted)."""
    from datashard import Schema, create_table
    base = scratch_dir("c12m-")
    try:
        t = create_table(os.path.join(base, "m"), Schema(schema_id=1, fields=FIELDS))
        t.append_records([{c: POOLS[c][1] for c in POOLS}])
        bad = [{"i": None}, {"i": ("gte", 1)}, {"i": ("between", 1)}, {"i": ("between", (1,))}, {"i": ("in", 1)}, {"i": (1, 1)},
               {"i": ("startswith", 1)}, {"i": (">", 1, 2)}, {"i": ("=>", 1)}]
        for flt in bad:
            for api, fn in _apis(t, flt, None):
                rep.evaluations += 1
                try:
                    fn()
                    rep.violate(f"C12:malformed-accepted:{api}", f"{api} accepts malformed filter {flt!r}", {"kind": "malformed", "filter": repr(flt), "api": api})
                except Exception:
                    rep.distribution["malformed-raises"] += 1
    finally:
        shutil.rmtree(base, ignore_errors=True)


def run(ctx, model_ok):
    rep = Report()
    rep.rule = ("exhaustive: every operator × literal in {NULL,NaN,-1..3} / value sets ≤2 (thorough ≤3) over {NULL,NaN,0,1,3} on the row "
                "domain {NULL,NaN,-1,0,1,2} for `_build_condition`; parquet pushdown on multisets ≤3 over {NULL,NaN,0,1}; condition-shape grid "
                "for parse/compile; random + directed real tables over 8 column types × 10 API/option combinations × projections vs an "
                "independent SQL evaluator. non-trivial = filter keeps a proper non-empty subset / a distinct shape; distinct by case content.")
    _check_eval(ctx, rep, model_ok)
    _check_compile(ctx, rep, model_ok)
    _malformed_e2e(ctx, rep)
    _end_to_end(ctx, rep)
    return rep
