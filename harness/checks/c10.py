"""C10 — the version pointer is only a hint: losing or corrupting it never loses data.

Theorems: DSV/Props/C10.lean (parse_total*, recover_highest_newest, open_resolves_latest_*, never_reinit*).
Correspondence: `_parse_hint_content`, `_recover_version_from_files`, `_current_version_info` vs the model.
Oracle: real table histories (with failed commits leaving uncommitted metadata files), pointer damaged in every way,
then open / create / append / collect — identity, snapshots and rows must be those before the damage.
"""
import itertools
import os
import shutil
import unicodedata

from .. import driver, reader, tablekit
from ..report import Report
from ..util import scratch_dir

ASSUMPTIONS = [
    "code points are abstracted to classes (ASCII digit, other decimal digit, isdigit-only digit, strip-whitespace, ASCII other, other)",
    "CPython's int() limit of 4300 digits (sys.int_info.default_max_str_digits) is the default",
]

# the model is of the code after fix 88f5723 (int() guarded); a regression shows up as divergence + violation
GUARD = "1"


def cp_of(ch):
    o = ord(ch)
    if "0" <= ch <= "9":
        return f"d{o - 48}"
    if ch.isdecimal():
        return f"u{unicodedata.decimal(ch)}"
    if ch.isdigit():
        return "x"
    if ch.isspace():
        return "w"
    if o < 128:
        return f"c{o}"
    return "o"


def enc_text(s):
    return ".".join(cp_of(c) for c in s) if s else "-"


def enc_bytes(b):
    try:
        return enc_text(b.decode("utf-8"))
    except UnicodeDecodeError:
        return "!"


def impl_parse(b):
    from datashard.metadata_manager import MetadataManager
    try:
        r = MetadataManager._parse_hint_content(b)
    except Exception:       # noqa: BLE001
        return "raise"
    if r is None:
        return "none"
    return f"ok {r[0]} {enc_text(r[1])}"


ALPHABET = [b"0", b"7", "²".encode(), "٣".encode(), b" ", b"\n", b"v", b"-", b".", b"a", b"\xff", "　".encode()]
GOOD = b"v3-1a2b3c4d.metadata.json"


def _contents(ctx):
    out = [b""]
    for n in (1, 2, 3):
        for t in itertools.product(ALPHABET, repeat=n):
            out.append(b"".join(t))
    rng = ctx.rng("contents")
    directed = [GOOD, GOOD + b"\n", b"  " + GOOD + b"\r\n", GOOD + b"\n\n", GOOD.upper(), b"V3-1a2b3c4d.metadata.json",
                b"v3-1A2b3c4d.metadata.json", b"v3-1a2b3c4.metadata.json", b"v3-1a2b3c4d5.metadata.json", b"v3.metadata.json",
                b"v03.metadata.json", b"v-3.metadata.json", b"v3-1a2b3c4d.metadata.json.bak", b"xv3-1a2b3c4d.metadata.json",
                b"v3-1a2b3c4d.metadata.jso", b"3", b"003", b" 12\n", b"+3", b"-3", b"3.0", b"1_000", b"0x10", "３".encode(), "٣٤".encode(),
                "v٣-1a2b3c4d.metadata.json".encode(), "v3-1a2b3c4d.metadata.json ".encode(), b"v3-1a2b3c4d.metadata.json\x00",
                b"\x00", b"\xef\xbb\xbf3", b"3\x1c", "①".encode(), "3²".encode(), "v²-1a2b3c4d.metadata.json".encode(),
                b"9" * 4299, b"9" * 4300, b"9" * 4301, b"1" + b"0" * 5000, b"v" + b"7" * 4301 + b"-1a2b3c4d.metadata.json",
                b"v" + b"7" * 4300 + b".metadata.json", b"v3-1a2b3c4d\n.metadata.json", b"v3-1a2b3c4d.metadata.json\nv4-1a2b3c4d.metadata.json"]
    out += directed
    pieces = [b"v", b"3", b"12", b"-", b"1a2b3c4d", b"1a2b3c4", b"ABCDEF01", b".metadata.json", b".metadata", b" ", b"\n", b"\t",
              "²".encode(), "٣".encode(), b"\xff", b"\x00", b"0", b"json"]
    for _ in range(ctx.budget(400, 20000)):
        out.append(b"".join(rng.choice(pieces) for _ in range(rng.randint(1, 7))))
    return out


def _check_parse(ctx, rep, model_ok):
    cs = _contents(ctx)
    reqs = [f"hint.parse {GUARD} {enc_bytes(b)}" for b in cs]
    model = driver.ask(reqs) if model_ok else [None] * len(reqs)
    for b, m in zip(cs, model):
        impl = impl_parse(b)
        rep.evaluations += 1
        rep.distribution["parse:" + impl.split(" ")[0]] += 1
        if impl != "none":
            rep.nontrivial(["parse", b[:60].hex(), len(b)])
        if m is not None:
            rep.corr_cases += 1
            if m != impl:
                rep.diverge("hint.parse (_parse_hint_content)", {"content_hex": b[:80].hex(), "len": len(b)}, m[:120], impl[:120])
        if impl == "raise":
            try:
                t = b.decode("utf-8").strip()
            except UnicodeDecodeError:
                t = ""
            if t.isdigit() and not t.isdecimal():
                sig = "C10:hint-text-isdigit-not-int"
            elif len(t) > 4300:
                sig = "C10:hint-digits-beyond-int-limit"
            else:
                sig = "C10:hint-parse-raises"
            rep.violate(sig, f"_parse_hint_content raises on {b[:40]!r} (len {len(b)})", {"kind": "parse", "content_hex": b[:200].hex(), "len": len(b)})
    rep.sample({"parse_case": reqs[len(reqs) // 2][:120], "model": (model[len(reqs) // 2] or "")[:120]})


class _StubStorage:
    def __init__(self, files, mtimes, hint=None, list_fails=False):
        self.files, self.mtimes, self.hint, self.list_fails = files, mtimes, hint, list_fails

    def list_files(self, prefix):
        if self.list_fails:
            raise OSError("listing failed")
        return list(self.files)

    def get_modified_time(self, path):
        m = self.mtimes.get(path)
        if m is None:
            raise OSError("stat failed")
        return float(m)

    def exists(self, path):
        if path == "metadata.version-hint.text":
            return self.hint is not None
        return path in self.files or path in [f"metadata/{f}" for f in self.files]

    def read_file(self, path):
        return self.hint


def _mm(storage):
    from datashard.metadata_manager import MetadataManager
    mm = MetadataManager.__new__(MetadataManager)
    mm.storage, mm.metadata_path, mm.table_path = storage, "metadata", "t"
    return mm


def _check_recover(ctx, rep, model_ok):
    rng = ctx.rng("recover")
    names = ["v0-00000000.metadata.json", "v1-aaaaaaaa.metadata.json", "v1-bbbbbbbb.metadata.json", "v2-cccccccc.metadata.json",
             "v2.metadata.json", "v10-dddddddd.metadata.json", "v2-CCCCCCCC.metadata.json", "v3-abc.metadata.json",
             "manifests/v9-eeeeeeee.metadata.json", "inflight/x.inflight", "notes.txt", "v4-ffffffff.metadata.json.tmp"]
    cases = []
    for _ in range(ctx.budget(300, 5000)):
        chosen = rng.sample(names, rng.randint(0, 6))
        form = rng.choice(["rel", "rel", "bare"])
        files = [("metadata/" + n) if form == "rel" else n for n in chosen]
        mt = {}
        for n in chosen:
            if rng.random() < 0.85:
                mt["metadata/" + n] = rng.choice([1, 2, 2, 3, 5])
        cases.append((files, mt, False))
    reqs = []
    import re
    rx = re.compile(r"^v(\d+)(?:-[0-9a-f]{8})?\.metadata\.json$")
    for files, mt, fail in cases:
        if fail:
            reqs.append("hint.recover fail")
            continue
        ents = []
        for i, f in enumerate(files):
            base = f.rsplit("/", 1)[-1]
            parent = f.rsplit("/", 1)[0] if "/" in f else ""
            m = rx.match(base) if parent in ("", "metadata") else None
            v = m.group(1) if m else "-"
            mm = mt.get("metadata/" + base)
            ents.append(f"{i}:{v}:{mm if mm is not None else '-'}")
        reqs.append("hint.recover " + (" ".join(ents) if ents else "empty"))
    model = driver.ask(reqs) if model_ok else [None] * len(reqs)
    for (files, mt, fail), m, rq in zip(cases, model, reqs):
        st = _StubStorage(files, mt, None, fail)
        r = _mm(st)._recover_version_from_files()
        if r is None:
            impl = "none"
        else:
            idx = [i for i, f in enumerate(files) if f.rsplit("/", 1)[-1] == r[1] and (("/" not in f) or f.rsplit("/", 1)[0] == "metadata")]
            impl = f"some {r[0]} {idx[0] if idx else '?'}"
        rep.evaluations += 1
        rep.distribution["recover:" + impl.split(" ")[0]] += 1
        rep.nontrivial(["recover", rq])
        if m is not None:
            rep.corr_cases += 1
            if m != impl:
                rep.diverge("hint.recover (_recover_version_from_files)", {"req": rq, "files": files}, m, impl)
    rep.sample({"recover_case": reqs[0], "model": model[0]})


def _check_cvi(ctx, rep, model_ok):
    """`_current_version_info` on stub storage: hint content × target existence × listing (incl. failing listing)"""
    rng = ctx.rng("cvi")
    names = ["v1-aaaaaaaa.metadata.json", "v2-cccccccc.metadata.json", "v2-dddddddd.metadata.json", "v3-eeeeeeee.metadata.json", "junk.txt"]
    hints = [None, b"", b"garbage", b"v2-cccccccc.metadata.json", b"v1-aaaaaaaa.metadata.json", b"v9-99999999.metadata.json", b"2", "²".encode(), b"v3-eeeeeeee.metadata.json\n"]
    cases, reqs = [], []
    import re
    rx = re.compile(r"^v(\d+)(?:-[0-9a-f]{8})?\.metadata\.json$")
    for _ in range(ctx.budget(300, 3000)):
        chosen = rng.sample(names, rng.randint(0, 5))
        files = ["metadata/" + n for n in chosen]
        mt = {f: rng.choice([1, 2, 3]) for f in files if rng.random() < 0.9}
        hint = rng.choice(hints)
        fail = rng.random() < 0.15
        cases.append((files, mt, hint, fail))
        hp = impl_parse(hint) if hint is not None else "none"
        if hp.startswith("ok"):
            v = hp.split(" ")[1]
            from datashard.metadata_manager import MetadataManager
            nm = MetadataManager._parse_hint_content(hint)[1]
            idx = chosen.index(nm) if nm in chosen else 99
            h, ex = f"ok:{v}:{idx}", ("1" if nm in chosen else "0")
        else:
            h, ex = hp, "0"
        ents = []
        for i, n in enumerate(chosen):
            m = rx.match(n)
            ents.append(f"{i}:{m.group(1) if m else '-'}:{mt.get('metadata/' + n, '-')}")
        reqs.append(f"hint.cvi {h} {ex} " + ("fail" if fail else (" ".join(ents) if ents else "empty")))
    model = driver.ask(reqs) if model_ok else [None] * len(reqs)
    for (files, mt, hint, fail), m, rq in zip(cases, model, reqs):
        st = _StubStorage(files, mt, hint, fail)
        try:
            r = _mm(st)._current_version_info()
            if r is None:
                impl = "none"
            else:
                idx = [i for i, f in enumerate(files) if f == "metadata/" + r[1]]
                impl = f"ok {r[0]} {idx[0] if idx else 99}"
        except Exception:       # noqa: BLE001
            impl = "raise"
        rep.evaluations += 1
        rep.distribution["cvi:" + impl.split(" ")[0]] += 1
        rep.nontrivial(["cvi", rq])
        if m is not None:
            rep.corr_cases += 1
            if m != impl:
                rep.diverge("hint.cvi (_current_version_info)", {"req": rq}, m, impl)
    rep.sample({"cvi_case": reqs[1], "model": model[1]})


# ------------------------------------------------------------------ histories

def _build_history(ctx, rng, path, orphan):
    """a table with a few commits; `orphan`: None | 'failed' (a commit whose pointer write fails cleanly) |
    'crashed' (the process dies between writing the new metadata file and flipping the pointer — a crash image)"""
    t = tablekit.create(path)
    n = rng.choice([1, 2, 3, 4, 4, 11, 12])
    for i in range(n):
        t.append_records(tablekit.rows(rng.randint(1, 3), start=i * 10))
    if rng.random() < 0.3 and n >= 2:
        ids = [s["snapshot_id"] for s in t.snapshots()]
        t.snapshot_manager.delete_snapshot(ids[0])
    st = t.storage
    if orphan == "failed":
        with tablekit.FailOnce(st, "write_file", lambda p, c: p == "metadata.version-hint.text", OSError("injected: hint write failed")):
            try:
                t.append_records(tablekit.rows(2, start=900))
            except OSError:
                pass
    elif orphan == "crashed":
        image = path + ".crash"
        orig = st.write_file

        def crashing(p, c):
            if p == "metadata.version-hint.text" and not os.path.exists(image):
                shutil.copytree(path, image)          # what a dead process leaves behind
            return orig(p, c)
        st.write_file = crashing
        try:
            t.append_records(tablekit.rows(2, start=900))
        finally:
            del st.write_file
        shutil.rmtree(path)
        os.rename(image, path)
        lock = os.path.join(path, ".locks")
        t = None
    return t


DAMAGES = ["intact", "delete", "empty", "garbage", "binary", "legacy-current", "legacy-missing", "dangling", "stale", "unicode-digit", "huge-digits", "whitespace"]


def _damage(path, kind, before):
    hp = os.path.join(path, "metadata.version-hint.text")
    store = reader.DirStore(path)
    files = reader.metadata_files(store)
    cur_v = before["version"]
    if kind == "intact":
        return True         # the pointer is FINE (only uncommitted leftovers lie around): it must simply be believed
    if kind == "delete":
        os.remove(hp)
    elif kind == "empty":
        open(hp, "wb").close()
    elif kind == "garbage":
        open(hp, "wb").write(b"not a pointer at all")
    elif kind == "binary":
        open(hp, "wb").write(b"\xff\xfe\x00\x01")
    elif kind == "legacy-current":
        open(hp, "wb").write(str(cur_v).encode())
    elif kind == "legacy-missing":
        open(hp, "wb").write(b"77")
    elif kind == "dangling":
        open(hp, "wb").write(b"v%d-deadbeef.metadata.json" % (cur_v + 5))
    elif kind == "stale":
        older = sorted(v for v in files if v < cur_v)
        if not older:
            return False
        open(hp, "wb").write(files[older[-1]][0].encode())
    elif kind == "unicode-digit":
        open(hp, "wb").write("²".encode())
    elif kind == "huge-digits":
        open(hp, "wb").write(b"9" * 5000)
    elif kind == "whitespace":
        open(hp, "wb").write(b" \n\t ")
    return True


def _state(path):
    v = reader.view(path)
    return {"uuid": v["uuid"], "snaps": sorted(s["id"] for s in v["snaps"]), "rows": v["rows"], "name": v["name"],
            "version": int(reader.META_RE.match(v["name"]).group(1))}


def _lib_state(t):
    md = t.metadata_manager.refresh()
    return {"uuid": md.table_uuid, "snaps": sorted(s.snapshot_id for s in md.snapshots),
            "rows": sorted(reader.rowkey(r) for r in t.scan())}


def _histories(ctx, rep):
    from datashard import create_table, load_table
    rng = ctx.rng("hist")
    base = scratch_dir("c10-")
    try:
        n = ctx.budget(8, 120)
        forced = [("intact", "open", "crashed"), ("intact", "append", "crashed"), ("intact", "create", "failed"), ("delete", "open", "crashed"), ("stale", "open", None), ("delete", "open", "failed"), ("unicode-digit", "open", None),
                  ("delete", "append-damage-open", None), ("garbage", "append-damage-open", None), ("legacy-missing", "append-damage-open", None)]
        plan = [(0, k, o, w) for k, o, w in forced]
        for hi in range(n):
            for kind in DAMAGES:
                for op in ("open", "create", "append", "collect", "append-damage-open"):
                    if not ctx.thorough and not ctx.intensify and rng.random() < 0.6:
                        continue
                    plan.append((hi, kind, op, "?"))
        for hi, kind, op, forced_orphan in plan:
            if True:
                if True:
                    path = os.path.join(base, f"h{hi}")
                    shutil.rmtree(path, ignore_errors=True)
                    with_orphan = rng.choice([None, "failed", "crashed"]) if forced_orphan == "?" else forced_orphan
                    shutil.rmtree(path + ".crash", ignore_errors=True)
                    t = _build_history(ctx, rng, path, with_orphan)
                    before = _state(path)
                    del t
                    if not _damage(path, kind, before):
                        continue
                    rep.evaluations += 1
                    rep.nontrivial(["hist", hi, kind, op, with_orphan])
                    rep.distribution[f"hist:{kind}"] += 1
                    case = {"kind": "history", "damage": kind, "op": op, "orphan_uncommitted_metadata": with_orphan,
                            "committed_snapshots": len(before["snaps"])}
                    try:
                        if op == "create":
                            t2 = create_table(path, tablekit.schema())
                        else:
                            t2 = load_table(path)
                        after = _lib_state(t2)
                        expect_rows = list(before["rows"])
                        if op == "append":
                            extra = tablekit.rows(1, start=5000)
                            t2.append_records(extra)
                            expect_rows = sorted(expect_rows + [reader.rowkey(r) for r in extra])
                            after = _lib_state(t2)
                            after["snaps"] = [s for s in after["snaps"] if s in before["snaps"]]
                        if op == "collect":
                            t2.garbage_collect(grace_period_ms=0)
                            after = _lib_state(t2)
                        if op == "append-damage-open":
                            # a commit made UNDER the damaged pointer, then the pointer is lost again, then a fresh open
                            extra = tablekit.rows(1, start=5000)
                            t2.append_records(extra)
                            expect_rows = sorted(expect_rows + [reader.rowkey(r) for r in extra])
                            del t2
                            os.remove(os.path.join(path, "metadata.version-hint.text"))
                            t3 = load_table(path)
                            after = _lib_state(t3)
                            after["snaps"] = [s for s in after["snaps"] if s in before["snaps"]]
                    except Exception as e:      # noqa: BLE001
                        if op == "collect" and type(e).__name__ == "GarbageCollectionAborted" and "names a missing metadata file" in str(e):
                            # fail-closed collector (C07): a parseable pointer whose target is missing aborts the collection.
                            # Nothing is lost and the table stays readable / writable — not a C10 violation.
                            rep.distribution["hist:collect-aborted-on-dangling-pointer"] += 1
                            shutil.rmtree(path, ignore_errors=True)
                            continue
                        sig = _classify(kind, with_orphan, "raises")
                        rep.violate(sig, f"{op} after pointer damage '{kind}' raises {type(e).__name__}: {str(e)[:120]}", case)
                        continue
                    bad = []
                    if after["uuid"] != before["uuid"]:
                        bad.append("identity changed (table re-initialised)")
                    if after["snaps"] != before["snaps"]:
                        bad.append(f"snapshot list {len(after['snaps'])} vs {len(before['snaps'])} committed")
                    if after["rows"] != expect_rows:
                        bad.append(f"rows {len(after['rows'])} vs {len(expect_rows)} expected")
                    if bad:
                        sig = _classify(kind, with_orphan, "state")
                        rep.violate(sig, f"{op} after pointer damage '{kind}' (uncommitted metadata present: {with_orphan}): " + "; ".join(bad), case)
                    shutil.rmtree(path, ignore_errors=True)
    finally:
        shutil.rmtree(base, ignore_errors=True)


def _histories_s3(ctx, rep):
    """the same on the S3 backend (in-memory store paging listings at 2 keys; CAS and plain commit paths): pointer object deleted,
    emptied, garbage, legacy number of a missing version, parseable but dangling — then open / create / append / collect"""
    from datashard import create_table, load_table
    from .. import fakes3
    rng = ctx.rng("hist-s3")
    for cas in (True, False):
        for kind in ("delete", "empty", "garbage", "legacy-missing", "dangling"):
            for op in ("open", "create", "append", "collect"):
                skip = rng.random() < 0.35
                if not ctx.thorough and not ctx.intensify and skip and not (op in ("append", "collect") and kind in ("dangling", "legacy-missing")):
                    continue            # (a write under a pointer that parses but names a missing file is never skipped)
                with fakes3.S3Env(cas=cas) as env, fakes3.NoSleep():
                    loc = "wh/t"
                    t = tablekit.create(loc)
                    for i in range(rng.choice([1, 2, 3, 11])):
                        t.append_records(tablekit.rows(rng.randint(1, 2), start=i * 10))
                    if cas:
                        # one more append whose conditional pointer PUT is ANSWERED "precondition failed / conflict" once (it did not take
                        # effect, and the store says so): a lost race, not an unknowable outcome — nothing uncommitted may be left to win a recovery
                        code = rng.choice(["PreconditionFailed", "ConditionalRequestConflict", "ConditionalRequestConflict", "412"])
                        left = {"n": 1}

                        def put409(phase, op, key, kw, _left=left, _code=code):
                            if phase == "before" and op == "put" and str(key).endswith("metadata.version-hint.text") and _left["n"] and (kw.get("IfMatch") or kw.get("IfNoneMatch")):
                                _left["n"] -= 1
                                raise fakes3.client_error(_code, "PutObject", status=int(_code) if _code.isdigit() else (409 if "Conflict" in _code else 412))
                        env.fake.hook = put409
                        try:
                            t.append_records(tablekit.rows(1, start=7000))
                        except Exception:       # noqa: BLE001
                            pass
                        env.fake.hook = None
                    store = reader.S3Store(env.fake, loc)
                    v = reader.view(store)
                    before = {"uuid": v["uuid"], "snaps": sorted(s_["id"] for s_ in v["snaps"]), "rows": v["rows"],
                              "version": int(reader.META_RE.match(v["name"]).group(1))}
                    del t
                    hk = [k for k in env.fake.objects if k.endswith("metadata.version-hint.text")][0]
                    if kind == "delete":
                        del env.fake.objects[hk]
                    else:
                        body = {"empty": b"", "garbage": b"not a pointer at all", "legacy-missing": b"77",
                                "dangling": b"v%d-deadbeef.metadata.json" % (before["version"] + 5)}[kind]
                        env.fake.put_object(Bucket="bkt", Key=hk, Body=body)
                    rep.evaluations += 1
                    rep.nontrivial(["hist-s3", cas, kind, op, len(before["snaps"])])
                    rep.distribution[f"hist-s3:{kind}"] += 1
                    case = {"kind": "history-s3", "conditional_writes": cas, "damage": kind, "op": op, "committed_snapshots": len(before["snaps"])}
                    try:
                        t2 = create_table(loc, tablekit.schema()) if op == "create" else load_table(loc)
                        after = _lib_state(t2)
                        expect_rows = list(before["rows"])
                        if op == "append":
                            extra = tablekit.rows(1, start=5000)
                            t2.append_records(extra)
                            expect_rows = sorted(expect_rows + [reader.rowkey(r) for r in extra])
                            after = _lib_state(t2)
                            after["snaps"] = [s_ for s_ in after["snaps"] if s_ in before["snaps"]]
                        if op == "collect":
                            t2.garbage_collect(grace_period_ms=0)
                            after = _lib_state(t2)
                    except Exception as e:      # noqa: BLE001
                        if op == "collect" and type(e).__name__ == "GarbageCollectionAborted" and "names a missing metadata file" in str(e):
                            rep.distribution["hist-s3:collect-aborted-on-dangling-pointer"] += 1
                            continue
                        rep.violate(f"C10:pointer-damage:{kind}:raises", f"S3 (conditional writes {cas}): {op} after pointer damage '{kind}' raises "
                                    f"{type(e).__name__}: {str(e)[:120]}", case)
                        continue
                    bad = []
                    if after["uuid"] != before["uuid"]:
                        bad.append("identity changed (table re-initialised)")
                    if after["snaps"] != before["snaps"]:
                        bad.append(f"snapshot list {len(after['snaps'])} vs {len(before['snaps'])} committed")
                    if after["rows"] != expect_rows:
                        bad.append(f"rows {len(after['rows'])} vs {len(expect_rows)} expected")
                    if bad:
                        rep.violate(f"C10:pointer-damage:{kind}:state", f"S3 (conditional writes {cas}): {op} after pointer damage '{kind}': " + "; ".join(bad), case)


def _classify(kind, with_orphan, what):
    if kind == "intact":
        return f"C10:intact-pointer-not-believed:{what}"
    if kind == "unicode-digit" and what == "raises":
        return "C10:hint-text-isdigit-not-int"
    if kind == "huge-digits" and what == "raises":
        return "C10:hint-digits-beyond-int-limit"
    if kind == "stale":
        return "C10:stale-pointer-naming-existing-older-version-believed"
    if with_orphan == "crashed" and kind != "stale":
        return "C10:uncommitted-metadata-of-crashed-commit-wins-recovery-after-pointer-loss"
    if with_orphan == "failed" and kind != "stale":
        return "C10:uncommitted-metadata-of-failed-commit-wins-recovery-after-pointer-loss"
    return f"C10:pointer-damage:{kind}:{what}"


def _listing_fault(ctx, rep):
    """pointer lost AND the recovery scan failing while create_table runs: must not re-initialise."""
    from datashard import create_table
    from datashard.storage_backend import LocalStorageBackend
    base = scratch_dir("c10l-")
    try:
        path = os.path.join(base, "t")
        t = tablekit.create(path)
        t.append_records(tablekit.rows(2))
        before = _state(path)
        os.remove(os.path.join(path, "metadata.version-hint.text"))
        orig = LocalStorageBackend.list_files
        calls = {"n": 0}

        def failing(self, prefix):
            if prefix == "metadata":
                calls["n"] += 1
                raise OSError("injected: listing failed")
            return orig(self, prefix)
        LocalStorageBackend.list_files = failing
        try:
            rep.evaluations += 1
            rep.nontrivial(["listing-fault"])
            try:
                create_table(path, tablekit.schema())
                raised = False
            except Exception:       # noqa: BLE001
                raised = True
        finally:
            LocalStorageBackend.list_files = orig
        store = reader.DirStore(path)
        p = reader.pointer(store)
        reinit = False
        if p is not None:
            md = reader.read_metadata(store, p[1])
            reinit = md["table_uuid"] != before["uuid"]
        if reinit:
            rep.violate("C10:reinitialised-when-recovery-listing-fails",
                        "pointer lost + metadata listing fails during create_table: a fresh v0 and pointer were written over an existing table",
                        {"kind": "listing-fault", "create_raised": raised})
    finally:
        shutil.rmtree(base, ignore_errors=True)


def run(ctx, model_ok):
    rep = Report()
    rep.rule = ("pointer contents: all byte strings of ≤3 symbols over a 12-symbol alphabet (ASCII/superscript/Arabic-Indic digits, "
                "whitespace, v - . a, invalid UTF-8, ideographic space) + 43 directed forms (case, padding, NUL, BOM, 4299/4300/4301/5000 digits) "
                "+ random concatenations; recovery: random listings with ties, unstat-able files, nested and non-matching names; histories: "
                "1–4 commits (+snapshot deletion) with/without a failed commit leaving an uncommitted higher-version metadata file × 11 pointer "
                "damages × {open, create, append, collect}. non-trivial = parses or raises / distinct listing / distinct history case.")
    _check_parse(ctx, rep, model_ok)
    _check_recover(ctx, rep, model_ok)
    _check_cvi(ctx, rep, model_ok)
    _histories(ctx, rep)
    _histories_s3(ctx, rep)
    _listing_fault(ctx, rep)
    return rep
